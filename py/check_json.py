#!/usr/bin/env python3
"""Offline checker for C08: CPython's json module (integers as int, other
numerals as Decimal) is the independent JSON reader. Usage:
check_json.py <records.jsonl>...  -> prints one JSON object."""
import json
import math
import re
import sys
from decimal import Decimal

sys.setrecursionlimit(10000)

# The parser's documented accuracy is 2 ulp, so a numeral within 2 ulp of the
# largest finite double may already be reported as out of range.
OVERFLOW_FROM = Decimal(2) ** 1024 - Decimal(2) ** 971 - 2 * Decimal(2) ** 971


def load(text):
    def pairs(p):
        d = {}
        for k, v in p:
            d[k] = v  # last duplicate wins
        return d

    def const(c):
        raise ValueError("constant %s" % c)

    return json.loads(text, parse_int=lambda s: ("int", s), parse_float=lambda s: ("float", s), parse_constant=const, object_pairs_hook=pairs)


def load_all(text):
    """like load() but keeps every key/value pair (duplicates included) as ("obj", pairs)"""
    def const(c):
        raise ValueError("constant %s" % c)

    return json.loads(text, parse_int=lambda s: ("int", s), parse_float=lambda s: ("float", s), parse_constant=const,
                      object_pairs_hook=lambda p: ("obj", p))


def kids(v):
    if isinstance(v, tuple) and v[0] == "obj":
        out = []
        for k, x in v[1]:
            out.append(k)
            out.append(x)
        return out
    if isinstance(v, list):
        return v
    return []


def depth_all(v):
    if (isinstance(v, tuple) and v[0] == "obj") or isinstance(v, list):
        return 1 + max([depth_all(x) for x in kids(v)] or [0])
    return 0


def any_leaf(v, pred):
    if isinstance(v, str) or (isinstance(v, tuple) and v[0] in ("int", "float")):
        return pred(v)
    return any(any_leaf(x, pred) for x in kids(v))


def is_surrogate_str(v):
    return isinstance(v, str) and any(0xD800 <= ord(c) <= 0xDFFF for c in v)


def is_overflow_num(v):
    if isinstance(v, tuple) and v[0] in ("int", "float"):
        try:
            return abs(Decimal(v[1])) >= OVERFLOW_FROM
        except Exception:
            return False
    return False


def depth(v):
    if isinstance(v, dict):
        return 1 + max([depth(x) for x in v.values()] or [0])
    if isinstance(v, list):
        return 1 + max([depth(x) for x in v] or [0])
    return 0


def has_surrogate(v):
    if isinstance(v, str):
        return any(0xD800 <= ord(c) <= 0xDFFF for c in v)
    if isinstance(v, dict):
        return any(has_surrogate(k) or has_surrogate(x) for k, x in v.items())
    if isinstance(v, list):
        return any(has_surrogate(x) for x in v)
    return False


def overflows(v):
    if isinstance(v, tuple):
        try:
            return abs(Decimal(v[1])) >= OVERFLOW_FROM
        except Exception:
            return False
    if isinstance(v, dict):
        return any(overflows(x) for x in v.values())
    if isinstance(v, list):
        return any(overflows(x) for x in v)
    return False


NUM = re.compile(r"^(-?)(\d+)(?:\.(\d+))?(?:[eE]([+-]?\d+))?$")


def in_exact_domain(s):
    """numeral written with <= 15 significant digits and a decimal exponent within +-22"""
    m = NUM.match(s)
    if not m:
        return False
    ip, fp, e = m.group(2), m.group(3) or "", int(m.group(4) or "0")
    # digits as written: leading zeros are not significant, trailing zeros are
    # (the reader sees them: 36593.507084336700 is a 17-digit mantissa)
    ds = (ip + fp).lstrip("0") or "0"
    # value = int(ip+fp) * 10^(e - len(fp))
    e10 = e - len(fp)
    sig = len(ds)
    return sig <= 15 and abs(e10) <= 22 and abs(e) <= 22


def cmp_num(a, b, path, stats):
    """a = input leaf ('int'|'float', spelling); b = output leaf. Returns error or None."""
    ka, sa = a
    kb, sb = b
    if ka == "int":
        va = int(sa)
        if sa in ("-0",):
            stats["unconstrained_negative_zero"] += 1
            return None if Decimal(sb) == 0 else "negative zero became %s" % sb
        if -(2 ** 63) <= va < 2 ** 64:
            stats["int_leaves"] += 1
            if kb != "int":
                return "integer %s came back spelled %s" % (sa, sb)
            if int(sb) != va:
                return "integer %s came back as %s" % (sa, sb)
            return None
    # general numeral
    try:
        fa = float(sa)
        fb = float(sb)
    except (OverflowError, ValueError):
        return "unparseable numeral %s / %s" % (sa, sb)
    if math.isinf(fa):
        return "input numeral overflows but was accepted: %s -> %s" % (sa, sb)
    if in_exact_domain(sa):
        stats["exact_domain_leaves"] += 1
        if fa != fb and not (fa == 0 and fb == 0):
            return "numeral %s (exactness domain) came back as %s" % (sa, sb)
        return None
    stats["float_leaves"] += 1
    if fa == fb:
        return None
    if abs(fa - fb) <= 2 * math.ulp(fa):
        stats["float_leaves_within_2ulp_not_exact"] += 1
        return None
    return "numeral %s came back as %s (more than 2 ulp off)" % (sa, sb)


def compare(a, b, path, stats):
    if isinstance(a, tuple):
        if not isinstance(b, tuple):
            return "%s: number became %r" % (path, b)
        e = cmp_num(a, b, path, stats)
        return None if e is None else "%s: %s" % (path, e)
    if isinstance(a, str):
        stats["string_leaves"] += 1
        if a != b:
            return "%s: string %r became %r" % (path, a, b)
        return None
    if a is None or isinstance(a, bool):
        if a is not b:
            return "%s: %r became %r" % (path, a, b)
        return None
    if isinstance(a, list):
        if not isinstance(b, list) or len(a) != len(b):
            return "%s: array changed shape" % path
        for i, (x, y) in enumerate(zip(a, b)):
            e = compare(x, y, "%s[%d]" % (path, i), stats)
            if e:
                return e
        return None
    if isinstance(a, dict):
        if not isinstance(b, dict) or set(a.keys()) != set(b.keys()):
            return "%s: object key set changed" % path
        for k in a:
            e = compare(a[k], b[k], "%s.%s" % (path, k), stats)
            if e:
                return e
        return None
    return "%s: unknown node" % path


def check(path, stats, bad):
    with open(path) as f:
        for line in f:
            rec = json.loads(line)
            stats["records"] += 1
            text = rec["in"]
            try:
                a = load(text)
            except (ValueError, RecursionError):
                stats["python_rejects"] += 1
                if "out" in rec:
                    stats["crate_accepts_what_python_rejects(not asserted)"] += 1
                continue
            if "err" in rec:
                full = load_all(text)
                if depth_all(full) >= 128:
                    stats["allowed_failure_depth"] += 1
                elif any_leaf(full, is_surrogate_str):
                    stats["allowed_failure_lone_surrogate"] += 1
                elif any_leaf(full, is_overflow_num):
                    stats["allowed_failure_number_range"] += 1
                elif len(bad) < 40:
                    bad.append({"signature": "C08/valid-json-rejected", "witness": {"text": text, "error": rec["err"]}})
                continue
            stats["compared"] += 1
            try:
                b = load(rec["out"])
            except ValueError as e:
                if len(bad) < 40:
                    bad.append({"signature": "C08/output-is-not-json", "witness": {"text": text, "output": rec["out"], "error": str(e)}})
                continue
            e = compare(a, b, "$", stats)
            if e and len(bad) < 40:
                sig = "C08/number-changed" if ("numeral" in e or "integer" in e or "number" in e) else "C08/value-changed"
                bad.append({"signature": sig, "witness": {"text": text, "output": rec["out"], "difference": e}})


if __name__ == "__main__":
    from collections import defaultdict

    stats = defaultdict(int)
    bad = []
    for p in sys.argv[1:]:
        check(p, stats, bad)
    print(json.dumps({"stats": dict(stats), "violations": bad}))
