"""Per-property plans: which builds, which driver subcommand, how many cases,
and what the evidence says about how cases are generated."""
import json
import os
import subprocess
import time

import orchestrate as o

PLANS = {}

COMMON_ASSUMPTIONS = [
    "the reference model (harness/refimpl) states the specification correctly; it is re-validated against the repository's compliance data on every run",
    "only executions that were actually produced are decided: held on what was observed, never 'verified'",
    "rustc/cargo, serde and serde_json behave as documented",
]


def generic(sub, rule, n_quick, n_thorough, builds=("chk",), needs_ref=True, min_evaluations=1000, assumptions=(), exhaustive=False,
            extra_args=None, level="exploration", post=None):
    def plan(pid, tier, seed, t0):
        rundir, staged = o.prepare(list(builds))
        rc = None
        if needs_ref:
            rc = o.refcheck(staged["chk"], rundir)
        n = n_quick if tier == "quick" else n_thorough
        merged = None
        for b in builds:
            reports = o.run_shards(staged[b], sub, n, seed, tier, os.path.join(rundir, b), extra=(extra_args or []) + ["--build", b])
            m = o.merge(reports)
            if merged is None:
                merged = m
            else:
                # results of additional builds are folded in (union of observations)
                merged["evaluations"] += m["evaluations"]
                merged["distinct"].update(m["distinct"])
                merged["violations"] += m["violations"]
                merged["violations_total"] += m["violations_total"]
                merged["harness_errors"] += m["harness_errors"]
                merged["inconclusive"] += m["inconclusive"]
                merged["died"] += m["died"]
                for k, v in m["observed"].items():
                    merged["observed"]["%s@%s" % (k, b)] = v
        cfg = {
            "rule": rule,
            "min_evaluations": min_evaluations,
            "assumptions": COMMON_ASSUMPTIONS + list(assumptions),
            "exhaustive": exhaustive,
            "level": level,
        }
        extra_cov = {"builds": list(builds)}
        if rc is not None:
            extra_cov["reference_validation"] = {"compliance_cases": rc.get("evaluations"), "observed": rc.get("observed")}
        if post:
            post(pid, tier, seed, rundir, staged, merged, extra_cov)
        return o.conclude(pid, tier, seed, merged, cfg, t0, extra_cov)

    return plan


PLANS["C01"] = generic(
    "c01",
    rule="value-guided random expression trees (<=5 top-level steps, sub-expression depth 3, all core forms, no function calls) are "
    "printed to text (random minimal/full parenthesisation validated by the strict reference parser, random whitespace, random "
    "identifier/literal spellings) and searched against 5 documents each (the guiding document, 3 perturbations, 1 unrelated; "
    "20% of guiding documents come from the compliance suite); oracle = reference evaluator on the generator's tree, compared as "
    "JSON with numbers by value. Non-trivial = agreeing non-null result on a tree with >=3 nodes and >=2 node kinds; distinct by "
    "(tree hash, document hash).",
    n_quick=60_000,
    n_thorough=3_000_000,
    min_evaluations=50_000,
    assumptions=["float results are compared with relative tolerance 1e-12; generated documents only contain identical or well separated numbers"],
)


def setup():
    """Build everything the quick checks need (offline)."""
    t0 = time.time()
    with o.Lock():
        o.sync_snapshot()
        for b in ("chk",):
            path, secs = o.cargo_build(b)
            o.log("built %s in %.1fs" % (b, secs))
    o.log("setup done in %.1fs" % (time.time() - t0))
    return 0


def replay(path):
    with open(path) as f:
        rec = json.load(f)
    rundir, staged = o.prepare(["chk"])
    r = subprocess.run([staged["chk"], "replay", "--file", path], capture_output=True, text=True, env=o.ENV)
    print(r.stdout)
    print(r.stderr[-2000:])
    return r.returncode


def c03_plan(pid, tier, seed, t0):
    enum_len = "4" if tier == "quick" else "5"
    return generic(
        "c03",
        rule="(1) ALL sequences of 1..%s tokens over the 29-kind token alphabet with canonical payloads are enumerated and compiled "
        "(exhaustive for that sub-space); (2) random families: ABNF sentences from an independent generative walk of the published "
        "grammar (must compile; also self-checks the oracle), one-token mutants of sentences (delete/duplicate/swap/replace/insert/"
        "split a compound token), token soup <=12 tokens, character soup <=40 chars over a hostile alphabet, every truncation of "
        "sampled sentences, numeric-edge index/slice templates. Oracle = strict token-level recognizer of the grammar; an "
        "over-acceptance is attributed to a recorded deviation class only if a subset of the listed relaxations makes the reference "
        "accept it. Non-trivial = lexes to >=3 tokens; distinct by token-kind sequence." % enum_len,
        n_quick=400_000,
        n_thorough=20_000_000,
        min_evaluations=400_000,
        extra_args=["--enum-len", enum_len],
        assumptions=["the numeral -2147483648 is treated as unconstrained: 'fits a signed 32-bit integer' does not settle whether the crate must accept it (it rejects it)"],
    )(pid, tier, seed, t0)


PLANS["C03"] = c03_plan
