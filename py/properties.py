"""Per-property plans: which builds, which driver subcommand, how many cases,
and what the evidence says about how cases are generated."""
import json
import os
import subprocess
import sys
import time

import orchestrate as o

PLANS = {}

COMMON_ASSUMPTIONS = [
    "the reference model (harness/refimpl) states the specification correctly; it is re-validated against the repository's compliance data on every run",
    "only executions that were actually produced are decided: held on what was observed, never 'verified'",
    "rustc/cargo, serde and serde_json behave as documented",
]


def _discard(path):
    try:
        os.remove(path)
    except OSError:
        pass


def generic(sub, rule, n_quick, n_thorough, builds=("chk",), needs_ref=True, min_evaluations=1000, assumptions=(), exhaustive=False,
            extra_args=None, level="exploration", post=None, extra_args_by_tier=None):
    def plan(pid, tier, seed, t0):
        rundir, staged = o.prepare(list(builds))
        rc = None
        if needs_ref:
            rc = o.refcheck(staged["chk"], rundir)
        n = n_quick if tier == "quick" else n_thorough
        merged = None
        for b in builds:
            tier_args = (extra_args_by_tier or {}).get(tier, [])
            reports = o.run_shards(staged[b], sub, n, seed, tier, os.path.join(rundir, b), extra=(extra_args or []) + tier_args + ["--build", b])
            m = o.merge(reports)
            if merged is None:
                merged = m
            else:
                # results of additional builds are folded in (union of observations)
                merged["evaluations"] += m["evaluations"]
                merged["distinct"].update(m["distinct"])
                merged["violations"] += m["violations"]
                merged["violations_total"] += m["violations_total"]
                merged["harness_errors"] += m["harness_errors"]
                merged["inconclusive"] += m["inconclusive"]
                merged["died"] += m["died"]
                for k, v in m["observed"].items():
                    merged["observed"]["%s@%s" % (k, b)] = v
        cfg = {
            "rule": rule,
            "min_evaluations": min_evaluations,
            "assumptions": COMMON_ASSUMPTIONS + list(assumptions),
            "exhaustive": exhaustive,
            "level": level,
        }
        extra_cov = {"builds": list(builds)}
        if rc is not None:
            extra_cov["reference_validation"] = {"compliance_cases": rc.get("evaluations"), "observed": rc.get("observed")}
        if post:
            post(pid, tier, seed, rundir, staged, merged, extra_cov)
        return o.conclude(pid, tier, seed, merged, cfg, t0, extra_cov)

    return plan


def c01_plan(pid, tier, seed, t0):
    enum_len = "3" if tier == "quick" else "4"
    return generic(
        "c01",
        rule="(1) BOUNDED-EXHAUSTIVE: every pipeline of 1..%s steps over a 25-step alphabet (fields, indexes, all five projection kinds with and "
        "without right-hand sides, filters, slices, multi-select list/hash, !, ||, &&, comparisons, a literal) printed to text and searched "
        "against 12 small documents of every shape (exhaustive for that sub-space); (2) value-guided random expression trees (<=5 top-level steps, "
        "sub-expression depth 3, all core forms, no function calls) printed to text (random minimal/full parenthesisation validated by the strict "
        "reference parser, random whitespace incl. lone CR, random identifier/literal spellings) and searched against 5 documents each (the guiding "
        "document, 3 perturbations, 1 unrelated; 20%% of guiding documents come from the compliance suite). Oracle = reference evaluator on the "
        "generator's tree, compared as JSON with numbers by value. Non-trivial = agreeing non-null result on a tree with >=3 nodes and >=2 node "
        "kinds (>=2 steps in the enumeration); distinct by (tree hash, document hash)." % enum_len,
        n_quick=600_000,
        n_thorough=36_000_000,
        min_evaluations=50_000,
        extra_args=["--enum-len", enum_len],
        exhaustive=True,
        assumptions=["float results are compared with relative tolerance 1e-12; generated documents only contain identical or well separated numbers"],
    )(pid, tier, seed, t0)


PLANS["C01"] = c01_plan


def setup():
    """Build everything the quick checks need (offline), so the checks themselves only re-link what changed."""
    t0 = time.time()
    with o.Lock():
        o.sync_snapshot()
        for b in ("chk", "rel"):
            path, secs = o.cargo_build(b)
            o.log("built driver/%s in %.1fs" % (b, secs))
        path, secs = o.cargo_build("chk", "jpbuild", "jp")
        o.log("built jp in %.1fs" % secs)
        with ThreadPoolExecutor(max_workers=5) as ex:
            futs = {c: ex.submit(o.cargo_build, c, "matrix", None) for c in ["n-default", "n-sync", "n-spec", "n-syncspec", "chk"]}
            for c, f in futs.items():
                path, secs = f.result()
                o.log("built matrix/%s in %.1fs" % (c, secs))
        for pkg in ("sendsync", "conc"):
            r = _cargo(["build", "--offline", "--profile", "chk", "-p", pkg], "target-sync")
            if r.returncode != 0:
                raise o.HarnessError("%s failed to build:\n%s" % (pkg, r.stderr[-2000:]))
        o.log("built sendsync + conc (sync)")
        r = _cargo(["build", "--offline", "-Zbuild-std", "--target", "x86_64-unknown-linux-gnu", "-p", "conc", "--profile", "chk"], "target-tsan",
                   toolchain="nightly", rustflags="-Zsanitizer=thread")
        o.log("ThreadSanitizer build: %s" % ("ok" if r.returncode == 0 else "FAILED (C16 will report the TSan observer as inconclusive)"))
        r = _cargo(["miri", "run", "--offline", "-p", "conc", "--", "small", "1", "1", "1"], "target-miri", toolchain="nightly",
                   extra_env={"MIRIFLAGS": "-Zmiri-disable-isolation"}, timeout=3000)
        o.log("Miri warm-up: %s" % ("ok" if r.returncode == 0 else "FAILED (C16 will report the Miri observer as inconclusive)"))
    o.log("setup done in %.1fs" % (time.time() - t0))
    return 0


def replay(path):
    with open(path) as f:
        rec = json.load(f)
    rundir, staged = o.prepare(["chk"])
    r = subprocess.run([staged["chk"], "replay", "--file", path], capture_output=True, text=True, env=o.ENV)
    print(r.stdout)
    print(r.stderr[-2000:])
    return r.returncode


def c03_plan(pid, tier, seed, t0):
    enum_len = "4" if tier == "quick" else "5"
    return generic(
        "c03",
        rule="(1) ALL sequences of 1..%s tokens over the 29-kind token alphabet with canonical payloads are enumerated and compiled "
        "(exhaustive for that sub-space); (2) random families: ABNF sentences from an independent generative walk of the published "
        "grammar (must compile; also self-checks the oracle), one-token mutants of sentences (delete/duplicate/swap/replace/insert/"
        "split a compound token), token soup <=12 tokens, character soup <=40 chars over a hostile alphabet, every truncation of "
        "sampled sentences, numeric-edge index/slice templates. Oracle = strict token-level recognizer of the grammar; an "
        "over-acceptance is attributed to a recorded deviation class only if a subset of the listed relaxations makes the reference "
        "accept it. Non-trivial = lexes to >=3 tokens; distinct by token-kind sequence." % enum_len,
        n_quick=1_200_000,
        n_thorough=100_000_000,
        min_evaluations=400_000,
        extra_args=["--enum-len", enum_len],
        assumptions=["the numeral -2147483648 is treated as unconstrained: 'fits a signed 32-bit integer' does not settle whether the crate must accept it (it rejects it)"],
    )(pid, tier, seed, t0)


PLANS["C03"] = c03_plan


def c04_plan(pid, tier, seed, t0):
    enum_len = "4" if tier == "quick" else "6"
    return generic(
        "c04",
        rule="(A) ALL sequences of 1..%s operator symbols from an 18-symbol alphabet (| || && == < >= . ! [0] [*] [] [?x] .* [1:] [::-1] "
        ".f(@) .[y] .{k:y}) around identifier operands are enumerated (exhaustive for that sub-space); (B) random ABNF sentences with "
        "nesting through filters, multi-selects and call arguments; (C) value-guided random trees printed fully parenthesised and with "
        "parentheses minimised (minimisation validated by the reference parser). Oracle (1): the public Ast lifted to pipeline normal "
        "form must equal the reference Pratt tree (binding powers from the statement; the crate's star<filter or the statement's "
        "star=filter tie-break are both accepted and counted); oracle (2): the twin spellings give identical search results on 4 "
        "documents. Non-trivial = expression with operators of >=2 different binding powers (or a twin that really lost parentheses); "
        "distinct by expression text." % enum_len,
        n_quick=240_000,
        n_thorough=24_000_000,
        min_evaluations=100_000,
        extra_args=["--enum-len", enum_len],
        assumptions=["regrouping of pure composition ('.', postfix brackets, '|') is invisible in the normal form by design: composition is associative, so it does not affect what the statement constrains"],
    )(pid, tier, seed, t0)


PLANS["C04"] = c04_plan


# ---------------------------------------------------------------------------
# C05: totality — process monitor with crash isolation

import resource
import signal
from concurrent.futures import ThreadPoolExecutor

DEPTH_FAMILIES = ["parens", "nots", "dots", "pipes", "ors", "ands", "cmps", "multilists", "multihashes", "flattens", "indexes",
                  "wildcards", "objwildcards", "slices", "filters", "nested_filters", "calls", "exprefs", "json_literal"]


def _limits(cpu_s, as_gib=8):
    def f():
        resource.setrlimit(resource.RLIMIT_CPU, (cpu_s, cpu_s + 10))
        resource.setrlimit(resource.RLIMIT_AS, (as_gib << 30, as_gib << 30))
    return f


def _death_cause(returncode, stderr):
    if "has overflowed its stack" in stderr:
        return "stack-overflow"
    if "WATCHDOG:" in stderr:
        return "cpu-budget"
    if returncode < 0:
        sig = -returncode
        if sig == signal.SIGXCPU:
            return "cpu-budget"
        if sig == signal.SIGKILL:
            return "killed"
        return "signal-%d" % sig
    if "memory allocation" in stderr and "failed" in stderr:
        return "allocation-failure"
    return "exit-%d" % returncode


def _c05_worker(binary, build, n, seed, tier, shard, shards, rundir):
    """Run one shard; on death name the culprit from the BEGIN/END log, record
    it, and re-run the shard without it. Returns (report, death_violations, inconclusive)."""
    skip = []
    deaths = []
    inconclusive = []
    for attempt in range(40):
        out = os.path.join(rundir, "c05.%s.%d.json" % (build, shard))
        logf = os.path.join(rundir, "c05.%s.%d.log" % (build, shard))
        for p in (out, logf):
            if os.path.exists(p):
                os.remove(p)
        cmd = [binary, "c05", "--seed", str(seed), "--n", str(n), "--shard", "%d/%d" % (shard, shards), "--tier", tier,
               "--out", out, "--log", logf, "--build", build]
        if skip:
            cmd += ["--skip", ",".join(str(x) for x in skip)]
        try:
            r = subprocess.run(cmd, capture_output=True, text=True, env=o.ENV, preexec_fn=_limits(90 if tier == "quick" else 3600), timeout=7200)
        except subprocess.TimeoutExpired:
            inconclusive.append("shard %d (%s): wall-clock watchdog fired" % (shard, build))
            return None, deaths, inconclusive
        if r.returncode == 0 and os.path.exists(out):
            with open(out) as f:
                return json.load(f), deaths, inconclusive
        # find the culprit: last B without E
        culprit = None
        if os.path.exists(logf):
            last_b = None
            for line in open(logf):
                parts = line.split()
                if len(parts) == 2:
                    if parts[0] == "B":
                        last_b = int(parts[1])
                    elif parts[0] == "E" and last_b == int(parts[1]):
                        last_b = None
            culprit = last_b
        cause = _death_cause(r.returncode, r.stderr)
        if culprit is None:
            return {"died": "%s (no culprit in log)" % cause, "shard": shard, "stderr": r.stderr[-1500:]}, deaths, inconclusive
        d = subprocess.run([binary, "c05case", "--seed", str(seed), "--shard", "%d/%d" % (shard, shards), "--index", str(culprit)],
                           capture_output=True, text=True, env=o.ENV)
        try:
            info = json.loads(d.stdout.splitlines()[0])
        except Exception:
            info = {"expression": "<could not regenerate case %d>" % culprit, "depth_metric": 0, "bytes": 0}
        if cause in ("cpu-budget", "killed", "allocation-failure"):
            # re-run alone under the large budget before deciding
            d2 = subprocess.run([binary, "c05case", "--seed", str(seed), "--shard", "%d/%d" % (shard, shards), "--index", str(culprit), "--run", "1"],
                                capture_output=True, text=True, env=o.ENV, preexec_fn=_limits(30 if tier == "quick" else 120))
            if "RETURNED" in d2.stdout:
                inconclusive.append("case %d of shard %d exhausted the shard budget (%s) but returned when run alone" % (culprit, shard, cause))
                skip.append(culprit)
                continue
            cause = _death_cause(d2.returncode, d2.stderr) + "-alone"
        if cause.startswith("stack-overflow"):
            sig = "C05/stack-overflow/depth>=500" if info.get("depth_metric", 0) >= 500 else "C05/stack-overflow/depth<500"
        else:
            sig = "C05/process-died/%s" % cause
        if sig.startswith("C05/process-died/cpu-budget") and sum(1 for d0 in deaths if d0["signature"] == sig) >= 1:
            # a second confirmed non-terminating case: the verdict is settled, stop burning CPU budgets on this shard
            deaths.append({"signature": sig, "witness": {"expression": info.get("expression", "")[:2000], "build": build, "cause": cause, "shard": shard, "index": culprit}})
            inconclusive.append("shard %d (%s) abandoned after two cases exceeded the CPU budget" % (shard, build))
            return None, deaths, inconclusive
        deaths.append({"signature": sig, "witness": {"expression": info.get("expression", "")[:2000], "bytes": info.get("bytes"),
                                                     "depth_metric": info.get("depth_metric"), "build": build, "cause": cause,
                                                     "seed": seed, "shard": shard, "index": culprit}})
        skip.append(culprit)
    return {"died": "too many restarts", "shard": shard}, deaths, inconclusive


def _depth_case(binary, build, fam, depth):
    try:
        r = subprocess.run([binary, "c05depth", "--family", fam, "--depth", str(depth)], capture_output=True, text=True, env=o.ENV,
                           preexec_fn=_limits(120), timeout=600)
    except subprocess.TimeoutExpired:
        return fam, depth, "watchdog", {}
    info = {}
    lines = r.stdout.splitlines()
    if lines:
        try:
            info = json.loads(lines[0])
        except Exception:
            info = {}
    if r.returncode == 0 and "DROPPED" in r.stdout:
        if "panic" in info or str(info.get("search", "")).startswith("panic") or info.get("clone_drop") is False:
            return fam, depth, "panic", info
        return fam, depth, "returned", info
    return fam, depth, _death_cause(r.returncode, r.stderr), info


def c05_plan(pid, tier, seed, t0):
    builds = ["chk", "rel"]
    rundir, staged = o.prepare(builds)
    n = 1_000_000 if tier == "quick" else 24_000_000
    per = (n + o.NCPU - 1) // o.NCPU
    merged = None
    death_violations = []
    for b in builds:
        os.makedirs(os.path.join(rundir, b), exist_ok=True)
        with ThreadPoolExecutor(max_workers=o.NCPU) as ex:
            futs = [ex.submit(_c05_worker, staged[b], b, per, seed, tier, s, o.NCPU, os.path.join(rundir, b)) for s in range(o.NCPU)]
            results = [f.result() for f in futs]
        reports = []
        inconc = []
        for rep, deaths, inc in results:
            if rep is not None:
                reports.append(rep)
            death_violations += deaths
            inconc += inc
        m = o.merge(reports)
        m["inconclusive"] += inconc
        if merged is None:
            merged = m
        else:
            merged["evaluations"] += m["evaluations"]
            merged["distinct"].update(m["distinct"])
            merged["violations"] += m["violations"]
            merged["violations_total"] += m["violations_total"]
            merged["harness_errors"] += m["harness_errors"]
            merged["inconclusive"] += m["inconclusive"]
            merged["died"] += m["died"]
            for k, v in m["observed"].items():
                merged["observed"]["%s@%s" % (k, b)] = v
    # depth families: one process per (family, depth, build)
    depths = [10, 100, 400, 1000, 3000, 10000, 30000, 100000] if tier == "quick" else [10, 100, 400, 499, 700, 1000, 2000, 3000, 5000, 10000, 20000, 30000, 50000, 100000, 300000]
    thresholds = {}
    with ThreadPoolExecutor(max_workers=o.NCPU) as ex:
        futs = []
        for b in builds:
            for fam in DEPTH_FAMILIES:
                for d in depths:
                    futs.append((b, ex.submit(_depth_case, staged[b], b, fam, d)))
        for b, f in futs:
            fam, d, outcome, info = f.result()
            merged["evaluations"] += 1
            key = "%s@%s" % (fam, b)
            t = thresholds.setdefault(key, {"max_returned": 0, "min_died": None, "max_parse_depth": 0, "max_interp_depth": 0})
            if outcome == "returned":
                t["max_returned"] = max(t["max_returned"], d)
                t["max_parse_depth"] = max(t["max_parse_depth"], info.get("parse_max_depth", 0))
                t["max_interp_depth"] = max(t["max_interp_depth"], info.get("interp_max_depth", 0) or 0)
                merged["distinct"].add(hash((fam, d, b)) & 0xFFFFFFFFFFFF)
            elif outcome == "watchdog":
                merged["inconclusive"].append("depth family %s depth %d (%s): wall-clock watchdog" % (fam, d, b))
            else:
                t["min_died"] = d if t["min_died"] is None else min(t["min_died"], d)
                if outcome == "stack-overflow":
                    sig = "C05/stack-overflow/depth>=500" if d >= 500 else "C05/stack-overflow/depth<500"
                elif outcome == "panic":
                    sig = "C05/panic/depth-family"
                else:
                    sig = "C05/process-died/%s" % outcome
                death_violations.append({"signature": sig, "witness": {"family": fam, "depth": d, "build": b, "cause": outcome,
                                                                       "how": "driver c05depth --family %s --depth %d" % (fam, d)}})
    merged["violations"] += death_violations
    merged["violations_total"] += len(death_violations)
    cfg = {
        "rule": "every hostile input is compiled and, if it compiles, searched against a hostile document pool (arrays of length 0..10, "
        "deep/odd documents, numeric extremes), under two builds: 'chk' (optimised, overflow checks + debug assertions on) and 'rel' "
        "(wrapping arithmetic, as shipped). Families: ABNF sentences, one-token mutants, token soup, character soup (incl. Unicode "
        "numerics, NUL, astral), all truncations of sampled sentences, numeric-edge templates, malformed quoted forms, shallow depth "
        "families; PLUS the exhaustive grid of slices with start/stop/step in {omitted,0,+-1,+-2,+-(2^31-1),+-(2^31-2),2^30} x array "
        "lengths {0,1,2,3,10} (and the index forms); PLUS 19 depth families x depths %s, one process each. The monitor is the process: "
        "a caught panic, a death (signal / stack overflow / allocation failure) or exhaustion of the shard's CPU budget (quick: 90 CPU-s for "
        "~20 000 cases that normally take 2 CPU-s; the culprit is then re-run alone with 30 CPU-s; thorough: 3600 / 120) is the event. Non-trivial = the input compiled and was searched; distinct by expression text."
        % depths,
        "min_evaluations": 200_000,
        "assumptions": COMMON_ASSUMPTIONS + [
            "bounded time is decided as 'within a CPU budget 4-6 orders of magnitude above the median'; wall clock never decides",
            "main-thread stack of 8 MiB (ulimit -s default), i.e. what a CLI user gets",
        ],
        "exhaustive": False,
    }
    extra_cov = {"builds": builds, "depth_thresholds": thresholds, "depths_probed": depths}
    return o.conclude(pid, tier, seed, merged, cfg, t0, extra_cov)


PLANS["C05"] = c05_plan


PLANS["C02"] = generic(
    "c02",
    rule="(a) direct calls of each of the 26 built-ins with generated well-typed argument tuples (arrays of length 0..80 incl. >20 with heavy "
    "key duplicates and unique id tags, Unicode strings incl. astral/combining, negative/fractional numbers, overlapping objects, numeral "
    "near-misses), arguments given as literals or as paths into a document, compared with reference functions that state the contract "
    "(stable sort exact, max_by/min_by any extreme element, sum/avg within 1e-9 of the magnitude sum, to_string by re-parsing); (b) a "
    "recording custom function inside the expression reference of map/sort_by/max_by/min_by: the multiset of recorded arguments must equal the "
    "array's elements, each once; (c) value-guided random trees containing calls nested in projections, multi-selects and other calls vs the "
    "reference evaluator. Non-trivial = non-empty principal argument / non-null nested result; distinct by (expression, document).",
    n_quick=1_200_000,
    n_thorough=140_000_000,
    min_evaluations=200_000,
    assumptions=["not asserted: which of several equal-key elements max_by/min_by returns; whitespace-padded or out-of-range numerals in to_number; non-finite sums; exprefs passed for 'any' parameters"],
)

def c06_plan(pid, tier, seed, t0):
    return _c06(extra_args=["--reps", "6" if tier == "quick" else "100"])(pid, tier, seed, t0)


def _c06(extra_args):
    return generic(
    "c06", extra_args=extra_args,
    rule="exhaustive decision table: 26 built-ins + 3 unknown names x argument counts 0..declared+2 x 10 type classes per position (null, boolean, "
    "number, string, [], [numbers], [strings], [mixed], object, expression reference) = 112219 cells; every cell instantiated with 3 "
    "(wrong arity) or 18 (right arity) random representatives, arguments alternately given as literals and as paths into a document. Oracle = "
    "the specification's signature table: arity error wins; else any ill-typed position is a type error (kind only); else the call succeeds "
    "and its result type is in the declared set. Non-trivial = cell with a decided outcome; distinct by cell.",
    n_quick=1,
    n_thorough=1,
    min_evaluations=300_000,
    exhaustive=True,
    assumptions=["cells where a parameter declared 'any' receives an expression reference are unconstrained and counted"],
    )


PLANS["C06"] = c06_plan


def c07_plan(pid, tier, seed, t0):
    builds = ["chk", "rel"]
    rundir, staged = o.prepare(builds)
    n = 400_000 if tier == "quick" else 40_000_000
    per = (n + o.NCPU - 1) // o.NCPU
    merged = None
    py_records = 0
    py_kinds = {}
    for b in builds:
        bdir = os.path.join(rundir, b)
        os.makedirs(bdir, exist_ok=True)
        # one records file per shard; run_shards passes identical extra args, so shard-specific paths are derived here
        procs = []
        for s in range(o.NCPU):
            out = os.path.join(bdir, "c07.%d.json" % s)
            recs = os.path.join(bdir, "c07.%d.records" % s)
            cmd = [staged[b], "c07", "--seed", str(seed), "--n", str(per), "--shard", "%d/%d" % (s, o.NCPU), "--tier", tier, "--out", out,
                   "--records", recs, "--build", b]
            procs.append((s, subprocess.Popen(cmd, stdout=subprocess.PIPE, stderr=subprocess.PIPE, env=o.ENV), out, recs))
        reports = []
        checkers = []
        for s, p, out, recs in procs:
            so, se = p.communicate()
            if p.returncode != 0 or not os.path.exists(out):
                reports.append({"died": "exit %s" % p.returncode, "shard": s, "stderr": se.decode("utf-8", "replace")[-1500:]})
                continue
            reports.append(json.load(open(out)))
            checkers.append((subprocess.Popen([sys.executable, os.path.join(o.VERIF, "py", "check_slices.py"), recs], stdout=subprocess.PIPE,
                                              stderr=subprocess.PIPE, text=True), recs))
        m = o.merge(reports)
        for c, recs in checkers:
            so, se = c.communicate()
            if c.returncode != 0:
                m["harness_errors"].append("check_slices.py failed: %s" % se[-500:])
                continue
            res = json.loads(so)
            if not res["violations"]:
                _discard(recs)  # event logs are large; keep only those that witness something
            py_records += res["records"]
            for k, v in res["kinds"].items():
                py_kinds[k] = py_kinds.get(k, 0) + v
            for v in res["violations"]:
                v["witness"]["build"] = b
                m["violations"].append(v)
                m["violations_total"] += 1
        if merged is None:
            merged = m
        else:
            merged["evaluations"] += m["evaluations"]
            merged["distinct"].update(m["distinct"])
            merged["violations"] += m["violations"]
            merged["violations_total"] += m["violations_total"]
            merged["harness_errors"] += m["harness_errors"]
            merged["died"] += m["died"]
            for k, v in m["observed"].items():
                merged["observed"]["%s@%s" % (k, b)] = v
    cfg = {
        "rule": "EXHAUSTIVE: array lengths 0..8 x start, stop, step each in {omitted} U [-11, 11] (124416 triples incl. step 0) and all indexes -12..12; "
        "the extreme grid {omitted, 0, +-1, +-(2^31-1), +-(2^31-2), +-2^30, +-65536}^3 x lengths 0..12; plus random triples over the whole i32 range "
        "with lengths <= 64; every case through search('@[a:b:c]') AND Variable::slice directly; non-array subjects of every JSON type; under the "
        "overflow-checked and the wrapping build. The driver records (len, start, stop, step, result); CPython's list(range(len))[a:b:c] decides "
        "offline (py/check_slices.py); an in-process i128 rule cross-checks. Arrays hold their own indexes, so a result identifies exactly which "
        "elements were selected. Non-trivial = non-empty result or a clamped endpoint; distinct by (len, start, stop, step).",
        "min_evaluations": 250_000,
        "assumptions": COMMON_ASSUMPTIONS + ["CPython's slice semantics are the specification (the statement says so)",
                                              "Variable::slice cannot express the step-0 error (returns Option<Vec>); it is not called with step 0"],
        "exhaustive": True,
    }
    if py_records == 0:
        merged["harness_errors"].append("the Python oracle saw no records")
    extra_cov = {"builds": builds, "python_checked_records": py_records, "python_record_kinds": py_kinds}
    return o.conclude(pid, tier, seed, merged, cfg, t0, extra_cov)


PLANS["C07"] = c07_plan


def c10_plan(pid, tier, seed, t0):
    extra = "150" if tier == "quick" else "1500"
    return generic(
        "c10",
        rule="a pool of JSON values (every type; strings that look like other types; ~70 number spellings incl. int/float spellings of the same "
        "number, 0/-0/0.0, 2^53+-1, i64/u64 extremes, 1e+-300, 1e308-scale pairs, subnormals; nested containers differing in one leaf, order or "
        "key; empty containers; %s random nested values) — ALL ordered pairs of the pool are evaluated under the six operators in two forms "
        "(fields of a {l, r} document; backtick literals). Oracle: independent structural equality with numbers compared exactly from their "
        "decimal spellings; laws: == reflexive/symmetric, != its negation, different types never equal, ordering operators boolean iff both "
        "numbers else null, and for identical or well-separated (relative difference > 1e-9) numbers trichotomy, <=/>= consistency and "
        "agreement with numeric order. Non-trivial = every law held on an (l, r, form) triple; distinct by that triple." % extra,
        n_quick=1,
        n_thorough=1,
        min_evaluations=500_000,
        exhaustive=True,
        needs_ref=False,
        extra_args=["--extra", extra],
        assumptions=["nothing is asserted about ==/trichotomy for distinct numbers closer than 1e-9 relative (documented tolerant float equality)"],
    )(pid, tier, seed, t0)


PLANS["C10"] = c10_plan


def records_plan(sub, checker, rule, n_quick, n_thorough, builds=("chk",), min_evaluations=1000, assumptions=(), exhaustive=False):
    """Plan for monitors whose deciding oracle is an offline Python checker over a
    recorded event log (one records file per shard)."""
    def plan(pid, tier, seed, t0):
        rundir, staged = o.prepare(list(builds))
        n = n_quick if tier == "quick" else n_thorough
        per = (n + o.NCPU - 1) // o.NCPU
        merged = None
        py_stats = {}
        for b in builds:
            bdir = os.path.join(rundir, b)
            os.makedirs(bdir, exist_ok=True)
            procs = []
            for s in range(o.NCPU):
                out = os.path.join(bdir, "%s.%d.json" % (sub, s))
                recs = os.path.join(bdir, "%s.%d.records" % (sub, s))
                cmd = [staged[b], sub, "--seed", str(seed), "--n", str(per), "--shard", "%d/%d" % (s, o.NCPU), "--tier", tier, "--out", out,
                       "--records", recs, "--build", b]
                procs.append((s, subprocess.Popen(cmd, stdout=subprocess.PIPE, stderr=subprocess.PIPE, env=o.ENV), out, recs))
            reports, checkers = [], []
            for s, p, out, recs in procs:
                so, se = p.communicate()
                if p.returncode != 0 or not os.path.exists(out):
                    reports.append({"died": "exit %s" % p.returncode, "shard": s, "stderr": se.decode("utf-8", "replace")[-1500:]})
                    continue
                reports.append(json.load(open(out)))
                checkers.append((subprocess.Popen([sys.executable, os.path.join(o.VERIF, "py", checker), recs], stdout=subprocess.PIPE,
                                                  stderr=subprocess.PIPE, text=True), recs))
            m = o.merge(reports)
            for c, recs in checkers:
                so, se = c.communicate()
                if c.returncode != 0:
                    m["harness_errors"].append("%s failed: %s" % (checker, se[-500:]))
                    continue
                res = json.loads(so)
                if not res["violations"]:
                    _discard(recs)
                for k, v in res.get("stats", {}).items():
                    py_stats[k] = py_stats.get(k, 0) + v
                for v in res["violations"]:
                    v["witness"]["build"] = b
                    m["violations"].append(v)
                    m["violations_total"] += 1
            if merged is None:
                merged = m
            else:
                merged["evaluations"] += m["evaluations"]
                merged["distinct"].update(m["distinct"])
                merged["violations"] += m["violations"]
                merged["violations_total"] += m["violations_total"]
                merged["harness_errors"] += m["harness_errors"]
                merged["died"] += m["died"]
                for k, v in m["observed"].items():
                    merged["observed"]["%s@%s" % (k, b)] = v
        if not py_stats.get("records"):
            merged["harness_errors"].append("the Python oracle saw no records")
        cfg = {"rule": rule, "min_evaluations": min_evaluations, "assumptions": COMMON_ASSUMPTIONS + list(assumptions), "exhaustive": exhaustive}
        return o.conclude(pid, tier, seed, merged, cfg, t0, {"builds": list(builds), "python_oracle": py_stats})
    return plan


PLANS["C08"] = records_plan(
    "c08", "check_json.py",
    rule="generated hostile JSON texts (integers at and beyond the i32/2^53/i64/u64 boundaries and 18-25 digits; decimals with 1..25 significant "
    "digits and exponents -330..+310 incl. subnormals and overflow; -0 spellings; strings over every escape form, \\uXXXX in both cases, surrogate "
    "pairs, lone surrogates, NUL/DEL/U+FFFF/astral; nesting 120..131; duplicate keys; whitespace variants) go through Variable::from_json -> "
    "search('@') -> to_string. The driver records (input, output | error); CPython's json module with integers as int and other numerals as Decimal "
    "is the independent reader and decides leaf by leaf (integers exact and integer-spelled; <=15 digits & |exp|<=22 exact double; other numerals "
    "within 2 ulp; strings by code point; arrays in order; objects by key set, last duplicate wins); rejection is allowed only for depth>=128, lone "
    "surrogates, numerals out of double range. In-process: print->reparse equal (bit-identical, or within the reader's 2 ulp), Variable -> "
    "serde_json::Value -> Variable (owned and borrowed) identical. Non-trivial = accepted text longer than 8 bytes; distinct by text.",
    n_quick=600_000, n_thorough=30_000_000, min_evaluations=100_000,
    assumptions=["the spelling of negative zero is not asserted ('-0' comes back as '-0.0')", "CPython's json/Decimal are a correct JSON reader"],
)

PLANS["C09"] = generic(
    "c09",
    rule="(1) decoder agreement: random token source text (<=24 chars over an alphabet weighted to backslash, the three delimiters, u/hex digits, "
    "controls, NUL, DEL, Latin-1, CJK, astral, U+FFFF, U+10FFFF) wrapped as raw string, backtick literal and quoted identifier; the crate's value must "
    "equal the independent decoder's, and forms the decoder rejects must fail to compile; ALL bodies of length <=3 over the 8 most dangerous "
    "characters are enumerated in the three forms; (2) round-trip laws: raw spelling of s evaluates to s (where the language has a spelling), three "
    "JSON spellings of v with backticks escaped evaluate to v, three JSON-string spellings of k select the marker from an object that also holds "
    "near-miss keys (also as multi-select-hash key and sub-expression); (3) unquoted identifiers; (4) 24 malformed forms are rejected. Non-trivial = "
    "source containing a backslash or non-ASCII character; distinct by source text.",
    n_quick=720_000, n_thorough=60_000_000, min_evaluations=300_000, needs_ref=False,
)


PLANS["C12"] = generic(
    "c12",
    rule="(a) failing expressions built from 22 failing cores (unknown function, wrong arity, wrong type, bad expression-reference result at element "
    "k, by-functions that fail AFTER evaluating an expression reference that itself contains calls, step-0 slices) x 14 wrappers (pipe, multi-select "
    "list/hash, projection, outer call, expression reference, !, ||, &&, comparison, filter, parentheses) x 10 prefixes containing multi-byte and "
    "astral characters and newlines, with random whitespace (incl. \\n, \\r\\n, \\t) between tokens; the reference evaluator predicts error class and "
    "the failing call (offset of its '(' from the reference parser) or the slice's bracket range; (b) syntax errors from one-token mutants, "
    "truncations and character soup of multi-line multi-byte expressions; (c) non-finite sum/avg. For EVERY error: offset within the expression on "
    "a char boundary, line/column recomputed from (expression, offset), Display compared with an independent renderer, class prefix. Hook "
    "monitor: at every JmespathError::from_ctx the shadow call stack's innermost call offset must equal ctx.offset. Non-trivial = error position "
    "preceded by a multi-byte character or a newline; distinct by (source, offset).",
    n_quick=960_000, n_thorough=200_000_000, min_evaluations=200_000,
)


PLANS["C11"] = generic(
    "c11",
    rule="sub-expressions L, R (value-guided random trees incl. projections, pipes, literals and failing calls) and a predicate P are combined "
    "into 15 compound forms; using ONLY the crate, each compound's search is compared with what its parts give separately: '(L) | (R)' vs R on "
    "L's result; list-wildcard / slice / flatten / object-wildcard projections with an arbitrary right-hand side '(L)[*].[R]' vs [[R(e)]...] over "
    "the elements the bare projection yields, nulls dropped; field/index chains; '(L)[?P]' vs elements with truthy P(e); multi-select list/hash vs "
    "tuple/record; !, &&, || vs truth-table combination returning operands; comparisons vs comparing the two results; f(L, R) vs f(@[0], @[1]) on "
    "[L(d), R(d)]. A failing part must fail the compound (same class) unless short-circuiting makes it unreachable. Non-trivial = L(d) non-empty / "
    "non-null and R not the identity; distinct by (compound text, document).",
    n_quick=300_000, n_thorough=15_000_000, min_evaluations=300_000, needs_ref=False,
    assumptions=["truthiness of a predicate result is decided by the specification's definition in the harness"],
)


def _fnv(s):
    h = 0xCBF29CE484222325
    for b in s.encode("utf-8"):
        h ^= b
        h = (h * 0x100000001B3) & 0xFFFFFFFFFFFFFFFF
    return h


def c13_post(pid, tier, seed, rundir, staged, merged, extra_cov):
    """Cross-process ground truth: the single-shot outcome table of every pool is
    recomputed in a separate fresh process, and sampled pairs each in their own
    process that does nothing else."""
    tables = {k.split("/", 1)[1]: v for k, v in merged["extra"].items() if k.startswith("truth_table/")}
    fresh_tables = 0
    fresh_pairs = 0
    for pool, table in tables.items():
        r = subprocess.run([staged["chk"], "c13truth", "--pool", pool], capture_output=True, text=True, env=o.ENV)
        if r.returncode != 0:
            merged["harness_errors"].append("c13truth failed: %s" % r.stderr[-300:])
            continue
        t2 = json.loads(r.stdout.splitlines()[-1])["table"]
        fresh_tables += 1
        if t2 != table:
            diffs = [(i, j) for i in range(len(table)) for j in range(len(table[i])) if table[i][j] != t2[i][j]][:3]
            merged["violations"].append({"signature": "C13/outcome-differs-between-processes", "witness": {"pool": pool, "pairs(e,d)": diffs}})
            merged["violations_total"] += 1
        npairs = 6 if tier == "quick" else 12
        for k in range(npairs):
            e = (k * 7 + int(pool)) % len(table)
            d = (k * 11 + 3) % len(table[0])
            r = subprocess.run([staged["chk"], "c13truth", "--pool", pool, "--e", str(e), "--d", str(d)], capture_output=True, text=True, env=o.ENV)
            if r.returncode != 0:
                merged["harness_errors"].append("c13truth pair failed: %s" % r.stderr[-300:])
                continue
            out = json.loads(r.stdout.splitlines()[-1])["outcome"]
            fresh_pairs += 1
            merged["evaluations"] += 1
            if _fnv(out) != table[e][d]:
                merged["violations"].append({"signature": "C13/outcome-differs-from-fresh-process", "witness": {"pool": pool, "e": e, "d": d, "fresh_process_outcome": out[:300]}})
                merged["violations_total"] += 1
    merged["extra"] = {k: v for k, v in merged["extra"].items() if not k.startswith("truth_table/")}
    extra_cov["fresh_process_truth_tables"] = fresh_tables
    extra_cov["fresh_single_pair_processes"] = fresh_pairs
    if fresh_tables == 0:
        merged["harness_errors"].append("no fresh-process ground truth was computed")


PLANS["C13"] = generic(
    "c13",
    rule="histories of 2000 operations (compile on the default or a custom runtime / clone / search / drop, <=60 live handles) over a pool of 40 "
    "expression texts (14 that fail midway: in element k of a projection, in a by-function after j expression references, unknown function, "
    "step-0 slice; 12 plain; 14 generated) and 25 documents — few keys, many revisits. Every search outcome (value, or error class+offset+line+"
    "column+reason) must equal the single-shot outcome of that (expression, document) pair (fresh compile, one search); the single-shot table is "
    "recomputed in a separate fresh process and sampled pairs each in their own process; as_ast() fingerprints never change; the shared input "
    "value prints the same before and after every search. Evidence only: whether interpret step counts per pair stayed constant. Non-trivial = a "
    "search on a re-used/cloned handle or directly after a failing search of the same expression; distinct by (pool, expression, document, "
    "predecessor outcome).",
    n_quick=640, n_thorough=300_000, min_evaluations=300_000, needs_ref=False, post=c13_post, extra_args_by_tier={"quick": ["--pools", "8"], "thorough": ["--pools", "128"]},
)


PLANS["C14"] = generic(
    "c14",
    rule="a type zoo derived with serde_derive (named/tuple/newtype/unit structs; enums with unit/newtype/tuple/struct variants, externally, "
    "internally and adjacently tagged and untagged; Option<Option<T>>; tuples to arity 6 and fixed arrays; Vec; BTreeMap/HashMap<String,_>; char "
    "incl. astral; String; a serialize_bytes wrapper; i8..i64/u8..u64 at MIN/MAX/0/+-1 and random; f32/f64 incl. NaN, +-inf, -0.0, subnormals; "
    "unit; bool; flatten; rename; nested 5 deep). Serialisation: Variable::from_serializable / to_jmespath / search(value) must give exactly the "
    "JSON image serde_json::to_value gives (or both fail). Deserialisation: T::deserialize(library value) vs serde_json::from_value::<T>(same JSON) "
    "— both Ok and equal, or both Err — on each type's own images AND on every type x a pool of 82 foreign JSON shapes (wrong arity, 0/2-key maps "
    "for enums, floats for integers, out-of-range integers, missing/extra fields). Non-trivial = a deserialisation both sides accepted with equal "
    "values; distinct by (type, JSON).",
    n_quick=1_000_000, n_thorough=100_000_000, min_evaluations=300_000, needs_ref=False,
    assumptions=["not asserted: maps with non-string keys, 128-bit integers, borrowed &str/&[u8] targets (outside the statement)", "serde_json is the definition"],
)

PLANS["C15"] = generic(
    "c15",
    rule="histories of 30 operations on a Runtime (register a recording closure with a unique id / register a CustomFunction with one of 4 "
    "signatures / deregister / register_builtin_functions / Runtime::new) over 8 names (4 built-in names, 4 others); after EVERY operation every "
    "name is probed: get_function(name).is_some() and a call with 0..3 random arguments (current node, literals, fields, expression references), "
    "bare, after a pipe or after a sub-expression. A 15-line sequential model predicts: which id runs (exactly one invocation, result and log), "
    "unknown-function otherwise, deregister's return value, the built-in's behaviour (reference functions), and for signed functions invocation "
    "iff an independent signature check accepts (else the error class, and no invocation). Logged arguments must equal the separately evaluated "
    "argument expressions in source order with expression references passed unevaluated (tree shape compared); plus a call-order probe with "
    "recording functions as arguments (incl. inside a projection). Non-trivial = modelled custom invocation or rejection; distinct by (history, call).",
    n_quick=12_000, n_thorough=1_400_000, min_evaluations=300_000,
)


# ---------------------------------------------------------------------------
# C16: thread safety under `sync` — compile-time obligations, result-comparing
# stress, first-use races with injected delay, Miri, ThreadSanitizer

import random


def _cargo(args, target, toolchain=None, rustflags=None, extra_env=None, timeout=3600):
    cmd = ["cargo"] + (["+" + toolchain] if toolchain else []) + args
    env = dict(o.ENV)
    env["CARGO_TARGET_DIR"] = os.path.join(o.WORK, target)
    if rustflags:
        env["RUSTFLAGS"] = rustflags
    if extra_env:
        env.update(extra_env)
    return subprocess.run(cmd, cwd=o.HARNESS, env=env, capture_output=True, text=True, timeout=timeout)


def _run_json(cmd, env=None, timeout=600):
    try:
        r = subprocess.run(cmd, capture_output=True, text=True, env=env or o.ENV, timeout=timeout)
    except subprocess.TimeoutExpired:
        return None, "watchdog", ""
    out = None
    for line in r.stdout.splitlines():
        if line.startswith("{"):
            try:
                out = json.loads(line)
            except ValueError:
                pass
    return out, r.returncode, r.stderr


def c16_plan(pid, tier, seed, t0):
    rnd = random.Random(seed)
    rundir = o.register_rundir(os.path.join(o.WORK, "run", "%d-c16" % os.getpid()))
    os.makedirs(rundir, exist_ok=True)
    merged = o.merge([])
    obs = merged["observed"]
    viol = merged["violations"]

    def violation(sig, witness):
        viol.append({"signature": sig, "witness": witness})
        merged["violations_total"] += 1

    tools = {}
    with o.Lock():
        o.sync_snapshot()
        # 1. compile-time obligations
        r = _cargo(["build", "--offline", "--profile", "chk", "-p", "sendsync"], "target-sync")
        merged["evaluations"] += 1
        if r.returncode != 0:
            lib = _cargo(["build", "--offline", "--profile", "chk", "-p", "conc"], "target-sync")
            text = r.stderr
            if ("Send" in text or "Sync" in text or "cannot be sent" in text or "cannot be shared" in text) :
                violation("C16/not-send-sync", {"compiler_output": text[-3000:], "library_itself_builds": lib.returncode == 0})
            else:
                raise o.HarnessError("sendsync failed to build for another reason:\n" + text[-3000:])
        else:
            obs["send_sync_obligations_compiled"] = 9
        # 2. native stress binary
        r = _cargo(["build", "--offline", "--profile", "chk", "-p", "conc"], "target-sync")
        if r.returncode != 0:
            if viol:
                # library no longer supports the threaded workload at all: already reported
                cfg = {"rule": "see DESIGN C16", "min_evaluations": 1, "assumptions": COMMON_ASSUMPTIONS}
                merged["distinct"].update([1, 2])
                return o.conclude(pid, tier, seed, merged, cfg, t0)
            raise o.HarnessError("conc failed to build:\n" + r.stderr[-3000:])
        conc = o.stage_binary(os.path.join(o.WORK, "target-sync", "chk", "conc"), rundir, "conc")
        # 3. Miri over the small workload, many seeds (uses the snapshot: keep the lock)
        nseeds = 8 if tier == "quick" else 64
        tm = time.time()
        mr = _cargo(["miri", "run", "--offline", "-p", "conc", "--", "small", str(seed), "6", "6"], "target-miri", toolchain="nightly",
                    extra_env={"MIRIFLAGS": "-Zmiri-many-seeds=0..%d -Zmiri-disable-isolation" % nseeds}, timeout=5400)
        tools["miri_s"] = round(time.time() - tm, 1)
        # 4. ThreadSanitizer build
        tt = time.time()
        tb = _cargo(["build", "--offline", "-Zbuild-std", "--target", "x86_64-unknown-linux-gnu", "-p", "conc", "--profile", "chk"], "target-tsan",
                    toolchain="nightly", rustflags="-Zsanitizer=thread")
        tools["tsan_build_s"] = round(time.time() - tt, 1)
        tsan = None
        if tb.returncode == 0:
            tsan = o.stage_binary(os.path.join(o.WORK, "target-tsan", "x86_64-unknown-linux-gnu", "chk", "conc"), rundir, "conc-tsan")
    # Miri verdicts
    miri_runs = [json.loads(l) for l in mr.stdout.splitlines() if l.startswith("{")]
    err = mr.stderr
    if "Undefined Behavior" in err or "data race" in err.lower() or "Data race" in err:
        i = err.find("error:")
        violation("C16/miri-report", {"report": err[i:i + 3000], "seeds": nseeds})
    elif mr.returncode != 0 or not miri_runs:
        merged["inconclusive"].append("Miri did not complete (exit %s): %s" % (mr.returncode, err[-400:].replace("\n", " ")))
    sigs = set()
    for run in miri_runs:
        merged["evaluations"] += run["first"]["probes"] + run["stress"]["searches"]
        sigs.add("miri:" + run["stress"]["interleaving"])
        for part, sig in (("first", "C16/first-use-race/divergent-or-missing-builtin"), ("stress", "C16/divergent-result")):
            probs = run[part].get("problems") or run[part].get("mismatches")
            if probs:
                violation(sig, {"under": "miri", "details": probs[:3]})
            if run[part].get("panics"):
                violation("C16/panic-in-thread", {"under": "miri", "mode": part})
    obs["miri_seeds_completed"] = len(miri_runs)

    # native stress + first-use races, 16 processes at a time
    jobs = []
    stress_runs = 24 if tier == "quick" else 300
    ops = 1500 if tier == "quick" else 5000
    for k in range(stress_runs):
        jobs.append(("stress", [conc, "stress", str([2, 4, 16][k % 3]), str(ops), str(seed * 1000 + k)]))
    for k in range(12 if tier == "quick" else 150):
        jobs.append(("burst", [conc, "burst", str([2, 4, 8][k % 3]), str(3000 if tier == "quick" else 20000), str(seed * 31 + k)]))
    for k in range(16 if tier == "quick" else 160):
        jobs.append(("runtimes", [conc, "runtimes", str([2, 4, 8, 4][k % 4]), str(250 if tier == "quick" else 2000), str(seed * 53 + k)]))
    for k in range(12 if tier == "quick" else 150):
        jobs.append(("twins", [conc, "twins", str([2, 4, 8][k % 3]), str(400 if tier == "quick" else 4000), str(seed * 71 + k)]))
    for k in range(6 if tier == "quick" else 48):
        jobs.append(("hotchurn", [conc, "hotchurn", str([8, 4, 16][k % 3]), str(3000 if tier == "quick" else 10000), str(seed * 91 + k)]))
    for k in range(9 if tier == "quick" else 100):
        jobs.append(("handoff", [conc, "handoff", str([4, 8, 16][k % 3]), str(300 if tier == "quick" else 3000), str(seed * 37 + k)]))
    for k in range(6 if tier == "quick" else 64):
        jobs.append(("crowd", [conc, "crowd", str([8, 16, 4][k % 3]), str(40 if tier == "quick" else 300), str(seed * 41 + k)]))
    for k in range(4 if tier == "quick" else 8):
        jobs.append(("hammer", [conc, "hammer", str([8, 32, 16, 24][k % 4]), str(600 if tier == "quick" else 2500), str(seed * 43 + k)]))
    first_runs = 200 if tier == "quick" else 5000
    for k in range(first_runs):
        spins = rnd.choice([0, 0, 1000, 10000, 100000, 1000000, 3000000])
        jobs.append(("first", [conc, "first", str(rnd.choice([2, 4, 8, 16])), str(spins), str(seed * 1000 + k)]))
    if tsan:
        env_t = dict(o.ENV, TSAN_OPTIONS="halt_on_error=1 exitcode=66")
        for k in range(10 if tier == "quick" else 60):
            jobs.append(("tsan-stress", [tsan, "stress", str([4, 8][k % 2]), "400", str(seed * 77 + k)]))
        for k in range(4 if tier == "quick" else 40):
            jobs.append(("tsan-burst", [tsan, "burst", str([2, 4][k % 2]), "500", str(seed * 13 + k)]))
        for k in range(4 if tier == "quick" else 40):
            jobs.append(("tsan-runtimes", [tsan, "runtimes", str([2, 4][k % 2]), "12", str(seed * 17 + k)]))
        for k in range(4 if tier == "quick" else 40):
            jobs.append(("tsan-twins", [tsan, "twins", str([2, 4][k % 2]), "60", str(seed * 19 + k)]))
        for k in range(3 if tier == "quick" else 30):
            jobs.append(("tsan-handoff", [tsan, "handoff", str([4, 8][k % 2]), "40", str(seed * 23 + k)]))
        for k in range(2 if tier == "quick" else 20):
            jobs.append(("tsan-hammer", [tsan, "hammer", str([4, 8][k % 2]), "20", str(seed * 29 + k)]))
        for k in range(20 if tier == "quick" else 200):
            jobs.append(("tsan-first", [tsan, "first", str(rnd.choice([4, 8])), str(rnd.choice([0, 10000, 300000])), str(k)]))
    else:
        merged["inconclusive"].append("ThreadSanitizer build failed: " + tb.stderr[-300:].replace("\n", " "))
        env_t = None
    arrived_hist = {}
    inits = {}
    # the hammer runs need the cores to themselves (a race between threads of one process does not show while
    # sixteen other processes keep them off the CPUs): they run afterwards, one at a time
    phases = (([j for j in jobs if j[0] != "hammer"], o.NCPU), ([j for j in jobs if j[0] == "hammer"], 1))
    for phase_jobs, workers in phases:
        with ThreadPoolExecutor(max_workers=workers) as ex:
            futs = [(kind, cmd, ex.submit(_run_json, cmd, env_t if kind.startswith("tsan") else None)) for kind, cmd in phase_jobs]
            for kind, cmd, f in futs:
                out, rc, stderr = f.result()
                if rc == "watchdog":
                    merged["inconclusive"].append("%s: wall-clock watchdog" % " ".join(cmd[1:]))
                    continue
                if kind.startswith("tsan") and (rc == 66 or "ThreadSanitizer" in stderr):
                    i = stderr.find("WARNING: ThreadSanitizer")
                    violation("C16/tsan-report", {"cmd": " ".join(cmd[1:]), "report": stderr[i:i + 2500]})
                    continue
                if out is None or rc != 0:
                    cause = _death_cause(rc if isinstance(rc, int) else 1, stderr)
                    violation("C16/process-died/%s" % cause, {"cmd": " ".join(cmd[1:]), "stderr": stderr[-800:]})
                    continue
                obs["runs/%s" % kind] = obs.get("runs/%s" % kind, 0) + 1
                if out.get("watchdog"):
                    merged["inconclusive"].append("%s: threads still running after 300 s (not blocked: CPU was being used)" % " ".join(cmd[1:]))
                    continue
                if out["mode"] == "stress":
                    merged["evaluations"] += out["searches"]
                    sigs.add(kind + ":" + out["interleaving"])
                    for fn, n in (out.get("per_function") or {}).items():
                        obs["hammer_calls/%s" % fn] = obs.get("hammer_calls/%s" % fn, 0) + n
                    if out.get("fresh_runtime_rounds"):
                        obs["hammer_fresh_runtime_rounds"] = obs.get("hammer_fresh_runtime_rounds", 0) + out["fresh_runtime_rounds"]
                    if out["mismatches"]:
                        violation("C16/divergent-result", {"cmd": " ".join(cmd[1:]), "details": out["mismatches"][:3]})
                    if out["panics"]:
                        violation("C16/panic-in-thread", {"cmd": " ".join(cmd[1:])})
                    if out["inputs_mutated"]:
                        violation("C16/shared-input-mutated", {"cmd": " ".join(cmd[1:]), "inputs": out["inputs_mutated"]})
                else:
                    merged["evaluations"] += out["probes"]
                    key = "%d/%d" % (out["arrived_before_init"], out["threads"])
                    arrived_hist[key] = arrived_hist.get(key, 0) + 1
                    inits[str(out["runtime_initialisations"])] = inits.get(str(out["runtime_initialisations"]), 0) + 1
                    sigs.add("first:%s:%s" % (key, out["spins"]))
                    if out["problems"]:
                        violation("C16/first-use-race/divergent-or-missing-builtin", {"cmd": " ".join(cmd[1:]), "details": out["problems"][:3]})
                    if out["panics"]:
                        violation("C16/panic-in-thread", {"cmd": " ".join(cmd[1:])})
    merged["distinct"].update(hash(s) & 0xFFFFFFFFFFFF for s in sigs)
    merged["samples"] = [{"stress_interleaving_signatures(first 48 ticketed operations by thread)": sorted(s for s in sigs if s.startswith("stress"))[:4]},
                         {"first_use_runs(arrived_before_init/threads -> runs)": arrived_hist}]
    if len([s for s in sigs if s.startswith("stress")]) < 3:
        merged["inconclusive"].append("low schedule diversity: fewer than 3 distinct interleaving signatures in the native stress")
    cfg = {
        "rule": "four observers. (1) a crate of Send+Sync obligations for Expression, Runtime, Variable, Rcvar, Ast, JmespathError, Box<dyn Function> must "
        "compile against the sync build. (2) native stress: 2/4/16 threads share Arc'd compiled expressions and Arc'd input values, start on a barrier and "
        "perform mixed compile (through the shared default runtime) / clone / search / drop operations; every result is compared with the sequential "
        "result computed beforehand; shared inputs must print unchanged; 'churn' operations compile never-seen texts whose tree and result are known a "
        "priori; 'burst' rounds release all threads through a spin barrier into a search of the SAME shared expression at the same instant, each on "
        "its own document; 'runtimes' rounds share ONE fresh runtime object per round between all threads: after a sequential warm-up of random "
        "length (0..100 calls) the threads are released together, each compiles its own *_by / map expressions (same shapes and offsets, different "
        "members) through the shared runtime and searches each four times while calling type() on every JSON type and all 26 built-ins in a "
        "thread-specific rotation, and the runtime is swept sequentially afterwards; truth comes from private runtimes used before the round. "
        "'crowd' runs keep one long-lived worker projecting over 171 elements while 160..640 short-lived threads come and go in waves, each "
        "projecting over its own 48..307 elements and all of a wave hitting at once a never-seen document whose 19-digit numeric strings go through "
        "to_number; "
        "'hammer' runs make 4..32 threads call the SAME built-in through one shared runtime in a tight loop, one built-in after another (join, sort, "
        "sort_by, max_by/min_by with ties, max/min, sum/avg, map with two differently ill-typed elements, projections, filters, reverse, to_string, merge, "
        "keys/values, length/contains on multi-byte strings, flatten, to_number), each thread on its own inputs of 0..376 (some 2600) elements, compared "
        "with what a private runtime returned to the same thread beforehand; then several hundred rounds with a fresh shared runtime into which all "
        "threads bring 80+ never-seen arrays of 64..103 numbers at once (sum, avg, max, length, sort, max_by, join known by construction); "
        "'handoff' rounds move ownership between threads: the main thread compiles an expression, long-lived workers search it three times, the main "
        "thread drops it and compiles a same-length text differing in a constant (results known by construction), while every thread also compiles a "
        "60..120-deep multi-select at the same instant; "
        "'hotchurn' runs make half of the threads compile the same six expressions in a loop (tree compared with parse(), result with the "
        "sequential one) while the other half compile never-seen texts as fast as they can, for 3 s (quick) / 10 s; "
        "'twins' rounds release all threads into compile at once with RELATED texts — one 77-byte expression behind 0..3 leading blanks (its "
        "runtime error must be reported at the shifted offset) and 80-byte literals differing in a few characters, compiled twice by their thread "
        "and once more sequentially after the join, values known by construction. "
        "(3) first-use race: the process is re-executed; all threads' first library "
        "call is a compile released by one barrier while the verif-hooks delay point widens the window between Runtime::new() and "
        "register_builtin_functions(); every thread then calls all 26 built-ins and must agree with the sequential results. (4) the same workload "
        "(reduced) under Miri with %d scheduler seeds (data-race detector, borrow model) and under ThreadSanitizer (-Zbuild-std). Non-trivial / "
        "distinct = distinct interleaving signatures (order in which threads took the first ticketed operations; for first-use runs: how many threads "
        "had arrived when the initialiser ran x delay)." % nseeds,
        "min_evaluations": 20_000,
        "assumptions": COMMON_ASSUMPTIONS + ["only the schedules the OS, Miri's seeds and the injected delays produced were observed",
                                              "init count / winner statistics are evidence of schedule diversity, never a verdict"],
    }
    extra_cov = {"first_use_arrived_before_init_histogram": arrived_hist, "runtime_initialisation_counts": inits, "tool_seconds": tools,
                 "distinct_interleaving_signatures": len(sigs), "miri_seeds": nseeds, "tsan_available": bool(tsan)}
    return o.conclude(pid, tier, seed, merged, cfg, t0, extra_cov)


PLANS["C16"] = c16_plan


# ---------------------------------------------------------------------------
# C17: feature matrix


def c17_plan(pid, tier, seed, t0):
    configs = ["n-default", "n-sync", "n-spec", "n-syncspec", "chk"]
    rundir = o.register_rundir(os.path.join(o.WORK, "run", "%d-c17" % os.getpid()))
    os.makedirs(rundir, exist_ok=True)
    merged = o.merge([])
    staged = {}
    with o.Lock():
        o.sync_snapshot()
        with ThreadPoolExecutor(max_workers=5) as ex:
            futs = {c: ex.submit(o.cargo_build, c, "matrix", None) for c in configs}
            for c, f in futs.items():
                path, secs = f.result()
                staged[c] = o.stage_binary(path, rundir, "matrix-" + c)
    n = 75_000 if tier == "quick" else 2_000_000
    logs = {}
    procs = {c: subprocess.Popen([staged[c], str(seed), str(n), os.path.join(rundir, c + ".log")], stdout=subprocess.PIPE, stderr=subprocess.PIPE, env=o.ENV)
             for c in configs}
    for c, p in procs.items():
        so, se = p.communicate()
        if p.returncode != 0:
            merged["violations"].append({"signature": "C17/driver-died/%s" % c, "witness": {"config": c, "exit": p.returncode, "stderr": se.decode("utf-8", "replace")[-800:]}})
            merged["violations_total"] += 1
            continue
        with open(os.path.join(rundir, c + ".log"), encoding="utf-8", errors="replace") as f:
            logs[c] = f.read().split("\n")
    ref = logs.get("n-default")
    if ref is None:
        raise o.HarnessError("reference configuration did not run")
    lines = 0
    for c, lg in logs.items():
        lines += len(lg)
        if c == "n-default":
            continue
        if lg != ref:
            diffs = []
            for i, (a, b) in enumerate(zip(ref, lg)):
                if a != b:
                    diffs.append({"line": i, "default": a[:300], c: b[:300]})
                    if len(diffs) >= 3:
                        break
            if len(ref) != len(lg):
                diffs.append({"length_default": len(ref), "length_" + c: len(lg)})
            merged["violations"].append({"signature": "C17/outcome-differs/%s-vs-default" % c, "witness": {"config": c, "first_differences": diffs, "seed": seed, "n": n}})
            merged["violations_total"] += 1
    # inside each build: conversions equal serde_json's image; the six spellings of a document input agree
    conv = 0
    groups = 0
    kinds = {}
    samples = []
    for c, lg in logs.items():
        cur = None
        outs = set()
        for ln in lg:
            if not ln:
                continue
            parts = ln.split("\t")
            key = parts[0]
            if "CONVERSION-MISMATCH" in ln:
                merged["violations"].append({"signature": "C17/specialised-conversion-differs-from-serde", "witness": {"config": c, "line": ln[:400]}})
                merged["violations_total"] += 1
            if ".conv." in key:
                conv += 1
                continue
            cid, _, kind = key.partition(".")
            if kind.startswith("big."):
                cid, kind = cid + ".big", kind[4:]
            if kind.startswith("names."):
                cid, kind = cid + ".names", kind[6:]
            if kind.startswith("deep") or kind.startswith("size") or kind.startswith("shared") or kind.startswith("fsum") or kind.startswith("close") or kind.startswith("bykey"):
                pre, _, kind = kind.partition(".")
                cid = cid + "." + pre
            if c == "n-default":
                kinds[kind] = kinds.get(kind, 0) + 1
                merged["distinct"].add(hash(ln) & 0xFFFFFFFFFFFF)
                if len(samples) < 8 and kind in ("value", "u64", "f32", "str", "unit") and not any(s.get("kind") == kind for s in samples):
                    samples.append({"kind": kind, "log_line": ln[:300]})
            if kind in ("value", "value_ref", "variable", "variable_ref", "rcvar", "rcvar_ref"):
                if cid != cur:
                    if cur is not None and len(outs) > 1:
                        merged["violations"].append({"signature": "C17/input-representation-changes-outcome", "witness": {"config": c, "case": cur, "outcomes": sorted(outs)[:4]}})
                        merged["violations_total"] += 1
                    cur, outs = cid, set()
                    groups += 1
                outs.add(parts[-1])
    merged["evaluations"] = lines
    merged["samples"] = samples
    merged["observed"] = {"log_lines_compared_per_configuration": len(ref), "configurations": len(logs), "conversion_checks": conv, "document_input_groups": groups}
    for k, v in kinds.items():
        merged["observed"]["cases/%s" % k] = v
    cfg = {
        "rule": "ONE deterministic program (harness/matrix) is built five ways — nightly {default, sync, specialized, sync+specialized} and stable default — "
        "and run with the same seed; its outcome logs (one line per case: result as JSON, or error class+kind+offset+line+column) must be identical line "
        "for line. Cases: value-guided random expressions (with calls) x documents passed as each of Value, &Value, Variable, &Variable, Rcvar, &Rcvar "
        "(the six must also agree with each other inside a build); plain member paths over documents whose member names mean something to other addressing "
        "schemes ('a/b', '~0', '~1', '', '0', '-1', 'a.b') and arithmetic that leaves the doubles (sum/avg of 1e308s), again through all six input "
        "types; 20 scalar expressions x inputs of every specially-handled scalar type (i8..i64, "
        "u8..u64, isize, usize at MIN/MAX/0/+-1/random; finite f32/f64 incl. -0.0, subnormals, 2^53+1; (), bool, String, &str incl. astral); inside "
        "each build x.to_jmespath() must equal serde_json's image of x. Non-trivial / distinct = distinct log lines of the reference configuration.",
        "min_evaluations": 100_000,
        "assumptions": COMMON_ASSUMPTIONS + ["non-finite floats are outside 'JSON-representable input'", "the toolchain is held constant across the four feature sets (nightly); stable default is compared too"],
    }
    return o.conclude(pid, tier, seed, merged, cfg, t0, {"configurations": configs})


PLANS["C17"] = c17_plan


# ---------------------------------------------------------------------------
# C18: the jp command-line tool


def c18_plan(pid, tier, seed, t0):
    rundir, staged = o.prepare(["chk", ("chk", "jpbuild", "jp")])
    jp = staged["jpbuild"]
    n = 6_400 if tier == "quick" else 200_000
    per = (n + o.NCPU - 1) // o.NCPU
    procs = []
    for s in range(o.NCPU):
        out = os.path.join(rundir, "c18.%d.json" % s)
        recs = os.path.join(rundir, "c18.%d.records" % s)
        cmd = [staged["chk"], "c18gen", "--seed", str(seed), "--n", str(per), "--shard", "%d/%d" % (s, o.NCPU), "--out", out, "--records", recs]
        procs.append((s, subprocess.Popen(cmd, stdout=subprocess.PIPE, stderr=subprocess.PIPE, env=o.ENV), out, recs))
    reports, recfiles = [], []
    for s, p, out, recs in procs:
        so, se = p.communicate()
        if p.returncode != 0 or not os.path.exists(out):
            reports.append({"died": "exit %s" % p.returncode, "shard": s, "stderr": se.decode("utf-8", "replace")[-1500:]})
            continue
        reports.append(json.load(open(out)))
        recfiles.append(recs)
    merged = o.merge(reports)
    merged["distinct"] = set()
    # the executor runs 16 invocations at a time itself
    r = subprocess.run([sys.executable, os.path.join(o.VERIF, "py", "run_cli.py"), jp] + recfiles, capture_output=True, text=True, env=o.ENV)
    if r.returncode != 0:
        raise o.HarnessError("run_cli.py failed: %s" % r.stderr[-800:])
    res = json.loads(r.stdout)
    merged["violations"] += res["violations"]
    merged["violations_total"] += len(res["violations"])
    merged["inconclusive"] += res["inconclusive"]
    merged["samples"] = res["samples"]
    for k, v in res["stats"].items():
        merged["observed"]["jp/" + k] = v
    # distinct = one per invocation that was executed and judged
    judged = sum(v for k, v in res["stats"].items() if k.startswith("success/") or k.startswith("failure/"))
    merged["distinct"].update(range(judged))
    merged["evaluations"] = judged + res["stats"].get("strace/ast-reads-no-input", 0)
    cfg = {
        "rule": "the repository's jmespath-cli/src/main.rs is compiled byte for byte against the library snapshot (out-of-tree manifest, because the CLI's own "
        "lock file pins an uncached crate) and executed as a subprocess: expressions (fixed set incl. every JSON result type, strings with quotes/newlines/"
        "astral characters, u64 extremes, runtime failures, syntax errors, top-level expression references; generated trees; one-token mutants; character "
        "soup) x inputs (valid, truncated, empty, non-UTF-8, BOM, 130-deep, trailing comma, scalars) x input channel (stdin, -f, missing -f) x expression "
        "channel (argv, -e, -e with trailing newline / non-UTF-8 / empty / missing) x -u x --ast. Oracle: the library called in-process by the harness on the "
        "same expression and input text: success => exit 0, stdout == pretty JSON + newline (raw string + newline under -u for string results), stderr "
        "empty; any failure => exit != 0, stdout empty, stderr non-empty and containing the library's error text; never exit 101 / 'panicked at' / a "
        "signal. --ast: stdout == format!(\"{:#?}\\n\", ast), and strace shows no read on fd 0 and no openat of the -f path. Non-trivial / distinct = "
        "judged invocations (each has a distinct (argv, stdin, files) by construction of the generator).",
        "min_evaluations": 2_000,
        "assumptions": COMMON_ASSUMPTIONS + ["behaviour with a closed or full stdout is outside the statement's quantifier; it is probed and reported under out_of_scope_observations only"],
    }
    return o.conclude(pid, tier, seed, merged, cfg, t0, {"out_of_scope_observations": res.get("out_of_scope_observations", {})})


PLANS["C18"] = c18_plan
