#!/usr/bin/env python3
"""Regenerates /verif/MANIFEST.json from the table below (kept in one place so
the manifest, the not_applicable list and the engines list never drift)."""
import json
import os
import subprocess

VERIF = os.path.dirname(os.path.dirname(os.path.abspath(__file__)))

CHECKS = {
    "C01": dict(
        text="Differential runtime monitoring: every search result of the real crate on generated (expression, document) pairs is compared "
        "with an independent reference evaluator run on the generator's own tree. Held on the executions observed; no claim beyond them.",
        note="Trusted: the reference evaluator (validated against the 875 compliance cases on every run), the printer/parser self-check, serde_json as value container.",
        technique="runtime monitoring: reference-model differential oracle over generated workloads",
    ),
    "C02": dict(
        text="Differential and contract monitoring of all 26 built-ins on generated well-typed calls (direct, and nested inside projections and "
        "other calls); a recording custom function observes that expression references are evaluated exactly once per element.",
        note="Trusted: the reference functions (from the function specification; validated against the compliance suite's functions.json on every run).",
        technique="runtime monitoring: reference-function oracle + recording-function event log over generated calls",
    ),
    "C03": dict(
        text="Acceptance monitoring: compile() of the real crate is observed on an exhaustively enumerated space of short token sequences and on "
        "large random families (grammar sentences, one-token mutants, token/character soup, truncations); the oracle is an independent strict "
        "recognizer of the grammar. Over-acceptances are attributed to recorded deviation classes only when a listed relaxation explains them.",
        note="Trusted: the strict recognizer (DESIGN Appendix A), validated against the compliance suite's 101 syntax-error and 774 valid cases and by an independent ABNF sentence generator on every run.",
        technique="runtime monitoring: differential acceptance oracle (strict reference recognizer), exhaustive over short token sequences + randomized",
    ),
    "C04": dict(
        text="Tree-shape monitoring: the public Ast produced by the real parser is lifted into a normal form and compared with the tree the documented "
        "binding powers define, over all operator sequences up to a bound and random nested sentences; plus a metamorphic monitor that explicit "
        "parentheses change neither tree nor search results.",
        note="Trusted: the reference Pratt parser and the Ast lift; regrouping of associative composition is deliberately invisible.",
        technique="runtime monitoring: reference-tree comparison of observed parse trees + metamorphic parenthesisation oracle",
    ),
    "C05": dict(
        text="Process-level monitoring of totality: hostile inputs are executed in isolated worker processes under two builds (overflow-checked and "
        "wrapping); the observed events are caught panics, process deaths (stack overflow, signals, allocation failure) and CPU-budget exhaustion. "
        "A BEGIN/END log names the culprit when a worker dies.",
        note="Trusted: the OS process boundary, rlimits, the Rust panic machinery. Bounded time is decided against CPU budgets, never wall clock.",
        technique="runtime monitoring: crash/panic/CPU-budget process monitor over hostile workloads, two builds",
    ),
    "C06": dict(
        text="The complete function x arity x argument-type-class decision table (112219 cells) is executed on the real code and each observed outcome "
        "class (arity error / type error / unknown function / value of a declared type) is compared with the specification's signature table.",
        note="Trusted: the signature table in harness/refimpl/src/eval.rs (26 rows from the function specification).",
        technique="runtime monitoring: exhaustive decision-table execution against a specification signature table",
    ),
    "C07": dict(
        text="Event-log monitoring: every slice and index result of the real code over an exhaustive small space, an extreme grid and random triples is "
        "recorded and re-computed offline by CPython's own list slicing, under an overflow-checked and a wrapping build.",
        note="Trusted: CPython list slicing as the specification (the statement equates them); the record format.",
        technique="runtime monitoring: offline checker over a recorded event log with CPython slicing as oracle (exhaustive small space + random)",
    ),
    "C08": dict(
        text="Event-log monitoring of the JSON round trip: hostile JSON texts are passed through from_json/search('@')/to_string and the Value bridges; "
        "CPython's json+Decimal reads input and output independently and compares them leaf by leaf with the accuracy classes the statement names.",
        note="Trusted: CPython json/Decimal; the statement's three numeric accuracy classes as implemented in py/check_json.py.",
        technique="runtime monitoring: offline checker over recorded (input, output) pairs with CPython json/Decimal as oracle; exact in-process round-trip monitors",
    ),
    "C09": dict(
        text="Decoder monitoring: the value the real lexer assigns to raw strings, backtick literals and quoted identifiers is compared with an independent "
        "decoder on arbitrary token text (exhaustive for short dangerous bodies), and the three round-trip laws are executed on random strings/values/keys.",
        note="Trusted: the independent decoders in harness/refimpl (lex.rs, json.rs).",
        technique="runtime monitoring: independent-decoder differential oracle + executed round-trip laws",
    ),
    "C10": dict(
        text="Algebraic-law monitoring: all ordered pairs of a pool of JSON values are evaluated under the six comparison operators in two forms on the real "
        "code; an independent exact equality/order (numbers from their decimal spellings) and the contract's laws decide.",
        note="Trusted: the decimal comparator and structural equality in harness/driver/src/c10.rs.",
        technique="runtime monitoring: exhaustive pairwise execution over a value pool against algebraic-law and exact-arithmetic oracles",
    ),
    "C11": dict(
        text="Metamorphic monitoring with the crate as its own oracle: 15 compositional laws are executed on generated sub-expressions and documents, "
        "comparing the search of each compound form with the searches of its parts.",
        note="Trusted: only the harness's bookkeeping (which elements a projection ranges over is itself obtained from the crate); no external evaluator.",
        technique="runtime monitoring: metamorphic (compositional-law) oracle using only the implementation",
    ),
    "C12": dict(
        text="Error-event monitoring: every error of generated failing expressions is checked for class and failing-call location against the reference "
        "evaluator, for coordinates and message layout against independent recomputation, and a shadow-call-stack hook checks ctx.offset at every "
        "JmespathError::from_ctx.",
        note="Trusted: reference parser positions, reference evaluation order on single-failing-site templates, the verif-hooks shadow stack.",
        technique="runtime monitoring: invariant hook on error construction + reference-model oracle on observed errors",
    ),
    "C13": dict(
        text="History monitoring: random interleavings of compile/clone/search/drop over a small pool are logged and every outcome is checked against the "
        "single-shot outcome of the same pair (recomputed in fresh processes), with AST and input fingerprints watched for change.",
        note="Trusted: fingerprints (Display of values, Debug of Ast); the single-shot table.",
        technique="runtime monitoring: offline history checker against fresh-process ground truth",
    ),
    "C14": dict(
        text="Differential monitoring of the serde bridge: a zoo of derived types is pushed through the library's Serializer and Deserializer and every outcome "
        "is compared with what serde_json itself produces for the same value / the same JSON, including the Ok/Err decision on mismatched shapes.",
        note="Trusted: serde_json and serde_derive (they are the definition the statement gives).",
        technique="runtime monitoring: differential oracle against serde_json over a generated type zoo",
    ),
    "C15": dict(
        text="History monitoring: random register/deregister histories are replayed on a real Runtime while recording closures with unique ids log every "
        "invocation (id, arguments, context expression); a small sequential model of the registry and an independent signature check predict every probe.",
        note="Trusted: the 15-line registry model; the recording closures' thread-local log; reference functions for built-ins.",
        technique="runtime monitoring: event-log checking of histories against an executable sequential model",
    ),
    "C16": dict(
        text="Concurrency monitoring of the sync build: compile-time Send/Sync obligations; native multi-threaded stress comparing every result with the "
        "sequential one; re-executed first-use races of the default runtime widened by an injected delay; the same workload under Miri (many scheduler "
        "seeds) and ThreadSanitizer. Held on the schedules observed.",
        note="Trusted: rustc's auto-trait checking, Miri's data-race detector, ThreadSanitizer (-Zbuild-std); schedules are sampled, not enumerated.",
        technique="runtime monitoring: Miri + ThreadSanitizer + result-comparing multi-threaded stress with injected delays",
    ),
    "C17": dict(
        text="Configuration monitoring: one deterministic program is built under every feature set (nightly default/sync/specialized/sync+specialized, stable "
        "default) and its recorded outcome logs are compared line by line; inside each build the specialised conversions are compared with serde's image.",
        note="Trusted: determinism of the matrix program given its seed; serde_json for the conversion image.",
        technique="runtime monitoring: offline comparison of recorded outcome logs across build configurations",
    ),
    "C18": dict(
        text="Process-boundary monitoring of the jp binary: generated invocations (argv, stdin, files, flags) are executed as subprocesses and exit status, "
        "stdout and stderr are compared with what the library, called in-process on the same texts, says must happen; strace observes that --ast reads no input.",
        note="Trusted: the in-process library call as the definition of 'what the library computes'; strace for the syscall observation.",
        technique="runtime monitoring: subprocess exit/stdout/stderr monitor against the in-process library + strace",
    ),
}

ENGINES = [
    {
        "name": "driver",
        "path": "harness/driver",
        "kind_free_text": "Rust driver linking the snapshot of /repo/jmespath (verif-hooks on) and the independent reference model harness/refimpl; "
        "one subcommand per property; sharded over 16 processes by py/orchestrate.py",
    },
    {
        "name": "refimpl",
        "path": "harness/refimpl",
        "kind_free_text": "independent reference model: lexer, strict ABNF/Pratt recognizer producing a pipeline normal form, evaluator, 26 functions, "
        "signature table, generators; depends on serde_json only, not on jmespath",
    },
    {"name": "conc", "path": "harness/conc", "kind_free_text": "multi-threaded C16 workloads (native, Miri, ThreadSanitizer)"},
    {"name": "matrix", "path": "harness/matrix", "kind_free_text": "C17 deterministic program built under every feature set"},
    {"name": "jpbuild", "path": "harness/jpbuild", "kind_free_text": "builds jmespath-cli/src/main.rs offline for C18"},
    {"name": "orchestrator", "path": "py/orchestrate.py", "kind_free_text": "snapshot/build/shard/merge, known-findings matching, evidence and replay writer"},
]


def main():
    props = [json.loads(l) for l in open(os.path.join(VERIF, "properties.jsonl"))]
    hooks_commit = subprocess.run(["git", "-C", "/repo", "log", "--format=%h", "--grep", "^verif hooks"], capture_output=True, text=True).stdout.split()
    checks = []
    for p in props:
        pid = p["id"]
        if pid not in CHECKS:
            continue
        c = CHECKS[pid]
        checks.append({
            "property_id": pid,
            "quick_cmd": "bin/check %s quick" % pid,
            "thorough_cmd": "bin/check %s thorough" % pid,
            "evidence_file": "evidence/%s.json" % pid,
            "replay_cmd_template": "bin/check replay {path}",
            "engine": "driver",
            "level_claimed": {"category": c.get("category", "exploration"), "text": c["text"], "design_ref": "DESIGN.md §2 %s" % pid},
            "level_note": c["note"],
            "technique": c["technique"],
        })
    na = [{"property_id": p["id"], "reason": NOT_APPLICABLE.get(p["id"], "check not built yet in this round (work in progress; no verdict claimed)")}
          for p in props if p["id"] not in CHECKS]
    engines = []
    for e in ENGINES:
        e = dict(e)
        e["serves_properties"] = sorted(CHECKS.keys())
        engines.append(e)
    m = {
        "version": 1,
        "setup_cmd": "bin/check setup",
        "hooks": {
            "guard": "cargo feature verif-hooks (jmespath/Cargo.toml; off by default)",
            "enable": "the harness driver depends on the snapshot of /repo/jmespath with features=[\"verif-hooks\"] (harness/driver/Cargo.toml)",
            "baseline_off_cmd": "cd /repo/jmespath && cargo test --offline --no-fail-fast",
            "source_commits": hooks_commit,
            "add_only": True,
        },
        "engines": engines,
        "checks": checks,
        "not_applicable": na,
        "notes": "All checks are runtime monitors over executions of the real code (technique family: runtime monitoring and sanitizers). "
        "See DESIGN.md; known findings in known_findings.json.",
    }
    with open(os.path.join(VERIF, "MANIFEST.json"), "w") as f:
        json.dump(m, f, indent=1)
    print("MANIFEST.json: %d checks, %d not_applicable" % (len(checks), len(na)))


NOT_APPLICABLE = {}

if __name__ == "__main__":
    main()
