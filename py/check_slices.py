#!/usr/bin/env python3
"""Offline checker for C07: recomputes every recorded slice / index with
CPython's own list slicing. Usage: check_slices.py <records file>...
Prints one JSON object: {"records": n, "violations": [...]}"""
import json
import sys


def p(x):
    return None if x == "_" else int(x)


def fmt(xs):
    return "[" + ",".join(str(v) for v in xs) + "]"


def check(path):
    n = 0
    bad = []
    kinds = {"S": 0, "V": 0, "I": 0, "P": 0, "R": 0}
    with open(path) as f:
        for line in f:
            line = line.rstrip("\n")
            if not line:
                continue
            head, got = line.split(" | ", 1)
            parts = head.split()
            n += 1
            kinds[parts[0]] += 1
            if parts[0] in ("S", "V"):
                ln, a, b, c = int(parts[1]), p(parts[2]), p(parts[3]), p(parts[4])
                if c == 0:
                    want = "E:invalid-slice"
                else:
                    want = fmt(list(range(ln))[a:b:c])
                if got != want and len(bad) < 50:
                    bad.append({"signature": "C07/slice-differs-from-python", "witness": {"kind": parts[0], "len": ln, "start": a, "stop": b, "step": c, "python": want, "got": got}})
            elif parts[0] == "R":
                form, ln, k = parts[1], int(parts[2]), int(parts[3])
                rows = [[v + 10 * j for v in range((j * 5 + ln) % 7)] for j in range(ln % 9 + 1)]
                picks = [(r[k] if -len(r) <= k < len(r) else None) for r in rows]
                if form == "ragged-map":
                    want = "[" + ",".join("null" if x is None else str(x) for x in picks) + "]"
                else:
                    want = fmt([x for x in picks if x is not None])
                if got != want and len(bad) < 50:
                    bad.append({"signature": "C07/index-over-ragged-rows-differs-from-python", "witness": {"form": form, "len": ln, "index": k, "python": want, "got": got}})
            elif parts[0] == "P":
                form, ln, a, b, c = parts[1], int(parts[2]), p(parts[3]), p(parts[4]), p(parts[5])
                sel = list(range(ln))[a:b:c]
                if form.startswith("holes-"):
                    n = min(ln, 10) if form == "holes-values" else ln
                    want = fmt([i for i in range(n) if i % 3 != 1][a:b:c])
                elif form in ("ml", "ml-pipe"):
                    want = fmt(list(range(max(min(ln, 24), 1)))[a:b:c])
                elif form in ("ml-null", "ml-null-pipe"):
                    want = "N"
                elif form in ("fn-reverse", "fn-reverse-bar"):
                    want = fmt(list(reversed(sel)))
                elif form == "fn-sort":
                    want = fmt(sorted(sel))
                elif form.startswith("window:"):
                    _, w1, w2, w3 = form.split(":")
                    w3v = p(w3)
                    want = fmt(sel[p(w1):p(w2):(1 if w3v is None else w3v)])
                elif form == "falsy":
                    fk = ["false", '""', "[]", "{}", "0", "true", '"x"', None]
                    want = "[" + ",".join(fk[i % 8] for i in sel if fk[i % 8] is not None) + "]"
                elif form == "first":
                    want = str(sel[0]) if sel else "N"
                elif form == "last":
                    want = str(sel[-1]) if sel else "N"
                elif form == "length":
                    want = str(len(sel))
                else:
                    want = fmt(sel)
                if got != want and len(bad) < 50:
                    bad.append({"signature": "C07/slice-in-context-differs-from-python", "witness": {"form": form, "len": ln, "start": a, "stop": b, "step": c, "python": want, "got": got}})
            else:
                ln, k = int(parts[1]), int(parts[2])
                xs = list(range(ln))
                want = str(xs[k]) if -ln <= k < ln else "N"
                if got != want and len(bad) < 50:
                    bad.append({"signature": "C07/index-differs-from-python", "witness": {"len": ln, "index": k, "python": want, "got": got}})
    return n, kinds, bad


if __name__ == "__main__":
    total = 0
    allbad = []
    kinds = {"S": 0, "V": 0, "I": 0, "P": 0, "R": 0}
    for path in sys.argv[1:]:
        n, k, bad = check(path)
        total += n
        allbad += bad
        for x in k:
            kinds[x] += k[x]
    print(json.dumps({"records": total, "kinds": kinds, "violations": allbad}))
