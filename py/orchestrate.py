"""Orchestration for the /verif runtime monitors: snapshot, build, shard, merge,
known-findings matching, evidence, replays."""
import fcntl
import hashlib
import resource
import json
import os
import shutil
import subprocess
import sys
import time

VERIF = os.path.dirname(os.path.dirname(os.path.abspath(__file__)))
REPO = os.environ.get("REPO", "/repo")
WORK = os.path.join(VERIF, "work")
HARNESS = os.path.join(VERIF, "harness")
SNAP = os.path.join(WORK, "snapshot")
NCPU = max(1, min(16, os.cpu_count() or 1))

ENV = dict(os.environ)
ENV["CARGO_NET_OFFLINE"] = "true"
ENV.setdefault("CARGO_TERM_COLOR", "never")


class HarnessError(Exception):
    pass


def log(msg):
    print(msg, flush=True)


# ---------------------------------------------------------------------------
# snapshot + build


class Lock:
    def __enter__(self):
        os.makedirs(WORK, exist_ok=True)
        self.f = open(os.path.join(WORK, ".lock"), "w")
        fcntl.flock(self.f, fcntl.LOCK_EX)
        return self

    def __exit__(self, *a):
        fcntl.flock(self.f, fcntl.LOCK_UN)
        self.f.close()


def sync_snapshot():
    """Checksum-rsync the repository sources into work/snapshot (content decides,
    not mtimes), so cargo rebuilds exactly when the working tree changed."""
    os.makedirs(SNAP, exist_ok=True)
    for sub in ("jmespath", "jmespath-cli"):
        src = os.path.join(REPO, sub)
        if not os.path.isdir(src):
            raise HarnessError("missing %s" % src)
        r = subprocess.run(
            ["rsync", "-rc", "--delete", "--exclude", "target", "--exclude", "Cargo.lock", src, SNAP + "/"],
            capture_output=True,
            text=True,
        )
        if r.returncode != 0:
            raise HarnessError("rsync failed: %s" % r.stderr)
    lock_src = os.path.join(REPO, "jmespath", "Cargo.lock")
    lock_dst = os.path.join(HARNESS, "Cargo.lock")
    if not os.path.exists(lock_dst):
        if os.path.exists(lock_src):
            shutil.copy(lock_src, lock_dst)


BUILDS = {
    # name: (toolchain, profile, features, target subdir)
    "chk": (None, "chk", [], "target"),
    "rel": (None, "release", [], "target"),
    "sync": (None, "chk", ["sync"], "target-sync"),
    "n-default": ("nightly", "chk", [], "target-n-default"),
    "n-sync": ("nightly", "chk", ["sync"], "target-n-sync"),
    "n-spec": ("nightly", "chk", ["specialized"], "target-n-spec"),
    "n-syncspec": ("nightly", "chk", ["sync", "specialized"], "target-n-syncspec"),
}


def cargo_build(name, package="driver", binname=None):
    toolchain, profile, feats, tdir = BUILDS[name]
    cmd = ["cargo"]
    if toolchain:
        cmd.append("+" + toolchain)
    cmd += ["build", "--offline", "--profile", profile, "-p", package]
    if feats:
        cmd += ["--features", ",".join(feats)]
    env = dict(ENV)
    env["CARGO_TARGET_DIR"] = os.path.join(WORK, tdir)
    t0 = time.time()
    r = subprocess.run(cmd, cwd=HARNESS, env=env, capture_output=True, text=True)
    if r.returncode != 0:
        raise HarnessError("cargo build %s failed:\n%s" % (name, r.stderr[-4000:]))
    out = os.path.join(WORK, tdir, profile, binname or package)
    if not os.path.exists(out):
        raise HarnessError("built binary missing: %s" % out)
    return out, time.time() - t0


def stage_binary(path, rundir, name):
    os.makedirs(rundir, exist_ok=True)
    dst = os.path.join(rundir, name)
    shutil.copy2(path, dst)
    return dst


# ---------------------------------------------------------------------------
# running shards


def cpu_limit(tier):
    """Per-process CPU budget for driver shards: orders of magnitude above what a shard needs."""
    secs = 300 if tier == "quick" else 7200

    def f():
        resource.setrlimit(resource.RLIMIT_CPU, (secs, secs + 10))
        resource.setrlimit(resource.RLIMIT_AS, (16 << 30, 16 << 30))
    return f


def run_shards(binary, subcmd, n_total, seed, tier, rundir, extra=None, shards=NCPU, timeout=3600, env=None):
    """Run `shards` processes of the driver; returns list of parsed reports.
    A shard that dies is reported as a pseudo-report with `died`."""
    os.makedirs(rundir, exist_ok=True)
    per = max(1, (n_total + shards - 1) // shards)
    procs = []
    for s in range(shards):
        out = os.path.join(rundir, "%s.%d.json" % (subcmd, s))
        if os.path.exists(out):
            os.remove(out)
        cmd = [binary, subcmd, "--seed", str(seed), "--n", str(per), "--shard", "%d/%d" % (s, shards), "--tier", tier, "--out", out]
        if extra:
            cmd += extra
        p = subprocess.Popen(cmd, stdout=subprocess.PIPE, stderr=subprocess.PIPE, env=env or ENV, preexec_fn=cpu_limit(tier))
        procs.append((s, p, out))
    reports = []
    deadline = time.time() + timeout
    for s, p, out in procs:
        try:
            so, se = p.communicate(timeout=max(1, deadline - time.time()))
        except subprocess.TimeoutExpired:
            p.kill()
            so, se = p.communicate()
            reports.append({"died": "wall-clock watchdog (inconclusive)", "shard": s, "inconclusive": ["shard %d hit the wall-clock watchdog" % s]})
            continue
        if p.returncode != 0 or not os.path.exists(out):
            why = "exit %s" % p.returncode
            if p.returncode == -24:
                why = "CPU budget exhausted (SIGXCPU): a case did not return in bounded time — run C05 to name it"
            reports.append({"died": why, "shard": s, "stderr": se.decode("utf-8", "replace")[-2000:]})
            continue
        with open(out) as f:
            reports.append(json.load(f))
    return reports


def merge(reports):
    m = {
        "evaluations": 0,
        "distinct": set(),
        "samples": [],
        "observed": {},
        "violations": [],
        "violations_total": 0,
        "harness_errors": [],
        "inconclusive": [],
        "extra": {},
        "died": [],
    }
    for r in reports:
        if "died" in r:
            if r.get("inconclusive"):
                m["inconclusive"] += r["inconclusive"]
            else:
                m["died"].append(r)
            continue
        m["evaluations"] += r.get("evaluations", 0)
        m["distinct"].update(r.get("distinct_hashes", []))
        m["samples"] += r.get("samples", [])
        for k, v in r.get("observed", {}).items():
            if k.startswith("max/"):
                m["observed"][k] = max(m["observed"].get(k, 0), v)
            else:
                m["observed"][k] = m["observed"].get(k, 0) + v
        m["violations"] += r.get("violations", [])
        m["violations_total"] += r.get("violations_total", 0)
        m["harness_errors"] += r.get("harness_errors", [])
        m["inconclusive"] += r.get("inconclusive", [])
        for k, v in r.get("extra", {}).items():
            if isinstance(v, (int, float)) and isinstance(m["extra"].get(k, 0), (int, float)):
                m["extra"][k] = m["extra"].get(k, 0) + v
            else:
                m["extra"].setdefault(k, v)
    return m


# ---------------------------------------------------------------------------
# known findings, replays, evidence


def load_known():
    p = os.path.join(VERIF, "known_findings.json")
    if not os.path.exists(p):
        return []
    with open(p) as f:
        return json.load(f).get("findings", [])


def classify_violations(pid, violations):
    """Split into (known: {signature: example}, fresh: [violation])."""
    known = {}
    fresh = []
    table = [k for k in load_known() if k.get("property") == pid and k.get("status") == "open"]
    sigs = {k["signature"]: k for k in table}
    for v in violations:
        sig = v.get("signature", "")
        if sig in sigs:
            known.setdefault(sig, v)
        else:
            fresh.append(v)
    return known, fresh


def write_replay(pid, v, tier, seed):
    os.makedirs(os.path.join(VERIF, "replays"), exist_ok=True)
    v = dict(v)
    if os.path.realpath(REPO) != "/repo":
        v["repo"] = REPO
    body = json.dumps(v, sort_keys=True)
    h = hashlib.sha1(body.encode()).hexdigest()[:12]
    path = os.path.join(VERIF, "replays", "%s-%s.json" % (pid, h))
    with open(path, "w") as f:
        json.dump({"property": pid, "tier": tier, "seed": seed, "signature": v.get("signature"), "witness": v.get("witness"),
                   "replay": "bin/check replay %s" % path}, f, indent=1, sort_keys=True)
    return path


def evidence_dir():
    # runs against a scratch copy (REPO=<dir>, used for seeded defects) must not overwrite the
    # evidence of /repo itself
    if os.path.realpath(REPO) != "/repo":
        return os.path.join(WORK, "evidence-of-scratch-copies")
    return os.path.join(VERIF, "evidence")


def write_evidence(pid, tier, seed, level, coverage, assumptions, wall_s, violations):
    os.makedirs(evidence_dir(), exist_ok=True)
    ev = {
        "property_id": pid,
        "tier": tier,
        "seed": seed,
        "level": level,
        "coverage": coverage,
        "assumptions": assumptions,
        "wall_s": round(wall_s, 2),
        "violations": violations,
    }
    tmp = os.path.join(evidence_dir(), ".%s.json.tmp" % pid)
    with open(tmp, "w") as f:
        json.dump(ev, f, indent=1, sort_keys=True, default=str)
    os.replace(tmp, os.path.join(evidence_dir(), "%s.json" % pid))


def conclude(pid, tier, seed, merged, cfg, t0, extra_cov=None):
    """Common tail: harness errors, known findings, violations, evidence, exit code."""
    known, fresh = classify_violations(pid, merged["violations"])
    cov = {
        "evaluations": merged["evaluations"],
        "distinct_nontrivial": len(merged["distinct"]),
        "rule": cfg["rule"],
        "samples": merged["samples"][: cfg.get("sample_cap", 16)],
        "observed": dict(sorted(merged["observed"].items())),
        "known_findings_seen": sorted(known.keys()),
        "inconclusive": merged["inconclusive"][:20],
        "exhaustive": bool(cfg.get("exhaustive", False)),
    }
    if merged["extra"]:
        cov["extra"] = merged["extra"]
    if extra_cov:
        cov.update(extra_cov)
    status = 0
    for d in merged["died"]:
        log("HARNESS-ERROR: property=%s shard %s died (%s): %s" % (pid, d.get("shard"), d.get("died"), d.get("stderr", "")[-600:]))
        status = 2
    for e in merged["harness_errors"][:10]:
        log("HARNESS-ERROR: property=%s %s" % (pid, e[:600]))
        status = 2
    for i in merged["inconclusive"][:10]:
        log("INCONCLUSIVE: property=%s %s" % (pid, i))
    for sig, v in sorted(known.items()):
        ex = json.dumps(v.get("witness", {}), sort_keys=True)
        log("KNOWN-FINDING: property=%s %s %s" % (pid, sig, ex[:300]))
    seen = set()
    nviol = 0
    for v in fresh:
        sig = v.get("signature", "")
        nviol += 1
        if sig in seen and len(seen) >= 1 and nviol > 10:
            continue
        seen.add(sig)
        path = write_replay(pid, v, tier, seed)
        log("VIOLATION property=%s replay=%s signature=%s" % (pid, path, sig))
    if fresh:
        status = 1
    minimum = cfg.get("min_evaluations", 1)
    if status == 0 and merged["evaluations"] < minimum:
        log("HARNESS-ERROR: property=%s observed only %d evaluations (< %d): nothing decided" % (pid, merged["evaluations"], minimum))
        status = 2
    if status == 0 and not merged["samples"]:
        log("HARNESS-ERROR: property=%s the run recorded no sample cases" % pid)
        status = 2
    if status == 0 and len(merged["distinct"]) < 2:
        log("HARNESS-ERROR: property=%s fewer than 2 distinct non-trivial cases observed" % pid)
        status = 2
    write_evidence(pid, tier, seed, cfg.get("level", "exploration"), cov, cfg.get("assumptions", []), time.time() - t0, len(fresh))
    verdict = {0: "HELD on what was observed", 1: "VIOLATED", 2: "HARNESS ERROR"}[status]
    log("RESULT property=%s tier=%s seed=%d evaluations=%d distinct_nontrivial=%d known_findings=%d fresh_violations=%d wall=%.1fs : %s"
        % (pid, tier, seed, merged["evaluations"], len(merged["distinct"]), len(known), len(fresh), time.time() - t0, verdict))
    if status == 0 and not os.environ.get("VERIF_KEEP_RUNDIR"):
        for d in _RUNDIRS:
            shutil.rmtree(d, ignore_errors=True)
    return status


# ---------------------------------------------------------------------------
# per-property plans

import properties  # noqa: E402


_RUNDIRS = []


def register_rundir(path):
    """Run directories of this process: removed at the end of a run that held (logs are large)."""
    if path not in _RUNDIRS:
        _RUNDIRS.append(path)
    return path


def prepare(builds):
    """Under the lock: sync snapshot, build, stage binaries into a private run dir."""
    rundir = register_rundir(os.path.join(WORK, "run", "%d-%d" % (os.getpid(), int(time.time() * 1000) % 100000)))
    staged = {}
    with Lock():
        sync_snapshot()
        for b in builds:
            spec = b if isinstance(b, tuple) else (b, "driver", None)
            path, secs = cargo_build(spec[0], spec[1], spec[2])
            staged[spec[0] if spec[1] == "driver" else spec[1]] = stage_binary(path, rundir, "%s-%s" % (spec[1], spec[0]))
    return rundir, staged


def refcheck(binary, rundir):
    out = os.path.join(rundir, "refcheck.json")
    r = subprocess.run([binary, "refcheck", "--out", out], capture_output=True, text=True, env=ENV)
    if r.returncode != 0:
        msgs = []
        if os.path.exists(out):
            msgs = json.load(open(out)).get("harness_errors", [])
        raise HarnessError("reference model disagrees with the compliance data: %s %s" % (msgs[:3], r.stderr[-500:]))
    return json.load(open(out))


def cleanup_rundirs(keep=None):
    base = os.path.join(WORK, "run")
    if not os.path.isdir(base):
        return
    now = time.time()
    for d in os.listdir(base):
        p = os.path.join(base, d)
        if p == keep:
            continue
        try:
            if now - os.path.getmtime(p) > 3 * 3600:
                shutil.rmtree(p, ignore_errors=True)
        except OSError:
            pass


def main(argv):
    if not argv:
        print(__doc__)
        return 2
    cmd = argv[0]
    try:
        if cmd == "setup":
            return properties.setup()
        if cmd == "replay":
            return properties.replay(argv[1])
        pid = cmd.upper()
        tier = argv[1] if len(argv) > 1 else os.environ.get("VERIF_TIER", "quick")
        if tier not in ("quick", "thorough"):
            print("tier must be quick or thorough")
            return 2
        seed = int(os.environ.get("VERIF_SEED", "1") or "1")
        if pid not in properties.PLANS:
            print("unknown property %s" % pid)
            return 2
        t0 = time.time()
        status = properties.PLANS[pid](pid, tier, seed, t0)
        cleanup_rundirs()
        return status
    except HarnessError as e:
        log("HARNESS-ERROR: %s" % e)
        return 2
