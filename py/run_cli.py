#!/usr/bin/env python3
"""C18 executor: runs the real jp binary on generated invocations and compares
exit status / stdout / stderr with what the in-process library said must happen.
Usage: run_cli.py <jp> <records.jsonl>...   -> prints one JSON object."""
import json
import os
import shutil
import subprocess
import sys
import tempfile
import threading
import zlib
from concurrent.futures import ThreadPoolExecutor


def _feed(fifo, content):
    """Writer end of a FIFO: blocks until somebody opens it for reading."""
    try:
        with open(fifo, "wb") as f:
            f.write(content)
    except OSError:
        pass


def run_one(jp, spec, base):
    d = tempfile.mkdtemp(prefix="c18-", dir=base)
    try:
        for name, hx in spec["files"].items():
            with open(os.path.join(d, name), "wb") as f:
                f.write(bytes.fromhex(hx))
        argv = [jp] + [a.replace("{DIR}", d) for a in spec["argv"]]
        stdin = bytes.fromhex(spec["stdin_hex"]) if spec["input_channel"] == "stdin" else b""
        # The same bytes reach jp over different TRANSPORTS, chosen per invocation: the text files as
        # regular files, FIFOs (what `-f <(cmd)` gives), symlinks, or /dev/stdin; standard input as a
        # pipe, a regular file, or a regular file whose descriptor is already positioned behind a header
        # that an earlier reader consumed. What must happen does not depend on the transport.
        h = zlib.crc32(spec["id"].encode())
        transports = []
        writers = []
        stdin_file = None
        for i, a in enumerate(argv):
            name = os.path.basename(a)
            if i == 0 or name not in spec["files"] or not a.startswith(d):
                continue
            content = bytes.fromhex(spec["files"][name])
            t = (h >> (3 * len(transports))) % 6
            if t == 1 and len(content) < 60000:
                fifo = a + ".fifo"
                os.mkfifo(fifo)
                th = threading.Thread(target=_feed, args=(fifo, content), daemon=True)
                th.start()
                writers.append((fifo, th))
                argv[i] = fifo
                transports.append("fifo")
            elif t == 2:
                os.symlink(a, a + ".link")
                argv[i] = a + ".link"
                transports.append("symlink")
            elif t == 3 and name == "input.json" and spec["input_channel"] != "stdin":
                argv[i] = ["/dev/stdin", "/proc/self/fd/0"][(h >> 9) % 2]
                stdin = content
                transports.append("dev-stdin")
            else:
                transports.append("file")
        # a file argument that cannot be opened is a failure even when standard input happens to carry a
        # perfectly good document (nothing may be read from there instead)
        if spec["input_channel"] != "stdin" and any("no-such-file" in a or "missing-expression-file" in a for a in argv) and not stdin:
            stdin = b'{"a": {"b": 1}, "xs": [1, 2, 3], "s": "plain"}'
        st = (h >> 12) % 4
        try:
            if st in (1, 2) and (spec["input_channel"] == "stdin" or "dev-stdin" in transports):
                # (a path such as /dev/stdin re-opens the file at offset 0: the positioned variant is only
                # meaningful when jp reads its inherited descriptor)
                hdr = b"# header line consumed by an earlier reader\n" if st == 2 and "dev-stdin" not in transports else b""
                sp = os.path.join(d, "stdin.bin")
                with open(sp, "wb") as f:
                    f.write(hdr + stdin)
                stdin_file = open(sp, "rb")
                stdin_file.seek(len(hdr))
                transports.append("stdin:file@%d" % len(hdr))
                r = subprocess.run(argv, stdin=stdin_file, capture_output=True, timeout=60)
            elif spec["input_channel"] != "stdin" and "dev-stdin" not in transports and not stdin and (h >> 15) % 6 != 0:
                # the document comes from a named file: whatever standard input is — undecodable bytes, text that is
                # not JSON, a directory, closed — is none of jp's business and changes nothing
                hs = (h >> 15) % 6
                if hs == 5:
                    # an interactive terminal nobody types into
                    import pty
                    transports.append("stdin:ignored-terminal")
                    master, slave = pty.openpty()
                    try:
                        r = subprocess.run(argv, stdin=slave, capture_output=True, timeout=60)
                    finally:
                        os.close(master)
                        os.close(slave)
                elif hs == 1:
                    transports.append("stdin:ignored-invalid-utf8")
                    r = subprocess.run(argv, input=b"\xff\xfe{\"a\": \xc3", capture_output=True, timeout=60)
                elif hs == 2:
                    transports.append("stdin:ignored-not-json")
                    r = subprocess.run(argv, input=b"{{{ this is not JSON\n", capture_output=True, timeout=60)
                elif hs == 3:
                    transports.append("stdin:ignored-directory")
                    dfd = os.open(d, os.O_RDONLY)
                    try:
                        r = subprocess.run(argv, stdin=dfd, capture_output=True, timeout=60)
                    finally:
                        os.close(dfd)
                else:
                    transports.append("stdin:ignored-closed")
                    r = subprocess.run(argv, stdin=subprocess.DEVNULL, capture_output=True, timeout=60, preexec_fn=lambda: os.close(0))
            else:
                transports.append("stdin:pipe")
                r = subprocess.run(argv, input=stdin, capture_output=True, timeout=60)
        except subprocess.TimeoutExpired:
            return {"inconclusive": "watchdog", "id": spec["id"]}
        except ValueError as e:  # embedded NUL in argv
            return {"skipped": str(e), "id": spec["id"]}
        finally:
            if stdin_file:
                stdin_file.close()
            for fifo, th in writers:
                # release a writer nobody listened to (jp never opened the file: --ast, an earlier error)
                try:
                    fd = os.open(fifo, os.O_RDONLY | os.O_NONBLOCK)
                    th.join(2)
                    os.close(fd)
                except OSError:
                    pass
                th.join(2)
        exp = spec["expect"]
        out = {"id": spec["id"], "rc": r.returncode}
        w = {"argv": spec["argv"], "transports": transports, "stdin_hex": spec["stdin_hex"][:200], "files": {k: v[:200] for k, v in spec["files"].items()}, "exit": r.returncode,
             "stdout": r.stdout.decode("utf-8", "replace")[:600], "stderr": r.stderr.decode("utf-8", "replace")[:600], "expected": exp}
        err = r.stderr.decode("utf-8", "replace")
        if r.returncode == 101 or r.returncode < 0 or "panicked at" in err:
            out["violation"] = ("C18/panic-or-signal", w)
            return out
        if exp["ok"]:
            want = exp["stdout"].encode("utf-8")
            if r.returncode != 0:
                out["violation"] = ("C18/success-reported-as-failure", w)
            elif r.stdout != want:
                sig = "C18/ast-output-differs" if spec["ast"] else ("C18/unquoted-output-differs" if spec["unquoted"] else "C18/stdout-differs-from-library-result")
                out["violation"] = (sig, w)
            elif r.stderr:
                out["violation"] = ("C18/stderr-not-empty-on-success", w)
            else:
                out["kind"] = "success/%s%s" % ("ast" if spec["ast"] else exp.get("result_type", "?"), "/unquoted" if spec["unquoted"] else "")
                out["transports"] = transports
        else:
            if r.returncode == 0:
                out["violation"] = ("C18/failure-exits-zero/%s" % exp["why"].replace(" ", "-"), w)
            elif r.stdout:
                out["violation"] = ("C18/stdout-not-empty-on-failure/%s" % exp["why"].replace(" ", "-"), w)
            elif not r.stderr:
                out["violation"] = ("C18/no-diagnosis-on-stderr/%s" % exp["why"].replace(" ", "-"), w)
            elif exp.get("stderr_contains") and exp["stderr_contains"] not in err:
                out["violation"] = ("C18/diagnosis-is-not-the-library-error/%s" % exp["why"].replace(" ", "-"), w)
            else:
                out["kind"] = "failure/%s" % exp["why"]
        return out
    finally:
        shutil.rmtree(d, ignore_errors=True)


def strace_ast(jp, base, n):
    """--ast must not read stdin nor open the -f path, and must terminate with stdin held open."""
    res = []
    for k in range(n):
        d = tempfile.mkdtemp(prefix="c18s-", dir=base)
        try:
            inp = os.path.join(d, "input.json")
            with open(inp, "w") as f:
                f.write("{}")
            trace = os.path.join(d, "trace.txt")
            expr = ["a.b", "xs[*].y | [0]", "length(@)"][k % 3]
            args = ["strace", "-f", "-e", "trace=read,openat", "-o", trace, jp, "--ast", expr] + ([["-f", inp], [], ["-f", os.path.join(d, "nonexistent")]][k % 3])
            p = subprocess.Popen(args, stdin=subprocess.PIPE, stdout=subprocess.PIPE, stderr=subprocess.PIPE)
            try:
                so, se = p.communicate(timeout=30)  # communicate closes stdin only after writing nothing; hold it via timeout semantics
            except subprocess.TimeoutExpired:
                p.kill()
                res.append({"violation": ("C18/ast-waits-for-input", {"argv": args[5:]})})
                continue
            t = open(trace).read() if os.path.exists(trace) else ""
            bad = [ln for ln in t.splitlines() if " read(0," in ln or ("openat(" in ln and ("input.json" in ln or "nonexistent" in ln))]
            if p.returncode != 0 or bad:
                res.append({"violation": ("C18/ast-reads-input", {"argv": args[5:], "exit": p.returncode, "syscalls": bad[:4], "stderr": se.decode("utf-8", "replace")[:300]})})
            else:
                res.append({"kind": "strace/ast-reads-no-input", "syscalls_traced": len(t.splitlines())})
        finally:
            shutil.rmtree(d, ignore_errors=True)
    return res


def main():
    jp = sys.argv[1]
    base = tempfile.mkdtemp(prefix="c18run-")
    specs = []
    for p in sys.argv[2:]:
        with open(p) as f:
            specs += [json.loads(l) for l in f if l.strip()]
    stats = {}
    bad = []
    inconclusive = []
    samples = []
    with ThreadPoolExecutor(max_workers=16) as ex:
        for spec, r in zip(specs, ex.map(lambda s: run_one(jp, s, base), specs)):
            if "inconclusive" in r:
                inconclusive.append("invocation %s: wall-clock watchdog" % r["id"])
            elif "skipped" in r:
                stats["skipped"] = stats.get("skipped", 0) + 1
            elif "violation" in r:
                if len(bad) < 40:
                    bad.append({"signature": r["violation"][0], "witness": r["violation"][1]})
            else:
                stats[r["kind"]] = stats.get(r["kind"], 0) + 1
                for tr in r.get("transports", []):
                    k = "transport/" + tr.split("@")[0] + ("@offset" if "@" in tr and not tr.endswith("@0") else "")
                    stats[k] = stats.get(k, 0) + 1
                if len(samples) < 6 and len([s for s in samples if s["kind"] == r["kind"]]) == 0:
                    samples.append({"kind": r["kind"], "argv": spec["argv"], "exit": r["rc"]})
    for r in strace_ast(jp, base, 6):
        if "violation" in r:
            bad.append({"signature": r["violation"][0], "witness": r["violation"][1]})
        else:
            stats[r["kind"]] = stats.get(r["kind"], 0) + 1
    # out-of-scope observation (never a verdict): stdout on /dev/full
    oos = {}
    try:
        with open("/dev/full", "w") as full:
            r = subprocess.run([jp, "-u", "'x'"], input=b"{}", stdout=full, stderr=subprocess.PIPE, timeout=20)
            oos["stdout=/dev/full, -u string result"] = "exit %d" % r.returncode
    except Exception as e:  # noqa
        oos["error"] = str(e)
    shutil.rmtree(base, ignore_errors=True)
    print(json.dumps({"stats": dict(stats, records=len(specs)), "violations": bad, "inconclusive": inconclusive, "samples": samples, "out_of_scope_observations": oos}))


if __name__ == "__main__":
    main()
