//! C17 driver: prints one line per case — `id <TAB> outcome` — where outcome is
//! the canonical JSON of the search result or the error (class, kind, offset).
//! Built with {default, sync, specialized, sync+specialized}; the logs must match.

use jmespath::{ErrorReason, JmespathError, Rcvar, RuntimeError, ToJmespath, Variable};
use refimpl::gen::{gen_doc, mutate_doc, GenCfg, TreeGen};
use refimpl::print::Printer;
use refimpl::rng::Rng;
use serde_json::Value;
use std::io::Write;

fn class(e: &JmespathError) -> String {
    match &e.reason {
        ErrorReason::Parse(m) => format!("parse:{}", m),
        ErrorReason::Runtime(r) => match r {
            RuntimeError::UnknownFunction(n) => format!("runtime:unknown-function:{}", n),
            RuntimeError::TooManyArguments { expected, actual } => format!("runtime:too-many:{}:{}", expected, actual),
            RuntimeError::NotEnoughArguments { expected, actual } => format!("runtime:not-enough:{}:{}", expected, actual),
            RuntimeError::InvalidType { expected, actual, position } => format!("runtime:invalid-type:{}:{}:{}", expected, actual, position),
            RuntimeError::InvalidReturnType { expected, actual, position, invocation } => {
                format!("runtime:invalid-return-type:{}:{}:{}:{}", expected, actual, position, invocation)
            }
            RuntimeError::InvalidSlice => "runtime:invalid-slice".to_string(),
        },
    }
}

fn outcome(r: Result<Rcvar, JmespathError>) -> String {
    match r {
        Ok(v) => format!("Ok({})", v),
        Err(e) => format!("Err({},offset={},line={},column={})", class(&e), e.offset, e.line, e.column),
    }
}

fn var_of(v: &Value) -> Variable {
    match v {
        Value::Null => Variable::Null,
        Value::Bool(b) => Variable::Bool(*b),
        Value::Number(n) => Variable::Number(n.clone()),
        Value::String(s) => Variable::String(s.clone()),
        Value::Array(a) => Variable::Array(a.iter().map(|e| Rcvar::new(var_of(e))).collect()),
        Value::Object(m) => Variable::Object(m.iter().map(|(k, e)| (k.clone(), Rcvar::new(var_of(e)))).collect()),
    }
}

/// The conversion of `x` for searching must equal the serde_json image of `x`.
fn conv<T: ToJmespath + serde::Serialize + Clone>(out: &mut dyn Write, id: &str, x: &T) {
    let want = serde_json::to_value(x).map(|v| v.to_string()).unwrap_or_else(|e| format!("serde-error:{}", e));
    let got = x.clone().to_jmespath().map(|v| v.to_string()).unwrap_or_else(|e| format!("error:{}", class(&e)));
    // numbers: compare as JSON values, not spellings (1.0 vs 1)
    let same = match (serde_json::from_str::<Value>(&want), serde_json::from_str::<Value>(&got)) {
        (Ok(a), Ok(b)) => a == b,
        _ => want == got,
    };
    let _ = writeln!(out, "{}\tconv:{}{}", id, got, if same { "" } else { "\tCONVERSION-MISMATCH serde_json=" });
    if !same {
        let _ = writeln!(out, "{}\tCONVERSION-MISMATCH\twant={}\tgot={}", id, want, got);
    }
}

fn main() {
    let a: Vec<String> = std::env::args().skip(1).collect();
    let seed: u64 = a.get(0).and_then(|v| v.parse().ok()).unwrap_or(1);
    let n: u64 = a.get(1).and_then(|v| v.parse().ok()).unwrap_or(1000);
    let path = a.get(2).cloned().unwrap_or_else(|| "/dev/stdout".to_string());
    let mut out = std::io::BufWriter::new(std::fs::File::create(&path).expect("out"));
    let scalar_exprs = [
        "@", "type(@)", "[@, @]", "{v: @}", "@ == `1`", "@ > `0`", "to_string(@)", "to_number(@)", "abs(@)", "length(@)", "!@", "@ || 'd'", "not_null(@, `0`)",
        "to_array(@)[0]", "ceil(@)", "reverse(@)", "nofn(@)", "@[0]", "@.a", "contains(@, 'a')",
    ];
    for i in 0..n {
        let mut rng = Rng::derive(seed, 17, i);
        // (1) generated expressions x documents given as Value / &Value / Variable / &Variable / Rcvar / &Rcvar
        let base = gen_doc(&mut rng, 4);
        let tree = TreeGen { rng: &mut rng, cfg: GenCfg { calls: true, depth: 3 } }.pipeline(&base, 3, 4);
        let text = match Printer::new(&mut rng).emit(&tree) {
            Ok(t) => t,
            Err(_) => "@".to_string(),
        };
        let doc = if rng.chance(1, 3) { mutate_doc(&mut rng, &base) } else { base };
        match jmespath::compile(&text) {
            Err(e) => {
                let _ = writeln!(out, "{}.c\tcompile:{}", i, outcome(Err(e)));
            }
            Ok(e) => {
                let var = var_of(&doc);
                let rc = Rcvar::new(var.clone());
                let _ = writeln!(out, "{}.value\t{}", i, outcome(e.search(doc.clone())));
                let _ = writeln!(out, "{}.value_ref\t{}", i, outcome(e.search(&doc)));
                let _ = writeln!(out, "{}.variable\t{}", i, outcome(e.search(var.clone())));
                let _ = writeln!(out, "{}.variable_ref\t{}", i, outcome(e.search(&var)));
                let _ = writeln!(out, "{}.rcvar\t{}", i, outcome(e.search(rc.clone())));
                let _ = writeln!(out, "{}.rcvar_ref\t{}", i, outcome(e.search(&rc)));
                if i % 50 == 0 {
                    conv(&mut out, &format!("{}.conv.value", i), &doc);
                }
            }
        }
        // (1b) larger arrays with tied keys and loosely-equal adjacent numbers: orderings and
        // conversions that only differ beyond small sizes must still agree across builds
        if i % 5 == 0 {
            let n = 21 + rng.below(30);
            let recs: Vec<Value> = (0..n)
                .map(|k| {
                    let (kk, ss, ff) = (rng.below(4), ["a", "b", "B", "é"][rng.below(4)], [1.0, 1.5][rng.below(2)]);
                    serde_json::json!({"id": k, "k": kk, "s": ss, "f": ff})
                })
                .collect();
            let nums: Vec<Value> = (0..n)
                .map(|_| match rng.below(6) {
                    0 => serde_json::json!(1),
                    1 => serde_json::json!(1.0),
                    2 => serde_json::json!(0),
                    3 => serde_json::json!(0.0),
                    4 => serde_json::json!(9007199254740992u64),
                    _ => serde_json::json!(9007199254740993u64),
                })
                .collect();
            let big = serde_json::json!({"recs": recs, "nums": nums, "obj": {"z": [1, 1.0], "a": [0.3, 0.30000000000000004]}});
            let exprs = ["sort_by(recs, &k)[*].id", "sort_by(recs, &s)[*].id", "sort(nums)", "nums", "max_by(recs, &k).id", "min_by(recs, &f).id", "reverse(sort_by(recs, &f))[*].id",
                         "recs[?k == `1`].id", "obj", "to_string(nums)", "sort_by(recs, &to_string(k))[*].id", "map(&to_string(@), nums)"];
            let text = exprs[rng.below(exprs.len())];
            let e = jmespath::compile(text).unwrap();
            let var = var_of(&big);
            let rc = Rcvar::new(var.clone());
            let _ = writeln!(out, "{}.big.value\t{}", i, outcome(e.search(big.clone())));
            let _ = writeln!(out, "{}.big.value_ref\t{}", i, outcome(e.search(&big)));
            let _ = writeln!(out, "{}.big.variable\t{}", i, outcome(e.search(var.clone())));
            let _ = writeln!(out, "{}.big.variable_ref\t{}", i, outcome(e.search(&var)));
            let _ = writeln!(out, "{}.big.rcvar\t{}", i, outcome(e.search(rc.clone())));
            let _ = writeln!(out, "{}.big.rcvar_ref\t{}", i, outcome(e.search(&rc)));
        }
        // (1c) member names that mean something to *other* addressing schemes (JSON Pointer, dotted
        // paths, array positions) reached by plain member paths, and arithmetic whose result
        // leaves the doubles: shortcuts that exist only in some builds must not change either
        if i % 3 == 0 {
            let docs = [
                serde_json::json!({"a/b": 1, "a": {"b": 2, "1": "one", "": "empty"}, "paths": {"/users": {"get": "listUsers"}, "~1users": {"get": "wrong"}},
                                   "m": {"~0": "tilde-zero", "~": "tilde", "~1": "tilde-one", "/": "slash"}, "xs": [10, 20, 30], "": {"": 0}, "a.b": 3, "0": "zero",
                                   "big": [1e308, 1e308], "neg": [-1e308, -1e308, -1e308], "tiny": [5e-324, 5e-324]}),
                serde_json::json!({"a": [10, 20, 30], "xs": {"0": "member-zero", "-1": "member-minus-one"}, "m": [["~0"]], "paths": [], "big": [1.7976931348623157e308, 1e292],
                                   "neg": [], "tiny": [0]}),
                serde_json::json!([{"0": "m"}, [1, 2]]),
            ];
            let paths = [
                "\"a/b\"", "a.b", "paths.\"/users\".get", "paths.\"~1users\".get", "m.\"~0\"", "m.\"~\"", "m.\"~1\"", "m.\"/\"", "a.\"1\"", "a.\"\"", "\"\".\"\"", "\"a.b\"", "\"0\"", "xs.\"0\"",
                "xs.\"-1\"", "a | \"1\"", "a.\"1\" | @", "\"a/b\" | @", "m | \"~0\"", "[0].\"0\"", "@.\"0\"", "\"1\"", "paths.\"/users\" | get",
                "sum(big)", "avg(big)", "sum(neg)", "avg(neg)", "sum(tiny)", "not_null(sum(big), `0`)", "type(sum(big))", "abs(sum(neg))", "big[?@ > sum(tiny)]", "sum(big) || 'd'",
                "max(big)", "sort(neg)", "ceil(avg(tiny))", "floor(sum(big))",
            ];
            let doc = &docs[rng.below(docs.len())];
            let text = paths[rng.below(paths.len())];
            let e = jmespath::compile(text).unwrap();
            let var = var_of(doc);
            let rc = Rcvar::new(var.clone());
            let _ = writeln!(out, "{}.names.value\t{}\t{}", i, text, outcome(e.search(doc.clone())));
            let _ = writeln!(out, "{}.names.value_ref\t{}\t{}", i, text, outcome(e.search(doc)));
            let _ = writeln!(out, "{}.names.variable\t{}\t{}", i, text, outcome(e.search(var.clone())));
            let _ = writeln!(out, "{}.names.variable_ref\t{}\t{}", i, text, outcome(e.search(&var)));
            let _ = writeln!(out, "{}.names.rcvar\t{}\t{}", i, text, outcome(e.search(rc.clone())));
            let _ = writeln!(out, "{}.names.rcvar_ref\t{}\t{}", i, text, outcome(e.search(&rc)));
        }
        // (1d) deep documents and texts that differ only in blanks inside delimiters: a depth
        // limit or a cache that exists only in some builds must not show
        if i % 7 == 0 {
            let depth = [60usize, 100, 126, 127, 128, 129, 130, 200, 300][rng.below(9)];
            let mut doc = serde_json::json!(7);
            for d in 0..depth {
                doc = if d % 3 == 2 { serde_json::json!({ "k": doc }) } else { Value::Array(vec![doc]) };
            }
            let text = ["length(@)", "type(@)", "@[0]", "to_array(@)[0]", "[@, @] | [0] | type(@)"][rng.below(5)];
            let e = jmespath::compile(text).unwrap();
            let var = var_of(&doc);
            let rc = Rcvar::new(var.clone());
            let short = |s: String| if s.len() > 120 { format!("{}…{}", &s[..60], s.len()) } else { s };
            let _ = writeln!(out, "{}.deep{}.value\t{}\t{}", i, depth, text, short(outcome(e.search(doc.clone()))));
            let _ = writeln!(out, "{}.deep{}.value_ref\t{}\t{}", i, depth, text, short(outcome(e.search(&doc))));
            let _ = writeln!(out, "{}.deep{}.variable\t{}\t{}", i, depth, text, short(outcome(e.search(var.clone()))));
            let _ = writeln!(out, "{}.deep{}.variable_ref\t{}\t{}", i, depth, text, short(outcome(e.search(&var))));
            let _ = writeln!(out, "{}.deep{}.rcvar\t{}\t{}", i, depth, text, short(outcome(e.search(rc.clone()))));
            let _ = writeln!(out, "{}.deep{}.rcvar_ref\t{}\t{}", i, depth, text, short(outcome(e.search(&rc))));
            let kdoc = serde_json::json!({"foo bar": 1, "foo  bar": 2, "foobar": 3, "s": "x"});
            let k = 1 + rng.below(3);
            for (n, t) in [
                format!("'a{}b'", " ".repeat(k)), "'a b'".to_string(), format!("\"foo{}bar\"", " ".repeat(k)), "\"foo bar\"".to_string(), format!("`\"x{}y\"`", " ".repeat(k)),
                "`\"x y\"`".to_string(), format!("{}abs(s)", " ".repeat(k)), "abs(s)".to_string(), format!("[`1`,{}'a  b']", " ".repeat(k)), "[`1`, 'a b']".to_string(),
            ]
            .iter()
            .enumerate()
            {
                let r = jmespath::compile(t).and_then(|e| e.search(&kdoc));
                let _ = writeln!(out, "{}.blanks.{}\t{:?}\t{}", i, n, t, outcome(r));
            }
        }
        // (1e) documents in which one node is referenced from two places (only library values can share
        // nodes), and every size around the powers of two: a shortcut that only exists where the
        // input is taken over as it is (specialized) or only under sync must not change an outcome
        if i % 9 == 0 {
            let shared_vals = [serde_json::json!([1, 2]), serde_json::json!({"k": [1]}), serde_json::json!("s"), serde_json::json!(3), serde_json::json!(null), serde_json::json!([])];
            let node = Rcvar::new(var_of(&shared_vals[rng.below(shared_vals.len())]));
            let mut m = std::collections::BTreeMap::new();
            m.insert("a".to_string(), node.clone());
            m.insert("b".to_string(), node.clone());
            m.insert("c".to_string(), Rcvar::new(Variable::Array(vec![node.clone(), node.clone()])));
            let var = Variable::Object(m);
            let rc = Rcvar::new(var.clone());
            let text = ["a <= b", "a == b", "a < b", "a != b", "a >= b", "c[0] <= c[1]", "c[0] > c[1]", "[a, b] | [0] >= [1]", "{x: @, y: @} | x <= y", "{x: a, y: a} | x < y", "c[?@ <= a]", "a > a"][rng.below(12)];
            let e = jmespath::compile(text).unwrap();
            let _ = writeln!(out, "{}.shared.variable\t{}\t{}", i, text, outcome(e.search(var.clone())));
            let _ = writeln!(out, "{}.shared.variable_ref\t{}\t{}", i, text, outcome(e.search(&var)));
            let _ = writeln!(out, "{}.shared.rcvar\t{}\t{}", i, text, outcome(e.search(rc.clone())));
            let _ = writeln!(out, "{}.shared.rcvar_ref\t{}\t{}", i, text, outcome(e.search(&rc)));
            let n = [0usize, 1, 15, 16, 17, 31, 32, 33, 63, 64, 65, 127, 128, 129, 255, 256, 257, 511, 512, 513, 1023, 1024, 1025][rng.below(23)];
            let sized = serde_json::json!({
                "xs": (0..n as i64).rev().collect::<Vec<i64>>(),
                "s": (0..n).map(|k| ["a", "é", "日"][k % 3]).collect::<String>(),
                "o": (0..n).map(|k| (format!("k{:04}", k), serde_json::json!(k))).collect::<serde_json::Map<String, Value>>(),
                "ss": (0..n).map(|k| format!("w{}", k % 7)).collect::<Vec<String>>(),
            });
            // rounding-sensitive arithmetic over 64+ numbers (a reassociated or vectorised sum shows here)
            let fl: Vec<f64> = (0..n).map(|k| [1e16, 1.0, -1e16, 1.0, 0.1, 1e308, -1e308, 3.0][(k + i as usize) % 8]).collect();
            let fdoc = serde_json::json!({"fl": fl, "fl2": (0..n).map(|k| if k % 2 == 0 { 0.1 } else { 0.2 }).collect::<Vec<f64>>()});
            for (fk, ft) in ["sum(fl)", "avg(fl)", "sum(fl2)", "avg(fl2)", "sum(fl[?@ < `1e300` && @ > `-1e300`])"].iter().enumerate() {
                let fe = jmespath::compile(ft).unwrap();
                let fv = var_of(&fdoc);
                let _ = writeln!(out, "{}.fsum{}x{}.value	{}	{}", i, n, fk, ft, outcome(fe.search(fdoc.clone())));
                let _ = writeln!(out, "{}.fsum{}x{}.variable_ref	{}	{}", i, n, fk, ft, outcome(fe.search(&fv)));
            }
            // numbers that differ in the last bits, compared inside and outside filters
            let close = serde_json::json!({"vs": [{"id": "a", "v": 0.30000000000000004}, {"id": "b", "v": 0.5}, {"id": "c", "v": 0.3}, {"id": "d", "v": 1e15}, {"id": "e", "v": 1000000000000000.1}],
                                           "p": 0.1, "q": 0.2, "r": 0.3});
            for (ck, ct) in ["vs[?v == `0.3`].id", "vs[?v != `0.3`].id", "vs[?!(v == `0.3`)].id", "vs[?v == `0.3` && id != 'c'].id", "vs[0].v == `0.3`", "vs[?v == `1e15`].id", "vs[?v <= `0.3`].id",
                             "vs[?v == vs[2].v].id", "contains(vs[*].v, `0.3`)", "vs[*].v | [?@ == `0.3`]"].iter().enumerate() {
                let ce = jmespath::compile(ct).unwrap();
                let cv = var_of(&close);
                let _ = writeln!(out, "{}.close{}x{}.value\t{}\t{}", i, n, ck, ct, outcome(ce.search(close.clone())));
                let _ = writeln!(out, "{}.close{}x{}.variable_ref\t{}\t{}", i, n, ck, ct, outcome(ce.search(&cv)));
            }
            // by-functions and map with key expressions of every shape (negative indexes, slices, pipes, calls, quoted
            // members, current node), over rows some of which lack the member or hold another type; and projections
            // over collections with null elements whose right-hand side ends in a call
            let rows = serde_json::json!({"rows": [{"id": "a", "laps": [3, 9, 4], "meta": {"rank": 2, "r k": 5}}, {"id": "b", "laps": [7, 1], "meta": {"rank": 1, "r k": 5}},
                                                   {"id": "c", "laps": [2, 2, 8], "meta": {"rank": 3, "r k": 1}}, {"id": "d", "laps": [5], "meta": {"rank": 2, "r k": 0}}],
                                          "mixed": [{"a": 1}, null, {"a": "x"}, {"b": 2}, 7, [1], {"a": null}], "ns": [{"n": -1}, null, {"n": 2}],
                                          "nums_as_text": ["007", "-01", "00", "-0", "+1", "1.", ".5", "1e5", "0x10", " 1", "1 ", "1_000", "12abc", "-", "0.0", "-0.0", "1E2", "01.5", "9223372036854775808", "1e999", "", "١٢", "1e-999", "0e0", "-0e0", "000", "1.0", "10"]});
            const KEYS: [&str; 18] = ["laps[-1]", "laps[0]", "laps[-2]", "laps[1:] | [0]", "laps | [-1]", "meta.rank", "meta.\"r k\"", "abs(laps[-1])", "laps[-1] || `0`", "length(laps)", "id",
                                      "to_string(laps[-1])", "[laps[-1]][0]", "@.laps[-1]", "laps[?@ > `2`] | [0]", "not_null(missing, laps[0])", "laps[-3]", "sum(laps)"];
            let key = KEYS[rng.below(KEYS.len())];
            let mut texts: Vec<String> = ["max_by(rows, &{}).id", "min_by(rows, &{}).id", "sort_by(rows, &{})[*].id", "map(&{}, rows)", "rows[*].{} | [0]"].iter().map(|t| t.replace("{}", key)).collect();
            const TAILS: [&str; 8] = ["a.type(@)", "type(@)", "n.abs(@)", "a.to_string(@)", "not_null(a, `0`)", "a | type(@)", "[a][0].type(@)", "a.length(@)"];
            let tail = TAILS[rng.below(TAILS.len())];
            for start in ["mixed[*]", "mixed[]", "mixed[0:]", "ns[*]", "mixed[?@ != `7`]"] {
                texts.push(format!("{}.{}", start, tail));
            }
            // an unknown function whose own arguments fail (the failure of the argument comes first), and numeric-looking
            // strings through to_number (what is not a JSON number is null, in every build)
            const UNKNOWN: [&str; 8] = ["nope(abs(rows[0].id))", "nope(nope2(@))", "abs(nope(@), rows)", "nope(`1`, abs('x'))", "length(nope(abs('x')))", "rows[*].nope(abs(id))", "nope(rows[::0])", "nope(length())"];
            texts.push(UNKNOWN[rng.below(UNKNOWN.len())].to_string());
            texts.push("map(&to_number(@), `[\"007\", \"-01\", \"00\", \"-0\", \"+1\", \"1.\", \".5\", \"1e5\", \"0x10\", \" 1\", \"1_000\", \"12abc\", \"-\", \"0.0\", \"-0.0\", \"1E2\", \"01.5\", \"9223372036854775808\", \"1e999\", \"\"]`)".to_string());
            texts.push("map(&to_number(@), nums_as_text)".to_string());
            for (bk, bt) in texts.iter().enumerate() {
                match jmespath::compile(bt) {
                    Ok(be) => {
                        let bv = var_of(&rows);
                        let _ = writeln!(out, "{}.bykey{}x{}.value\t{}\t{}", i, n, bk, bt, outcome(be.search(rows.clone())));
                        let _ = writeln!(out, "{}.bykey{}x{}.variable_ref\t{}\t{}", i, n, bk, bt, outcome(be.search(&bv)));
                    }
                    Err(e) => {
                        let _ = writeln!(out, "{}.bykey{}x{}.c\t{}\tcompile:{}", i, n, bk, bt, outcome(Err(e)));
                    }
                }
            }
            let text = ["length(xs)", "length(s)", "length(o)", "length(keys(o))", "sort(xs)[0]", "reverse(s) | length(@)", "join('', ss) | length(@)", "xs[*] | length(@)", "max(xs)", "length(values(o))",
                        "sort_by(xs, &@)[-1]", "length(to_array(xs))", "sum(xs)", "length(ss[?@ == 'w1'])", "length(merge(o, o))"][rng.below(15)];
            let e = jmespath::compile(text).unwrap();
            let var = var_of(&sized);
            let rc = Rcvar::new(var.clone());
            let _ = writeln!(out, "{}.size{}.value\t{}\t{}", i, n, text, outcome(e.search(sized.clone())));
            let _ = writeln!(out, "{}.size{}.value_ref\t{}\t{}", i, n, text, outcome(e.search(&sized)));
            let _ = writeln!(out, "{}.size{}.variable\t{}\t{}", i, n, text, outcome(e.search(var.clone())));
            let _ = writeln!(out, "{}.size{}.variable_ref\t{}\t{}", i, n, text, outcome(e.search(&var)));
            let _ = writeln!(out, "{}.size{}.rcvar\t{}\t{}", i, n, text, outcome(e.search(rc.clone())));
            let _ = writeln!(out, "{}.size{}.rcvar_ref\t{}\t{}", i, n, text, outcome(e.search(&rc)));
        }
        // (2) scalar inputs of every specially-handled type
        let se = jmespath::compile(scalar_exprs[rng.below(scalar_exprs.len())]).unwrap();
        let pick = |rng: &mut Rng, min: i128, max: i128| -> i128 {
            match rng.below(6) {
                0 => min,
                1 => max,
                2 => 0,
                3 => 1.min(max),
                4 => (-1i128).max(min),
                _ => min + (rng.next_u64() as i128).rem_euclid(max - min + 1),
            }
        };
        macro_rules! int_case {
            ($t:ty, $name:expr) => {{
                let v = pick(&mut rng, <$t>::MIN as i128, <$t>::MAX as i128) as $t;
                let _ = writeln!(out, "{}.{}\t{}\t{}", i, $name, v, outcome(se.search(v)));
                conv(&mut out, &format!("{}.conv.{}", i, $name), &v);
            }};
        }
        match i % 16 {
            0 => int_case!(i8, "i8"),
            1 => int_case!(i16, "i16"),
            2 => int_case!(i32, "i32"),
            3 => int_case!(i64, "i64"),
            4 => int_case!(u8, "u8"),
            5 => int_case!(u16, "u16"),
            6 => int_case!(u32, "u32"),
            7 => int_case!(u64, "u64"),
            8 => int_case!(isize, "isize"),
            9 => int_case!(usize, "usize"),
            10 => {
                let v = [0.0f32, -0.0, 1.5, -2.25, 3.4e38, 1e-40, 0.1, 16777217.0][rng.below(8)];
                let _ = writeln!(out, "{}.f32\t{}\t{}", i, v, outcome(se.search(v)));
                conv(&mut out, &format!("{}.conv.f32", i), &v);
            }
            11 => {
                let v = [0.0f64, -0.0, 1.5, -2.25, 1e308, 5e-324, 0.1, 9007199254740993.0][rng.below(8)];
                let _ = writeln!(out, "{}.f64\t{}\t{}", i, v, outcome(se.search(v)));
                conv(&mut out, &format!("{}.conv.f64", i), &v);
            }
            12 => {
                let _ = writeln!(out, "{}.unit\t{}", i, outcome(se.search(())));
                conv(&mut out, &format!("{}.conv.unit", i), &());
            }
            13 => {
                let v = rng.chance(1, 2);
                let _ = writeln!(out, "{}.bool\t{}\t{}", i, v, outcome(se.search(v)));
                conv(&mut out, &format!("{}.conv.bool", i), &v);
            }
            14 => {
                let v: String = ["", "a", " a ", "é日", "\u{1F600}", "1", "null", "a\"b\\"][rng.below(8)].to_string();
                let _ = writeln!(out, "{}.string\t{:?}\t{}", i, v, outcome(se.search(v.clone())));
                conv(&mut out, &format!("{}.conv.string", i), &v);
            }
            _ => {
                let v: &str = ["", "a", " a ", "é日", "\u{1F600}", "1", "null", "a\"b\\"][rng.below(8)];
                let _ = writeln!(out, "{}.str\t{:?}\t{}", i, v, outcome(se.search(v)));
                conv(&mut out, &format!("{}.conv.str", i), &v);
            }
        }
    }
    let _ = out.flush();
}
