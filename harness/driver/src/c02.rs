//! C02 — every built-in computes the value the specification defines.
//! Oracle: reference functions stating the *contract*; a recording custom
//! function counts expression-reference evaluations.

use crate::common::*;
use jmespath::{Context, Rcvar, Runtime};
use refimpl::eval::{order, Arg, Builtins, ErrKind, Evaluator};
use refimpl::gen::{gen_doc, mutate_doc, GenCfg, TreeGen};
use refimpl::json::{parse_json, val_eq};
use refimpl::lex::spell_literal;
use refimpl::nf::{canon, canon_value, walk, Step};
use refimpl::parse::{parse, Opts};
use refimpl::print::{minimize_parens, respace, Printer};
use refimpl::rng::{fnv, Rng};
use serde_json::{json, Map, Number, Value};
use std::cell::RefCell;
use std::cmp::Ordering;

thread_local! {
    static RECORDED: RefCell<Vec<String>> = RefCell::new(Vec::new());
    /// Set when the generated arguments contain numbers a few ulps apart: those are then
    /// passed through the document (binary doubles), never spelled as literals, because
    /// serde_json's fast float parser may be an ulp off and would merge or reorder them.
    static CLOSE_USED: std::cell::Cell<bool> = std::cell::Cell::new(false);
}

fn f(x: f64) -> Value {
    Value::Number(Number::from_f64(x).unwrap())
}

fn num(rng: &mut Rng) -> Value {
    // occasionally: signed zeros (tie in every ordering, distinguishable in the output) and
    // magnitudes whose sums leave the doubles (passed through the document, like close numbers)
    if rng.chance(1, 12) {
        return match rng.below(8) {
            0 | 1 => f(-0.0),
            2 => f(0.0),
            3 => json!(0),
            4 | 5 => {
                // integers near the ends of the 64-bit ranges (sums and averages leave i64 / u64)
                CLOSE_USED.with(|c| c.set(true));
                [json!(4611686018427387904i64), json!(9223372036854775807i64), json!(-9223372036854775808i64), json!(18446744073709551615u64), json!(-4611686018427387905i64),
                 json!(9007199254740993i64)][rng.below(6)]
                    .clone()
            }
            k => {
                CLOSE_USED.with(|c| c.set(true));
                f([1e308, 9e307, -1e308, 1.7e308][k - 4])
            }
        };
    }
    match rng.below(10) {
        0 => json!(0),
        1 => f(-0.5),
        2 => f(0.5),
        3 => json!(rng.range(-50, 50)),
        4 => f(rng.range(-400, 400) as f64 / 8.0),
        5 => json!(rng.range(-1_000_000, 1_000_000)),
        6 => f(1.0),
        7 => json!(1),
        8 => f(rng.range(-9999, 9999) as f64 / 100.0),
        _ => json!(rng.range(0, 5)),
    }
}

fn string(rng: &mut Rng) -> String {
    const PARTS: [&str; 22] = [
        "a", "b", "A", "B", "z", "é", "ß", "日本", "語", "\u{1F600}", "e\u{301}", " ", "", "ab", "ba", "Z", "0", "10", "9", "_", "\u{10FFFF}", "\u{FFFF}",
    ];
    let n = rng.below(5);
    (0..n).map(|_| PARTS[rng.below(PARTS.len())]).collect()
}

fn few_strings(rng: &mut Rng) -> String {
    // (incl. strings that are another one plus trailing NULs / a longer prefix: keys abbreviated to a
    // fixed width or compared through a padded integer would tie them)
    const S: [&str; 16] = ["a", "b", "B", "é", "日本", "ab", "", "\u{1F600}", "a\u{0}", "a\u{0}\u{0}", "\u{0}", "abcdefgh", "abcdefghi", "abcdefgh\u{0}", "abcdefg", "a\u{1}"];
    S[rng.below(S.len())].to_string()
}

fn arr_len(rng: &mut Rng) -> usize {
    match rng.below(6) {
        0 => 0,
        1 => 1,
        2 => rng.below(5),
        3 => 21 + rng.below(20),
        _ => rng.below(81),
    }
}

/// Numbers that are distinct but only a few ulps apart, next to well-separated ones:
/// the ordering functions (sort, max, min and the *_by family) order by the numeric
/// value itself, so a neighbour must still sort after / win over its neighbour.
/// (Never used for functions that compare with `==`, which this crate makes tolerant.)
fn close_num(rng: &mut Rng) -> Value {
    const BASES: [f64; 8] = [0.3, 1.0, 0.1, 1e15, -2.5, 1e-7, 123456.789, -1e300];
    let b = BASES[rng.below(BASES.len())];
    let k = [0i64, 0, 1, 1, 2, 3, -1, -2][rng.below(8)];
    CLOSE_USED.with(|c| c.set(true));
    f(f64::from_bits((b.to_bits() as i64 + if b < 0.0 { -k } else { k }) as u64))
}

/// Sizes around the thresholds where sorting implementations switch strategy.
fn sort_len(rng: &mut Rng) -> usize {
    match rng.below(10) {
        0 => 30 + rng.below(8),
        1 => 60 + rng.below(10),
        2 => 65 + rng.below(200),
        _ => arr_len(rng),
    }
}

/// Rearranges an array of sort keys (or records, by `key`) into one of the classic
/// shapes sorting code special-cases: already ascending, descending with ties,
/// all equal, ascending with one element out of place, two runs.
fn arrange(rng: &mut Rng, xs: &mut Vec<Value>, key: impl Fn(&Value) -> Value) {
    let by = |a: &Value, b: &Value| order(&key(a), &key(b));
    match rng.below(9) {
        0 => xs.sort_by(by),
        1 => {
            xs.sort_by(by);
            xs.reverse();
        }
        2 => {
            // weakly descending, ties keep their original relative order
            xs.sort_by(|a, b| by(b, a));
        }
        3 => {
            if let Some(first) = xs.first().cloned() {
                let k = key(&first);
                let n = xs.len();
                let keep: Vec<Value> = xs.iter().filter(|x| order(&key(x), &k) == Ordering::Equal).cloned().collect();
                if !keep.is_empty() {
                    *xs = (0..n).map(|i| keep[i % keep.len()].clone()).collect();
                }
            }
        }
        4 => {
            xs.sort_by(by);
            if xs.len() > 2 {
                let (i, j) = (rng.below(xs.len()), rng.below(xs.len()));
                xs.swap(i, j);
            }
        }
        5 => {
            let mid = xs.len() / 2;
            xs[..mid].sort_by(by);
            xs[mid..].sort_by(|a, b| by(b, a));
        }
        _ => {}
    }
}

fn records(rng: &mut Rng, key_kind: usize) -> Value {
    // unique ids, few distinct keys (heavy duplicates): stability is observable
    let n = arr_len(rng);
    Value::Array(
        (0..n)
            .map(|i| {
                let k = match key_kind {
                    0 => json!(rng.range(0, 4)),
                    1 => Value::String(few_strings(rng)),
                    2 => {
                        if rng.chance(1, 2) {
                            json!(rng.range(0, 3))
                        } else {
                            f(rng.range(0, 6) as f64 / 2.0)
                        }
                    }
                    _ => num(rng),
                };
                let mut m = Map::new();
                m.insert("id".into(), json!(i));
                m.insert("k".into(), k);
                if rng.chance(1, 3) {
                    m.insert("o".into(), Value::Null);
                }
                Value::Object(m)
            })
            .collect(),
    )
}

/// Records for the ordering functions: as `records`, plus near-equal keys, longer
/// arrays and pre-arranged key orders. Ids are assigned after arranging, so the
/// position in the input stays readable from the element.
fn records_for_sorting(rng: &mut Rng, key_kind: usize) -> Value {
    let n = sort_len(rng);
    let closek = rng.chance(1, 5);
    let mut keys: Vec<Value> = (0..n)
        .map(|_| {
            if closek {
                return close_num(rng);
            }
            match key_kind {
                0 => json!(rng.range(0, 4)),
                1 => Value::String(few_strings(rng)),
                2 => {
                    if rng.chance(1, 2) {
                        json!(rng.range(0, 3))
                    } else {
                        f(rng.range(0, 6) as f64 / 2.0)
                    }
                }
                _ => num(rng),
            }
        })
        .collect();
    // mixed number / string keys are a type error for the *_by family: arrange only uniform key sets
    if keys.iter().all(|k| k.is_number()) || keys.iter().all(|k| k.is_string()) {
        arrange(rng, &mut keys, |k| k.clone());
    }
    Value::Array(
        keys.into_iter()
            .enumerate()
            .map(|(i, k)| {
                let mut m = Map::new();
                m.insert("id".into(), json!(i));
                m.insert("k".into(), k);
                Value::Object(m)
            })
            .collect(),
    )
}

enum A {
    V(Value),
    E(&'static str),
}

/// A well-typed argument tuple for `name`.
fn gen_args(name: &str, rng: &mut Rng) -> Vec<A> {
    let nums = |rng: &mut Rng| Value::Array((0..arr_len(rng)).map(|_| if rng.chance(1, 2) { json!(rng.range(0, 6)) } else { num(rng) }).collect());
    let strs = |rng: &mut Rng| Value::Array((0..arr_len(rng)).map(|_| if rng.chance(1, 2) { Value::String(few_strings(rng)) } else { Value::String(string(rng)) }).collect());
    let obj = |rng: &mut Rng| {
        let mut m = Map::new();
        for _ in 0..rng.below(6) {
            m.insert(["a", "b", "c", "é", "Z", "", "aa", "日"][rng.below(8)].to_string(), gen_doc(rng, 1));
        }
        Value::Object(m)
    };
    match name {
        "abs" | "ceil" | "floor" => vec![A::V(num(rng))],
        "avg" | "sum" => vec![A::V(nums(rng))],
        "contains" => match rng.below(4) {
            3 => {
                // a needle that is a DIFFERENT number of the same sign and a similar, very large or very
                // small magnitude as an element (well separated: the tolerant `==` must still say no)
                let pairs = [(1e308, 9e307), (1.7e308, 1.1e308), (-1e308, -9e307), (1e-308, 2e-308), (5e-324, 1e-323), (1e300, 2e300), (9e307, 9e307)];
                let (a, b) = pairs[rng.below(pairs.len())];
                CLOSE_USED.with(|c| c.set(true));
                let mut xs: Vec<Value> = (0..rng.below(4)).map(|_| json!(rng.range(0, 5))).collect();
                let at = rng.below(xs.len() + 1);
                xs.insert(at, f(a));
                let wrap = rng.below(3);
                let (arr, needle) = match wrap {
                    0 => (Value::Array(xs), f(b)),
                    1 => (Value::Array(vec![Value::Array(xs.clone()), json!(1)]), Value::Array({ let mut y = xs.clone(); y[at] = f(b); y })),
                    _ => (Value::Array(vec![json!({"k": f(a)})]), json!({"k": f(b)})),
                };
                vec![A::V(arr), A::V(needle)]
            }
            0 => {
                let a = if rng.chance(1, 2) { nums(rng) } else { Value::Array((0..rng.below(6)).map(|_| gen_doc(rng, 2)).collect()) };
                let needle = match a.as_array() {
                    Some(x) if !x.is_empty() && rng.chance(2, 3) => x[rng.below(x.len())].clone(),
                    _ => gen_doc(rng, 1),
                };
                vec![A::V(a), A::V(needle)]
            }
            1 => {
                let s = string(rng);
                let cs: Vec<char> = s.chars().collect();
                let sub: String = if cs.is_empty() || rng.chance(1, 3) {
                    string(rng)
                } else {
                    let i = rng.below(cs.len());
                    let j = i + rng.below(cs.len() - i + 1);
                    cs[i..j].iter().collect()
                };
                vec![A::V(Value::String(s)), A::V(Value::String(sub))]
            }
            _ => vec![A::V(Value::String(string(rng))), A::V(gen_doc(rng, 1))],
        },
        "ends_with" | "starts_with" => {
            let s = string(rng);
            let cs: Vec<char> = s.chars().collect();
            let part: String = if cs.is_empty() || rng.chance(1, 3) {
                string(rng)
            } else if name == "starts_with" {
                cs[..rng.below(cs.len() + 1)].iter().collect()
            } else {
                cs[rng.below(cs.len() + 1)..].iter().collect()
            };
            vec![A::V(Value::String(s)), A::V(Value::String(part))]
        }
        "join" => vec![A::V(Value::String(string(rng))), A::V(strs(rng))],
        "keys" | "values" => vec![A::V(obj(rng))],
        "length" => match rng.below(3) {
            0 => vec![A::V(Value::String(string(rng)))],
            1 => vec![A::V(nums(rng))],
            _ => vec![A::V(obj(rng))],
        },
        "map" => {
            let e = [
                "&k", "&@", "&id", "&o", "&[id, k]", "&{x: k}", "&nope", "&k == `1`", "&k.type(@)", "&k | type(@)", "&nope.to_array(@)", "&o.not_null(@, `0`)", "&k[0].type(@)", "&type(@)",
                "&to_string(k)", "&k || `\"d\"`", "&!k", "&[k][0] | type(@)",
            ][rng.below(18)];
            let kk = rng.below(4);
            let mut recs = records(rng, kk);
            // elements that are not objects (null, numbers, strings, arrays) among the records
            if rng.chance(1, 2) {
                if let Value::Array(a) = &mut recs {
                    for _ in 0..rng.below(4) {
                        let at = rng.below(a.len() + 1);
                        a.insert(at, [json!(null), json!(7), json!("s"), json!([1]), json!(true), json!({})][rng.below(6)].clone());
                    }
                }
            }
            vec![A::E(e), A::V(recs)]
        }
        "max" | "min" | "sort" => {
            let mut xs: Vec<Value> = match rng.below(5) {
                0 | 1 => nums(rng).as_array().cloned().unwrap_or_default(),
                2 | 3 => strs(rng).as_array().cloned().unwrap_or_default(),
                _ => (0..sort_len(rng)).map(|_| close_num(rng)).collect(),
            };
            if rng.chance(1, 3) {
                let extra = sort_len(rng);
                while !xs.is_empty() && xs.len() < extra {
                    let x = xs[rng.below(xs.len())].clone();
                    xs.push(x);
                }
            }
            arrange(rng, &mut xs, |k| k.clone());
            vec![A::V(Value::Array(xs))]
        }
        "max_by" | "min_by" | "sort_by" => {
            let kk = rng.below(4);
            let e = ["&k", "&k", "&k", "&id", "&to_string(k)", "&length(to_string(id))"][rng.below(6)];
            if rng.chance(1, 2) {
                vec![A::V(records(rng, kk)), A::E(e)]
            } else {
                vec![A::V(records_for_sorting(rng, kk)), A::E(e)]
            }
        }
        "merge" => (0..rng.below(4) + 1).map(|_| A::V(obj(rng))).collect(),
        "not_null" => (0..rng.below(4) + 1)
            .map(|_| A::V(if rng.chance(1, 2) { Value::Null } else { gen_doc(rng, 1) }))
            .collect(),
        "reverse" => vec![A::V(if rng.chance(1, 2) { Value::String(string(rng)) } else { Value::Array((0..rng.below(8)).map(|_| gen_doc(rng, 1)).collect()) })],
        "to_array" | "type" | "to_string" => vec![A::V(gen_doc(rng, 2))],
        "to_number" => {
            const NUMERALS: [&str; 40] = [
                "-", " - ", "-\n", "+", ".", "e", "-e1", "--1", "-.5", "1e", "1e+", "-0.0",
                "0", "-0", "1", "-1", "12", "1.5", "-2.25", "1e3", "1E+2", "2e-2", "0.0", "123456789", "+1", ".5", "01", "1.", "0x10", "NaN",
                "Infinity", "abc", "", " 12 ", "12 ", "\"abc\"", "[1]", "true", "null", "1 2",
            ];
            if rng.chance(2, 3) {
                vec![A::V(Value::String(NUMERALS[rng.below(NUMERALS.len())].to_string()))]
            } else {
                vec![A::V(gen_doc(rng, 1))]
            }
        }
        _ => vec![],
    }
}

fn extreme_key_ok(name: &str, arr: &[Value], keys: &[Value], got: &Value) -> bool {
    // got must be an element whose key is extreme
    let best = keys.iter().fold(None::<&Value>, |acc, k| match acc {
        None => Some(k),
        Some(b) => {
            let o = order(k, b);
            if (name == "max_by" && o == Ordering::Greater) || (name == "min_by" && o == Ordering::Less) {
                Some(k)
            } else {
                Some(b)
            }
        }
    });
    let best = match best {
        Some(b) => b,
        None => return got.is_null(),
    };
    arr.iter()
        .zip(keys)
        .any(|(e, k)| order(k, best) == Ordering::Equal && canon_value(e) == canon_value(got))
}

pub fn run(args: &Args) {
    let mut rep = Report::new("C02");
    let ev = Evaluator::new(&Builtins);
    let strict = Opts::strict();

    // runtime with the built-ins plus a recording function
    let mut rt = Runtime::new();
    rt.register_builtin_functions();
    rt.register_function(
        "rec",
        Box::new(|a: &[Rcvar], _: &mut Context<'_>| {
            RECORDED.with(|r| r.borrow_mut().push(a[0].to_string()));
            Ok(a[0].clone())
        }),
    );

    size_sweep(&mut rep, args, &ev, &strict);
    string_sweep(&mut rep, args, &ev, &strict);
    shared_node_containers(&mut rep, args);
    for i in 0..args.n {
        let mut rng = Rng::derive(args.seed, args.shard + 4000, i);
        match i % 4 {
            0 | 1 => direct_call(&mut rep, &ev, &strict, &mut rng, i),
            2 => recorded_call(&mut rep, &rt, &mut rng),
            _ => nested(&mut rep, &ev, &strict, &mut rng, args, i),
        }
    }
    rep.extra.insert("reference_expref_evals".into(), json!(ev.expref_evals.get()));
    for (k, v) in ev.calls.borrow().iter() {
        rep.add(&format!("ref_calls/{}", k), *v);
    }
    emit_report(args, &rep);
}

/// Built-ins over arrays, strings and objects of every size 0..=130 and around the powers of
/// two up to 1024 (strategy switches at size thresholds), against the reference functions.
fn size_sweep(rep: &mut Report, args: &Args, ev: &Evaluator, strict: &Opts) {
    const EXPRS: [&str; 54] = [
        // by-functions inside the key expression of by-functions (re-entrancy of whatever they keep between elements)
        "sort_by(groups, &sort_by(members, &age)[0].age)[*].team", "max_by(groups, &max_by(members, &age).age).team", "sort_by(groups, &min_by(members, &age).age)[-1].team",
        "map(&sort_by(members, &age)[*].age, groups)", "sort_by(groups, &length(sort_by(members, &age)))[*].team", "min_by(groups, &sum(map(&age, sort_by(members, &age)))).team",
        // the last / first element of a stable sort with ties (not the same element as max_by / min_by return)
        "sort_by(recs, &k)[-1].id", "sort_by(recs, &k)[0].id", "sort_by(recs, &k) | [-1].id", "sort_by(recs, &s)[-1].id", "sort(saw)[-1]", "sort(strs)[0]", "sort_by(recs, &k)[-2:][*].id",
        "reverse(sort_by(recs, &k))[0].id",
        "sort(desc)", "sort(saw)", "sort(strs)", "sort_by(recs, &k)[*].id", "sort_by(recs, &s)[*].id", "sort_by(recs, &id)[-1].id", "max_by(recs, &k).k", "min_by(recs, &k).k",
        "max_by(recs, &id).id", "min_by(recs, &s).s", "reverse(desc)", "reverse(str)", "sum(desc)", "avg(saw)", "max(saw)", "min(desc)", "max(strs)", "min(strs)", "length(desc)",
        "length(str)", "length(obj)", "join('-', strs)", "keys(obj)", "values(obj)", "merge(obj, obj2)", "map(&k, recs)", "map(&[id], recs)[-1]", "contains(desc, `0`)",
        "contains(str, 'yz')", "starts_with(str, 'ab')", "ends_with(str, 'z')", "to_array(desc)[-1]", "not_null(none, desc)[0]", "to_string(saw)",
        // printing values WIDE in containers (many records / arrays / objects side by side, nothing deep)
        "to_string(recs)", "to_string(groups)", "to_string(obj)", "to_string(strs)", "to_string([recs, recs])", "to_string(pairs)",
    ];
    let mut sizes: Vec<usize> = (0..=130).collect();
    sizes.extend_from_slice(&[255, 256, 257, 511, 512, 513, 1000, 1023, 1024, 1025]);
    if args.tier == "thorough" {
        sizes.extend(131..=600);
        sizes.extend_from_slice(&[2047, 2048, 2049, 4095, 4096, 4097, 32767, 32768, 32769, 65535, 65536, 65537, 100_000]);
    }
    let trees: Vec<_> = EXPRS.iter().map(|t| parse(t, strict).expect("sweep expression parses")).collect();
    for (si, &n) in sizes.iter().enumerate() {
        if si as u64 % args.shards != args.shard {
            continue;
        }
        let word = |i: usize| format!("{}{}", ["b", "a", "é", "B", ""][i % 5], i % 7);
        let mut obj = Map::new();
        let mut obj2 = Map::new();
        for i in 0..n {
            obj.insert(format!("k{:04}", (i * 7919) % 10007), json!(i));
            obj2.insert(format!("k{:04}", (i * 7919) % 10007 + i % 2), json!(-(i as i64)));
        }
        let doc = json!({
            "desc": (0..n as i64).rev().map(|i| i / 2).collect::<Vec<i64>>(),
            "saw": (0..n as i64).map(|i| (i * 37) % 11).collect::<Vec<i64>>(),
            "strs": (0..n).map(word).collect::<Vec<String>>(),
            "recs": (0..n).map(|i| json!({"id": i, "k": (n - i) / 3, "s": word(i)})).collect::<Vec<Value>>(),
            "str": (0..n).map(|i| ["a", "b", "é", "日", "y", "z"][i % 6]).collect::<String>(),
            "obj": obj, "obj2": obj2,
            "pairs": (0..n).map(|i| json!([i, []])).collect::<Vec<Value>>(),
            "groups": (0..n.min(40)).map(|g| json!({"team": format!("t{}", g), "members": (0..1 + (g * 7) % 5).map(|m| json!({"age": (g * 31 + m * 17) % 23})).collect::<Vec<Value>>()})).collect::<Vec<Value>>(),
        });
        let input = rcvar_of(&doc);
        for (k, text) in EXPRS.iter().enumerate() {
            rep.evaluations += 1;
            let want = ev.eval(&trees[k], &doc);
            let got = guarded(|| jmespath::compile(text).and_then(|e| e.search(&input)));
            let name = text.split('(').next().unwrap_or("");
            let ok = match (&want, &got) {
                (Err(e), _) if matches!(e.kind, ErrKind::Unconstrained(_)) => true,
                (Ok(x), Ok(Ok(g))) => value_of(g).map_or(false, |g| match name {
                    "to_string" => g.as_str().and_then(|t| parse_json(t, 64).ok()).map_or(false, |p| {
                        let arg = text.trim_start_matches("to_string(").trim_end_matches(')');
                        if arg == "[recs, recs]" { val_eq(&p, &json!([doc["recs"], doc["recs"]]), 0.0) } else { val_eq(&p, &doc[arg], 0.0) }
                    }),
                    "avg" | "sum" => val_eq(x, &g, 1e-9),
                    _ => canon_value(x) == canon_value(&g) || (matches!(name, "max" | "min") && val_eq(x, &g, 0.0)),
                }),
                (Err(e), Ok(Err(g))) => e.class() == err_class(g),
                _ => false,
            };
            if ok {
                rep.count("size_sweep_ok");
                if n > 1 {
                    rep.nontrivial(fnv(format!("size|{}|{}", text, n).as_bytes()));
                }
            } else {
                let shorten = |s: String| if s.len() > 400 { format!("{}… ({} bytes)", s.chars().take(400).collect::<String>(), s.len()) } else { s };
                rep.violation(
                    &format!("C02/wrong-value/size-sweep/fn={}", name),
                    json!({"expression": text, "size": n, "expected": shorten(format!("{:?}", want.as_ref().map(|v| v.to_string()).map_err(|e| e.class()))),
                           "got": shorten(format!("{:?}", got.map(|r| r.map(|v| v.to_string()).map_err(|e| e.to_string()))))}),
                );
            }
        }
    }
}

/// String functions over LONG strings made of one repeated character (1, 2, 3 and 4 bytes wide), behind
/// 0..8 bytes of ASCII: anything that looks at text a word / a block at a time meets every alignment and
/// every block boundary with every character width.
fn string_sweep(rep: &mut Report, args: &Args, ev: &Evaluator, strict: &Opts) {
    const EXPRS: [&str; 24] = [
        "length(s)", "length(t)", "[length(s), length(t), length(u)]", "reverse(s)", "contains(s, c)", "contains(t, c)", "starts_with(t, p)", "ends_with(s, c)", "ends_with(u, c)",
        "join('', [s, t]) | length(@)", "join(s, ['x', 'y']) | length(@)", "sort([t, s, u])[0] | length(@)", "max([s, t]) == t", "to_string(s) | length(@)", "s == t", "map(&length(@), [s, t, u, p, c])",
        // the search is LONGER than the subject and extends it (never a prefix / suffix / part of something shorter)
        "starts_with(s, t)", "ends_with(s, u)", "starts_with(c, s)", "ends_with(c, s)", "contains(c, s)", "contains(s, t)", "ends_with(c, t)", "starts_with(p, s)",
    ];
    let mut sizes: Vec<usize> = (0..=40).collect();
    sizes.extend_from_slice(&[63, 64, 65, 127, 128, 129, 255, 256, 257, 511, 512, 513, 1023, 1024, 1025, 1200, 2047, 2048, 2049, 3000, 4095, 4096, 4097, 5000, 8191, 8192, 8193]);
    if args.tier == "thorough" {
        sizes.extend(41..=300);
        sizes.extend_from_slice(&[16383, 16384, 16385, 32768, 65535, 65536, 65537, 131072, 300_000]);
    }
    let trees: Vec<_> = EXPRS.iter().map(|t| parse(t, strict).expect("sweep expression parses")).collect();
    let mut case = 0u64;
    for &n in sizes.iter() {
        for ch in ["a", "é", "я", "日", "😀", "\u{7f}", "\u{80}", "\u{7ff}", "\u{800}", "\u{ffff}", "\u{10000}"] {
            for pre in [0usize, 1, 3, 7] {
                case += 1;
                if case % args.shards != args.shard || (n > 300 && pre != 0 && (case / args.shards) % 3 != 0) {
                    continue;
                }
                let prefix = "abcdefgh"[..pre].to_string();
                let doc = json!({"s": format!("{}{}", prefix, ch.repeat(n)), "t": format!("{}{}z", prefix, ch.repeat(n)), "u": format!("{}{}", ch.repeat(n), prefix), "c": ch, "p": prefix});
                let input = rcvar_of(&doc);
                for (k, text) in EXPRS.iter().enumerate() {
                    rep.evaluations += 1;
                    let want = ev.eval(&trees[k], &doc);
                    let got = guarded(|| jmespath::compile(text).and_then(|e| e.search(&input)));
                    let ok = match (&want, &got) {
                        (Err(e), _) if matches!(e.kind, ErrKind::Unconstrained(_)) => true,
                        (Ok(x), Ok(Ok(g))) => value_of(g).map_or(false, |g| canon_value(x) == canon_value(&g)),
                        (Err(e), Ok(Err(g))) => e.class() == err_class(g),
                        _ => false,
                    };
                    if ok {
                        rep.count("string_sweep_ok");
                        if n > 1 {
                            rep.nontrivial(fnv(format!("strsize|{}|{}|{}|{}", text, n, ch, pre).as_bytes()));
                        }
                    } else {
                        let shorten = |s: String| if s.len() > 200 { format!("{}… ({} bytes)", s.chars().take(200).collect::<String>(), s.len()) } else { s };
                        rep.violation(
                            &format!("C02/wrong-value/string-sweep/fn={}", text.split('(').next().unwrap_or("")),
                            json!({"expression": text, "repeated_character": ch, "repetitions": n, "ascii_prefix_bytes": pre,
                                   "expected": shorten(format!("{:?}", want.as_ref().map(|v| v.to_string()).map_err(|e| e.class()))),
                                   "got": shorten(format!("{:?}", got.map(|r| r.map(|v| v.to_string()).map_err(|e| e.to_string()))))}),
                        );
                    }
                }
            }
        }
    }
}

/// `contains` (and the equality behind it) on containers whose members are the very same nodes of the
/// document under equal / different names and positions.
fn shared_node_containers(rep: &mut Report, args: &Args) {
    if args.shard != 0 {
        return;
    }
    let doc = json!({"a": 5, "b": {"c": [1]}, "s": "x", "n": null});
    for m in ["a", "b", "b.c", "s", "n"] {
        for (text, want) in [
            (format!("contains([{{p: {m}}}], {{q: {m}}})", m = m), false),
            (format!("contains([{{p: {m}}}], {{p: {m}}})", m = m), true),
            (format!("contains([[{m}]], [{m}])", m = m), true),
            (format!("contains([[{m}, {m}]], [{m}])", m = m), false),
            (format!("contains([{{p: {m}, q: a}}], {{p: a, q: {m}}})", m = m), m == "a"),
            (format!("contains([{{p: {m}}}, {{q: {m}}}], {{q: {m}}})", m = m), true),
            (format!("contains([{m}], {m})", m = m), true),
        ] {
            rep.evaluations += 1;
            match guarded(|| jmespath::compile(&text).and_then(|e| e.search(rcvar_of(&doc)))) {
                Ok(Ok(v)) if v.as_boolean() == Some(want) => rep.count("shared_node_containers_ok"),
                other => rep.violation(
                    "C02/wrong-value/fn=contains/shared-nodes",
                    json!({"expression": text, "document": doc, "expected": want, "got": format!("{:?}", other.map(|r| r.map(|v| v.to_string()).map_err(|e| e.to_string())))}),
                ),
            }
        }
    }
}

fn direct_call(rep: &mut Report, ev: &Evaluator, strict: &Opts, rng: &mut Rng, i: u64) {
    let name = refimpl::eval::BUILTIN_NAMES[rng.below(26)];
    CLOSE_USED.with(|c| c.set(false));
    let a = gen_args(name, rng);
    let use_paths = rng.chance(1, 2) || CLOSE_USED.with(|c| c.get());
    let mut doc = Map::new();
    let mut texts = vec![];
    let mut ref_args = vec![];
    for (k, x) in a.iter().enumerate() {
        match x {
            A::V(v) => {
                if use_paths {
                    doc.insert(format!("p{}", k), v.clone());
                    texts.push(format!("p{}", k));
                } else {
                    texts.push(spell_literal(v, (rng.below(3)) as u8));
                }
                ref_args.push(Arg::Val(v.clone()));
            }
            A::E(src) => {
                texts.push(src.to_string());
                ref_args.push(Arg::Expref(parse(&src[1..], strict).expect("expref parses")));
            }
        }
    }
    let text = format!("{}({})", name, texts.join(", "));
    let docv = Value::Object(doc);
    rep.evaluations += 1;
    let expected = ev.call_builtin(name, &ref_args, 0);
    let got = guarded(|| jmespath::compile(&text).and_then(|e| e.search(rcvar_of(&docv))));
    let witness = |exp: String, got: String| json!({"expression": text, "document": docv, "expected": exp, "got": got});
    let got = match got {
        Ok(g) => g,
        Err(p) => {
            rep.violation(&format!("C02/panic/fn={}/{}", name, panic_site(&p)), witness("".into(), p));
            return;
        }
    };
    match (expected, got) {
        (Err(e), _) if matches!(e.kind, ErrKind::Unconstrained(_)) => rep.count("unconstrained_skipped"),
        (Err(e), Err(g)) => {
            if e.class() == err_class(&g) {
                rep.count("agree_error");
            } else {
                rep.violation(&format!("C02/error-mismatch/fn={}", name), witness(e.class().into(), g.to_string()));
            }
        }
        (Err(e), Ok(g)) => rep.violation(&format!("C02/expected-error/fn={}", name), witness(e.class().into(), g.to_string())),
        (Ok(x), Err(g)) => rep.violation(&format!("C02/unexpected-error/fn={}", name), witness(x.to_string(), g.to_string())),
        (Ok(x), Ok(g)) => {
            let gv = match value_of(&g) {
                Ok(v) => v,
                Err(w) => {
                    rep.violation(&format!("C02/non-json-result/fn={}", name), witness(x.to_string(), w.into()));
                    return;
                }
            };
            let ok = match name {
                // copies of inputs: exact identity (stability and int/float spelling observable)
                "sort" | "sort_by" | "reverse" | "to_array" | "not_null" | "map" | "values" | "merge" | "keys" => {
                    canon_value(&x) == canon_value(&gv)
                }
                // which of several equal values is returned is not constrained
                "max" | "min" => val_eq(&x, &gv, 0.0),
                "max_by" | "min_by" => {
                    if let (Arg::Val(Value::Array(arr)), Arg::Expref(e)) = (&ref_args[0], &ref_args[1]) {
                        let keys: Vec<Value> = arr.iter().map(|el| ev.eval(e, el).unwrap_or(Value::Null)).collect();
                        extreme_key_ok(name, arr, &keys, &gv)
                    } else {
                        false
                    }
                }
                "sum" | "avg" => {
                    let scale: f64 = match &ref_args[0] {
                        Arg::Val(Value::Array(a)) => a.iter().map(|v| v.as_f64().unwrap_or(0.0).abs()).sum::<f64>().max(1e-300),
                        _ => 1.0,
                    };
                    match (x.as_f64(), gv.as_f64()) {
                        (Some(p), Some(q)) => (p - q).abs() <= 1e-9 * scale,
                        _ => x.is_null() && gv.is_null(),
                    }
                }
                "to_string" => match (&ref_args[0], &gv) {
                    (Arg::Val(Value::String(s)), Value::String(t)) => s == t,
                    (Arg::Val(v), Value::String(t)) => parse_json(t, 200).map_or(false, |p| val_eq(&p, v, 0.0)),
                    _ => false,
                },
                "to_number" => gv.is_null() && x.is_null() || (gv.is_number() && val_eq(&x, &gv, 1e-15)),
                _ => val_eq(&x, &gv, 1e-12),
            };
            if ok {
                rep.count(&format!("agree/{}", name));
                let nontrivial = match &ref_args[0] {
                    Arg::Val(Value::Array(a)) => a.len() >= 2,
                    Arg::Val(Value::String(s)) => !s.is_empty(),
                    Arg::Val(Value::Object(o)) => !o.is_empty(),
                    _ => true,
                };
                if nontrivial {
                    rep.nontrivial(fnv(text.as_bytes()) ^ fnv(docv.to_string().as_bytes()));
                }
                if let Arg::Val(Value::Array(a)) = &ref_args[0] {
                    if a.len() > 20 {
                        rep.count(&format!("arrays_over_20/{}", name));
                    }
                }
                if i % 997 == 0 {
                    rep.sample_family(name, 1, json!({"expression": text, "document": docv, "result": gv}));
                }
            } else {
                rep.violation(&format!("C02/wrong-value/fn={}", name), witness(x.to_string(), gv.to_string()));
            }
        }
    }
}

/// Expression references are evaluated exactly once per element, against that element.
fn recorded_call(rep: &mut Report, rt: &Runtime, rng: &mut Rng) {
    let kk = rng.below(2);
    let arr = records(rng, kk);
    let (text, by) = match rng.below(5) {
        0 => ("sort_by(@, &rec(@).k)", true),
        1 => ("max_by(@, &rec(@).k)", true),
        2 => ("min_by(@, &rec(@).k)", true),
        3 => ("map(&rec(@), @)", false),
        _ => ("map(&rec(@).k, @)", false),
    };
    let _ = by;
    rep.evaluations += 1;
    RECORDED.with(|r| r.borrow_mut().clear());
    let got = guarded(|| rt.compile(text).and_then(|e| e.search(rcvar_of(&arr))));
    let mut seen: Vec<String> = RECORDED.with(|r| r.borrow().clone());
    match got {
        Ok(Ok(_)) => {
            let mut want: Vec<String> = arr.as_array().unwrap().iter().map(|e| rcvar_of(e).to_string()).collect();
            want.sort();
            seen.sort();
            if want == seen {
                rep.count("expref_once_per_element_ok");
                if want.len() >= 2 {
                    rep.nontrivial(fnv(text.as_bytes()) ^ fnv(arr.to_string().as_bytes()));
                }
                rep.add("recorded_expref_evaluations", seen.len() as u64);
            } else {
                rep.violation(
                    &format!("C02/expref-not-once-per-element/{}", text.split('(').next().unwrap()),
                    json!({"expression": text, "document": arr, "elements": want.len(), "evaluations_recorded": seen.len()}),
                );
            }
        }
        other => rep.violation("C02/recorded-call-failed", json!({"expression": text, "document": arr, "got": format!("{:?}", other.map(|r| r.map(|v| v.to_string())))})),
    }
}

/// Calls nested inside projections and other calls, against the reference evaluator.
fn nested(rep: &mut Report, ev: &Evaluator, strict: &Opts, rng: &mut Rng, args: &Args, i: u64) {
    let base = gen_doc(rng, 4);
    let tree = {
        let mut g = TreeGen {
            rng,
            cfg: GenCfg { calls: true, depth: 3 },
        };
        g.pipeline(&base, 3, 4)
    };
    let mut ncalls = 0;
    let mut avoid = false;
    walk(&tree, &mut |s| {
        if let Step::Call(n, ..) = s {
            ncalls += 1;
            // results whose exact value is not fixed by the statement when nested
            if n == "to_string" || n == "max_by" || n == "min_by" || n == "sum" || n == "avg" {
                avoid = true;
            }
        }
    });
    if ncalls == 0 || avoid {
        rep.count("nested_without_suitable_call_skipped");
        return;
    }
    let text0 = match Printer::new(rng).emit(&tree) {
        Ok(t) => t,
        Err(_) => return,
    };
    let want = canon(&tree);
    match parse(&text0, strict) {
        Ok(q) if canon(&q) == want => {}
        _ => {
            rep.harness_error(format!("printer/parser self-check failed for {:?}", text0));
            return;
        }
    }
    let text = respace(&minimize_parens(&text0, rng, 50, strict), rng);
    let expr = match guarded(|| jmespath::compile(&text)) {
        Ok(Ok(e)) => e,
        other => {
            rep.violation("C02/nested-expression-rejected", json!({"expression": text, "got": format!("{:?}", other.map(|r| r.map(|_| ())))}));
            return;
        }
    };
    let docs = vec![base.clone(), mutate_doc(rng, &base), mutate_doc(rng, &base)];
    for d in &docs {
        rep.evaluations += 1;
        let expected = ev.eval(&tree, d);
        let got = guarded(|| expr.search(rcvar_of(d)));
        let witness = |exp: String, got: String| json!({"expression": text, "document": d, "expected": exp, "got": got, "seed": args.seed, "shard": args.shard, "index": i});
        let got = match got {
            Err(p) => {
                rep.violation(&format!("C02/panic-nested/{}", panic_site(&p)), witness("".into(), p));
                continue;
            }
            Ok(g) => g,
        };
        // normalise the crate's outcome
        let got_n: Result<Value, &'static str> = match &got {
            Ok(v) => match value_of(v) {
                Ok(j) => Ok(j),
                Err(w) => {
                    rep.violation("C02/nested-non-json", witness(format!("{:?}", expected.as_ref().map(|v| v.to_string())), w.into()));
                    continue;
                }
            },
            Err(e) => Err(err_class(e)),
        };
        let agree = match (&expected, &got_n) {
            (Err(e), _) if matches!(e.kind, ErrKind::Unconstrained(_)) => {
                rep.count("unconstrained_skipped");
                continue;
            }
            (Ok(x), Ok(g)) => val_eq(x, g, 1e-12),
            (Err(e), Err(c)) => e.class() == *c,
            _ => false,
        };
        if agree {
            match &expected {
                Ok(x) => {
                    rep.count("nested_agree_value");
                    if !x.is_null() {
                        rep.nontrivial(fnv(want.as_bytes()) ^ fnv(d.to_string().as_bytes()));
                        if i % 499 == 3 {
                            rep.sample_family("nested", 3, json!({"expression": text, "document": d, "result": x}));
                        }
                    }
                }
                Err(_) => rep.count("nested_agree_error"),
            }
        } else if d15_explains(ev, &text, &want, d, &got_n) {
            rep.count("known_deviation_D15_inputs_skipped");
        } else {
            let exp = match &expected {
                Ok(x) => x.to_string(),
                Err(e) => format!("error:{}", e.class()),
            };
            let g = match &got {
                Ok(v) => v.to_string(),
                Err(e) => e.to_string(),
            };
            rep.violation("C02/nested-mismatch", witness(exp, g));
        }
    }
}
