//! Re-runs one recorded witness against the current tree and prints what the
//! real code does now (so a human can see whether the violation still occurs).

use crate::common::*;
use serde_json::{json, Value};

fn texts(w: &Value) -> Vec<String> {
    let mut out = vec![];
    for k in ["expression", "compound", "minimal", "parenthesised", "call", "source", "spelling", "text"] {
        if let Some(s) = w.get(k).and_then(|v| v.as_str()) {
            out.push(s.to_string());
        }
    }
    out
}

pub fn run(args: &Args) {
    let path = args.kv.get("file").cloned().expect("--file");
    let rec: Value = serde_json::from_str(&std::fs::read_to_string(&path).expect("read replay")).expect("replay json");
    let w = &rec["witness"];
    println!("replaying {} ({})", path, rec["signature"]);
    let doc = w.get("document").cloned().unwrap_or(Value::Null);
    let exprs = texts(w);
    if exprs.is_empty() {
        println!("this witness has no expression text; see the 'how'/'cmd' field: {}", w);
        return;
    }
    for e in exprs {
        let c = guarded(|| jmespath::compile(&e));
        match c {
            Err(p) => println!("compile({:?}) PANICS: {}", e, p),
            Ok(Err(err)) => println!("compile({:?}) -> Err {}", e, err_json(&err)),
            Ok(Ok(x)) => {
                println!("compile({:?}) -> Ok; ast = {:?}", e, x.as_ast());
                match guarded(|| x.search(rcvar_of(&doc))) {
                    Err(p) => println!("  search(document) PANICS: {}", p),
                    Ok(Err(err)) => println!("  search({}) -> Err {}", doc, err_json(&err)),
                    Ok(Ok(v)) => println!("  search({}) -> {}", doc, v),
                }
            }
        }
    }
    println!("recorded witness: {}", json!(w));
}
