//! Validates the reference model against the repository's own compliance data
//! before any monitor believes it. A disagreement is a HARNESS error.

use crate::common::*;
use refimpl::eval::{Builtins, ErrKind, Evaluator};
use refimpl::json::val_eq;
use refimpl::parse::{parse, Opts, ParseErr};
use serde_json::{json, Value};

pub fn compliance_dir() -> String {
    std::env::var("VERIF_COMPLIANCE_DIR")
        .unwrap_or_else(|_| concat!(env!("CARGO_MANIFEST_DIR"), "/../../work/snapshot/jmespath/tests/compliance").to_string())
}

pub fn run(args: &Args) {
    let mut rep = Report::new("refcheck");
    let suites = load_compliance(&compliance_dir());
    if suites.is_empty() {
        rep.harness_error("no compliance suites found".into());
    }
    let ev = Evaluator::new(&Builtins);
    let strict = Opts::strict();
    for (file, given, cases) in &suites {
        for case in cases {
            let expr = match case["expression"].as_str() {
                Some(e) => e,
                None => continue,
            };
            rep.evaluations += 1;
            if case.get("bench").is_some() && case.get("result").is_none() && case.get("error").is_none() {
                rep.count("bench_only_no_expectation");
                continue;
            }
            let want_err = case.get("error").and_then(|e| e.as_str());
            let parsed = parse(expr, &strict);
            match (&parsed, want_err) {
                (Err(ParseErr::TooDeep), _) => {
                    rep.count("too_deep");
                    continue;
                }
                (Err(_), Some("syntax")) => {
                    rep.count("agree_syntax_error");
                    continue;
                }
                (Err(e), _) => {
                    rep.harness_error(format!("{}: reference rejects {:?} ({:?}) but suite expects {:?}", file, expr, e, case));
                    continue;
                }
                (Ok(_), Some("syntax")) => {
                    rep.harness_error(format!("{}: reference accepts {:?} but suite expects a syntax error", file, expr));
                    continue;
                }
                _ => {}
            }
            let tree = parsed.unwrap();
            let got = ev.eval(&tree, given);
            match (got, want_err) {
                (Err(e), Some(w)) => {
                    let ok = match (&e.kind, w) {
                        (ErrKind::Type, "invalid-type") => true,
                        (ErrKind::Arity, "invalid-arity") => true,
                        (ErrKind::UnknownFunction(_), "unknown-function") => true,
                        (ErrKind::InvalidSlice, "invalid-value") => true,
                        (ErrKind::Unconstrained(_), _) => true,
                        _ => false,
                    };
                    if ok {
                        rep.count("agree_runtime_error");
                    } else {
                        rep.harness_error(format!("{}: {:?}: reference error {:?}, suite expects {}", file, expr, e.kind, w));
                    }
                }
                (Ok(v), Some(w)) => {
                    rep.harness_error(format!("{}: {:?}: reference returns {} but suite expects error {}", file, expr, v, w))
                }
                (Err(e), None) => {
                    if let ErrKind::Unconstrained(_) = e.kind {
                        rep.count("unconstrained");
                    } else if case.get("result").is_some() {
                        rep.harness_error(format!("{}: {:?}: reference error {:?} but suite expects {}", file, expr, e.kind, case["result"]))
                    }
                }
                (Ok(v), None) => {
                    if let Some(want) = case.get("result") {
                        if val_eq(&v, want, 1e-12) {
                            rep.count("agree_result");
                        } else {
                            rep.harness_error(format!("{}: {:?}: reference gives {} but suite expects {}", file, expr, v, want));
                        }
                    } else {
                        rep.count("no_expectation");
                    }
                }
            }
        }
    }
    rep.extra.insert("suites".into(), json!(suites.len()));
    let bad = !rep.harness_errors.is_empty();
    emit_report(args, &rep);
    if bad {
        std::process::exit(2);
    }
}

/// Documents of the compliance suites (used as realistic inputs).
pub fn compliance_docs() -> Vec<Value> {
    load_compliance(&compliance_dir()).into_iter().map(|(_, g, _)| g).collect()
}
