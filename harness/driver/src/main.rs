//! Driver: runs the real jmespath crate (snapshot of /repo) under generated
//! workloads and lets the monitors observe. One subcommand per property.

mod common;
mod refcheck;
mod replay;
mod c01;
mod c02;
mod c03;
mod c04;
mod c05;
mod c06;
mod c07;
mod c08;
mod c09;
mod c10;
mod c11;
mod c12;
mod c13;
mod c14;
mod c15;
mod c18;

use common::*;

fn main() {
    let argv: Vec<String> = std::env::args().skip(1).collect();
    if argv.is_empty() {
        eprintln!("usage: driver <subcommand> [--seed S] [--n N] [--shard i/k] [--out file]");
        std::process::exit(2);
    }
    let args = parse_args(&argv[1..]);
    install_quiet_panic_hook();
    match argv[0].as_str() {
        "refcheck" => refcheck::run(&args),
        "replay" => replay::run(&args),
        "c01" => c01::run(&args),
        "c02" => c02::run(&args),
        "c03" => c03::run(&args),
        "c04" => c04::run(&args),
        "c05" => c05::run(&args),
        "c06" => c06::run(&args),
        "c07" => c07::run(&args),
        "c08" => c08::run(&args),
        "c09" => c09::run(&args),
        "c10" => c10::run(&args),
        "c11" => c11::run(&args),
        "c12" => c12::run(&args),
        "c13" => c13::run(&args),
        "c13truth" => c13::run_truth(&args),
        "c14" => c14::run(&args),
        "c15" => c15::run(&args),
        "c18gen" => c18::run(&args),
        "c05depth" => c05::run_depth(&args),
        "c05case" => c05::run_one(&args),
        other => {
            eprintln!("unknown subcommand {}", other);
            std::process::exit(2);
        }
    }
}
