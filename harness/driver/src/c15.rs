//! C15 — calls follow the runtime registry; custom functions receive evaluated
//! arguments. Random register/deregister histories are replayed against a
//! small sequential model; every registered function is a recording closure
//! with a unique id.

use crate::common::*;
use jmespath::functions::{ArgumentType, CustomFunction, Function, Signature};
use jmespath::{Context, Rcvar, Runtime, Variable};
use refimpl::eval::{type_ok, Arg, Builtins, Evaluator, T};
use refimpl::parse::{parse, Opts};
use refimpl::rng::{fnv, Rng};
use serde_json::{json, Value};
use std::cell::RefCell;
use std::collections::HashMap;

#[derive(Clone, Debug)]
struct CallRec {
    id: u64,
    args: Vec<String>,
    expression: String,
}

thread_local! {
    static LOG: RefCell<Vec<CallRec>> = RefCell::new(Vec::new());
}

fn show_arg(a: &Rcvar) -> String {
    match &**a {
        // tree shape only: offsets are not part of what the statement fixes
        Variable::Expref(ast) => match lift(ast) {
            Ok(p) => format!("EXPREF:{}", refimpl::nf::canon(&p)),
            Err(u) => format!("EXPREF:unliftable:{}", u.0),
        },
        other => format!("VAL:{}", other),
    }
}

fn recorder(id: u64, passthrough: bool) -> Box<dyn Fn(&[Rcvar], &mut Context<'_>) -> Result<Rcvar, jmespath::JmespathError> + Sync + Send> {
    Box::new(move |a: &[Rcvar], ctx: &mut Context<'_>| {
        LOG.with(|l| {
            l.borrow_mut().push(CallRec {
                id,
                args: a.iter().map(show_arg).collect(),
                expression: ctx.expression.to_string(),
            })
        });
        if passthrough && !a.is_empty() {
            Ok(a[0].clone())
        } else {
            Ok(rcvar_of(&json!({ "called": id })))
        }
    })
}

#[derive(Clone, Debug, PartialEq)]
enum Entry {
    Builtin,
    Plain(u64),
    Signed(u64, usize),
}

const NAMES: [&str; 8] = ["length", "abs", "type", "not_null", "f", "g", "rec", "Length"];

/// Names that are easy to confuse in a table keyed by anything less than the whole name:
/// same length and long common prefix, same prefix and different length, case variants,
/// prefixes and extensions of built-in names.
const CONFUSABLE: [&str; 24] = [
    "custom_function_a", "custom_function_b", "custom_function_c", "custom_function_ab", "custom_function_", "Custom_function_a",
    "a_very_long_function_name_0001", "a_very_long_function_name_0002", "a_very_long_function_name_0010", "a_very_long_function_name_1001",
    "sort_b", "sort_by_", "sort_bY", "len", "lengthy", "to_strin", "to_string2", "_", "__", "f0", "f1", "F", "ab", "ba",
];

/// The names one history works with: the fixed core plus a few confusable ones.
fn history_names(rng: &mut Rng) -> Vec<&'static str> {
    let mut v: Vec<&'static str> = NAMES.to_vec();
    let start = rng.below(CONFUSABLE.len());
    for k in 0..4 {
        v.push(CONFUSABLE[(start + k) % CONFUSABLE.len()]);
    }
    v
}

/// Harness-side description of an argument type (independent of the crate's validator).
#[derive(Clone, Debug)]
enum Spec {
    Any,
    Null,
    Str,
    Num,
    Bool,
    Obj,
    Arr,
    Expref,
    Typed(Box<Spec>),
    Union(Vec<Spec>),
}

impl Spec {
    fn to_crate(&self) -> ArgumentType {
        match self {
            Spec::Any => ArgumentType::Any,
            Spec::Null => ArgumentType::Null,
            Spec::Str => ArgumentType::String,
            Spec::Num => ArgumentType::Number,
            Spec::Bool => ArgumentType::Bool,
            Spec::Obj => ArgumentType::Object,
            Spec::Arr => ArgumentType::Array,
            Spec::Expref => ArgumentType::Expref,
            Spec::Typed(t) => ArgumentType::TypedArray(Box::new(t.to_crate())),
            Spec::Union(ts) => ArgumentType::Union(ts.iter().map(|t| t.to_crate()).collect()),
        }
    }
    /// Some(accepted) or None when the specification does not say (Any meets an expref).
    fn accepts(&self, a: &Arg) -> Option<bool> {
        match (self, a) {
            (Spec::Any, Arg::Expref(_)) => None,
            (Spec::Any, _) => Some(true),
            (Spec::Expref, Arg::Expref(_)) => Some(true),
            (Spec::Union(ts), a) => {
                let rs: Vec<Option<bool>> = ts.iter().map(|t| t.accepts(a)).collect();
                if rs.iter().any(|r| *r == Some(true)) {
                    Some(true)
                } else if rs.iter().any(|r| r.is_none()) {
                    None
                } else {
                    Some(false)
                }
            }
            (_, Arg::Expref(_)) => Some(false),
            (s, Arg::Val(v)) => Some(match (s, v) {
                (Spec::Null, Value::Null) => true,
                (Spec::Str, Value::String(_)) => true,
                (Spec::Num, Value::Number(_)) => true,
                (Spec::Bool, Value::Bool(_)) => true,
                (Spec::Obj, Value::Object(_)) => true,
                (Spec::Arr, Value::Array(_)) => true,
                (Spec::Typed(t), Value::Array(xs)) => {
                    let mut all = true;
                    for x in xs {
                        match t.accepts(&Arg::Val(x.clone())) {
                            Some(true) => {}
                            _ => all = false,
                        }
                    }
                    all
                }
                _ => false,
            }),
        }
    }
}

fn rich_signature(k: usize) -> (Vec<Spec>, Option<Spec>) {
    let typed = |s: Spec| Spec::Typed(Box::new(s));
    match k {
        4 => (vec![typed(typed(Spec::Num))], None),
        5 => (vec![typed(Spec::Union(vec![Spec::Str, typed(Spec::Num)]))], None),
        6 => (vec![Spec::Str], Some(Spec::Num)),
        7 => (vec![Spec::Union(vec![Spec::Null, Spec::Bool]), Spec::Arr], Some(Spec::Union(vec![Spec::Str, Spec::Expref]))),
        8 => (vec![typed(Spec::Obj), Spec::Union(vec![Spec::Num, typed(Spec::Str)])], None),
        // signatures that accept any value still fix the number of arguments
        10 => (vec![Spec::Any, Spec::Any], Some(Spec::Any)),
        11 => (vec![Spec::Any], None),
        12 => (vec![Spec::Any, Spec::Num], Some(Spec::Any)),
        13 => (vec![], Some(Spec::Any)),
        14 => (vec![], None),
        15 => (vec![Spec::Any, Spec::Any, Spec::Any], None),
        _ => (vec![typed(typed(Spec::Union(vec![Spec::Num, Spec::Str]))), Spec::Bool], Some(typed(Spec::Bool))),
    }
}

fn signature(k: usize) -> (Signature, Vec<T>, Option<T>) {
    if k >= 4 {
        let (ps, v) = rich_signature(k);
        return (Signature::new(ps.iter().map(|p| p.to_crate()).collect(), v.map(|x| x.to_crate())), vec![], None);
    }
    match k {
        0 => (Signature::new(vec![ArgumentType::Number], None), vec![T::Number], None),
        1 => (Signature::new(vec![ArgumentType::String, ArgumentType::Array], None), vec![T::String, T::Array], None),
        2 => (Signature::new(vec![ArgumentType::Object], Some(ArgumentType::Number)), vec![T::Object], Some(T::Number)),
        _ => (Signature::new(vec![ArgumentType::Expref, ArgumentType::Array], None), vec![T::Expref, T::Array], None),
    }
}

/// Independent signature decision: Ok(()) accepted, Err(class).
fn model_signature(k: usize, args: &[Arg]) -> Result<(), &'static str> {
    if k >= 4 {
        let (ps, v) = rich_signature(k);
        let n = ps.len();
        let arity_ok = if v.is_some() { args.len() >= n } else { args.len() == n };
        if !arity_ok {
            return Err("arity");
        }
        for (i, a) in args.iter().enumerate() {
            let t = if i < n { &ps[i] } else { v.as_ref().unwrap() };
            match t.accepts(a) {
                Some(true) => {}
                Some(false) => return Err("type"),
                None => return Err("unconstrained"),
            }
        }
        return Ok(());
    }
    let (_, params, variadic) = signature(k);
    let n = params.len();
    let arity_ok = if variadic.is_some() { args.len() >= n } else { args.len() == n };
    if !arity_ok {
        return Err("arity");
    }
    for (i, a) in args.iter().enumerate() {
        let t = if i < n { params[i] } else { variadic.unwrap() };
        if type_ok(t, a) != Some(true) {
            return Err("type");
        }
    }
    Ok(())
}

const ARG_TEXTS: [&str; 44] = [
    // expression references whose body contains operators: the body extends as far as an expression does
    "&a | b", "&a || `1`", "&a.b | [0]", "&b.c[-1] | d", "&!a", "&a == `1` | @", "&xs[*] | [0]", "&a && b || c",
    "xs[-1]", "xs[0]", "rows[-1].name", "[-1]", "b.c[-1].d", "xs[-2:]", "xs[1:]", "rows[*].name", "rows[?name == 'y'] | [0]", "@.a", "xs | [-1]", "b.c[0]", "*", "xs[5]", "xs[-5]", "b.c[-1]",
    "@", "`1`", "'s'", "`[1, 2]`", "`{\"a\": 1}`", "&@", "`-2.5`", "a", "`[[1], [2, 3]]`", "`[[1], [\"a\"]]`", "`[[\"a\"], [1]]`", "`[\"x\", [1], \"y\"]`",
    "`[[1], \"x\", [\"y\"]]`", "`true`", "`null`", "`[{}, {\"a\": 1}]`", "`[{}, 1]`", "`[]`", "`[[true], [false, true]]`", "`[[true], [1]]`",
];

fn arg_value(text: &str, doc: &Value, strict: &Opts, ev: &Evaluator) -> Arg {
    if let Some(e) = text.strip_prefix('&') {
        Arg::Expref(parse(e, strict).unwrap())
    } else {
        Arg::Val(ev.eval(&parse(text, strict).unwrap(), doc).unwrap())
    }
}

pub fn run(args: &Args) {
    let mut rep = Report::new("C15");
    let ev = Evaluator::new(&Builtins);
    let strict = Opts::strict();
    let ops_per_history: usize = args.kv.get("ops").and_then(|v| v.parse().ok()).unwrap_or(30);
    let mut next_id: u64 = 1;
    for h in 0..args.n {
        let mut rng = Rng::derive(args.seed, args.shard + 11000, h);
        let mut rt = Runtime::new();
        let mut model: HashMap<String, Entry> = HashMap::new();
        let mut trace: Vec<String> = vec![];
        let names = history_names(&mut rng);
        for _ in 0..ops_per_history {
            let name = names[rng.below(names.len())];
            match rng.below(10) {
                0 | 1 | 2 => {
                    let id = next_id;
                    next_id += 1;
                    rt.register_function(name, Box::new(recorder(id, false)));
                    model.insert(name.to_string(), Entry::Plain(id));
                    trace.push(format!("register({}, #{})", name, id));
                }
                3 | 4 => {
                    let id = next_id;
                    next_id += 1;
                    let k = rng.below(16);
                    rt.register_function(name, Box::new(CustomFunction::new(signature(k).0, recorder(id, false))));
                    model.insert(name.to_string(), Entry::Signed(id, k));
                    trace.push(format!("register_signed({}, #{}, sig{})", name, id, k));
                }
                5 | 6 | 7 => {
                    let got = rt.deregister_function(name).is_some();
                    let want = model.remove(name).is_some();
                    trace.push(format!("deregister({})", name));
                    rep.evaluations += 1;
                    if got != want {
                        rep.violation("C15/deregister-return-value", json!({"history": trace, "name": name, "returned_some": got, "model_had_entry": want}));
                    }
                }
                8 => {
                    rt.register_builtin_functions();
                    for b in refimpl::eval::BUILTIN_NAMES.iter() {
                        model.insert(b.to_string(), Entry::Builtin);
                    }
                    trace.push("register_builtin_functions()".into());
                }
                _ => {
                    rt = Runtime::new();
                    model.clear();
                    trace.push("Runtime::new()".into());
                }
            }
            // probes after every step
            let doc = [
                json!("abc"),
                json!(-3),
                json!([1, 2]),
                json!({"a": 1}),
                json!({"a": {"z": 0}, "xs": [1, 2, 3], "rows": [{"name": "x"}, {"name": "y"}], "b": {"c": [1, {"d": 2}]}}),
                json!({"a": "s", "xs": [[1], "t"], "rows": [], "b": {"c": [{"d": null}]}}),
            ][rng.below(6)]
            .clone();
            for probe in names.iter() {
                rep.evaluations += 1;
                let present = rt.get_function(probe).is_some();
                if present != model.contains_key(*probe) {
                    rep.violation("C15/get_function-disagrees-with-history", json!({"history": trace, "name": probe, "get_function_is_some": present}));
                }
                let nargs = rng.below(5);
                let texts: Vec<&str> = (0..nargs).map(|_| ARG_TEXTS[rng.below(ARG_TEXTS.len())]).collect();
                let wrap = rng.below(7);
                let call = format!("{}({})", probe, texts.join(", "));
                let (text, current, doc_used): (String, Value, Value) = match wrap {
                    0 | 1 => (call.clone(), doc.clone(), doc.clone()),
                    2 => (format!("x | {}", call), doc.clone(), json!({ "x": doc })),
                    // the call at the end of a chain whose earlier steps yield null: it is still a call
                    // (made with null as the current node), not something a null on the left may skip
                    3 => (format!("nothing_here | zz.{}", call), Value::Null, doc.clone()),
                    4 => (format!("nothing_here | zz[0].{}", call), Value::Null, doc.clone()),
                    5 => (format!("(nothing_here).zz.yy.{}", call), Value::Null, doc.clone()),
                    _ => (format!("[@][0] | {}", call), doc.clone(), doc.clone()),
                };
                // the same text compiled through the DEFAULT runtime first, on this thread: what another
                // runtime compiled (or cached) must not leak into this one
                if rng.chance(1, 3) {
                    let _ = guarded(|| jmespath::compile(&text).and_then(|e| e.search(rcvar_of(&doc_used))));
                }
                let ref_args: Vec<Arg> = texts.iter().map(|t| arg_value(t, &current, &strict, &ev)).collect();
                // model prediction
                #[derive(Debug)]
                enum Pred {
                    Called(u64),
                    Err(&'static str),
                    Builtin(Result<Value, &'static str>),
                    Skip,
                }
                let pred = match model.get(*probe) {
                    None => Pred::Err("unknown-function"),
                    Some(Entry::Plain(id)) => Pred::Called(*id),
                    Some(Entry::Signed(id, k)) => match model_signature(*k, &ref_args) {
                        Ok(()) => Pred::Called(*id),
                        Err("unconstrained") => Pred::Skip,
                        Err(c) => Pred::Err(c),
                    },
                    Some(Entry::Builtin) => match ev.call_builtin(probe, &ref_args, 0) {
                        Ok(v) => Pred::Builtin(Ok(v)),
                        Err(e) => match e.kind {
                            refimpl::eval::ErrKind::Unconstrained(_) => Pred::Skip,
                            _ => Pred::Builtin(Err(e.class())),
                        },
                    },
                };
                LOG.with(|l| l.borrow_mut().clear());
                let got = guarded(|| rt.compile(&text).and_then(|e| e.search(rcvar_of(&doc_used))));
                let log: Vec<CallRec> = LOG.with(|l| l.borrow().clone());
                let pred_s = format!("{:?}", pred);
                let got_s = format!("{:?}", got.as_ref().map(|r| r.as_ref().map(|v| v.to_string()).map_err(|e| e.to_string())));
                let w = |why: &str| json!({"history": trace, "call": text, "document": doc_used, "prediction": pred_s, "why": why, "got": got_s, "log": format!("{:?}", log)});
                let got = match got {
                    Ok(g) => g,
                    Err(p) => {
                        rep.violation(&format!("C15/panic/{}", panic_site(&p)), json!({"call": text, "panic": p}));
                        continue;
                    }
                };
                match pred {
                    Pred::Skip => rep.count("unconstrained_skipped"),
                    Pred::Called(id) => {
                        let ok_result = matches!(&got, Ok(v) if value_of(v).ok() == Some(json!({"called": id})));
                        let recs: Vec<&CallRec> = log.iter().filter(|r| r.id == id).collect();
                        if !ok_result || recs.len() != 1 || log.len() != 1 {
                            rep.violation("C15/wrong-function-called", w("expected exactly one invocation of the most recently registered function"));
                            continue;
                        }
                        // arguments: evaluated against the current node, in source order, exprefs unevaluated
                        let want: Vec<String> = ref_args
                            .iter()
                            .zip(texts.iter())
                            .map(|(a, t)| match a {
                                Arg::Val(v) => format!("VAL:{}", rcvar_of(v)),
                                Arg::Expref(p) => {
                                    let _ = t;
                                    format!("EXPREF:{}", refimpl::nf::canon(p))
                                }
                            })
                            .collect();
                        if recs[0].args != want {
                            rep.violation("C15/arguments-not-as-evaluated", w(&format!("expected arguments {:?}", want)));
                            continue;
                        }
                        if recs[0].expression != text {
                            rep.violation("C15/context-expression-wrong", w("ctx.expression must be the searched text"));
                            continue;
                        }
                        rep.count("custom_called_as_modelled");
                        rep.nontrivial(fnv(format!("{:?}|{}", trace, text).as_bytes()));
                    }
                    Pred::Err(cls) => match &got {
                        Err(e) if err_class(e) == cls && (cls != "unknown-function" || e.reason.to_string().ends_with(&format!(" {}", probe))) => {
                            if !log.is_empty() {
                                rep.violation("C15/function-invoked-despite-error", w("no function may run when the call is rejected"));
                            } else {
                                rep.count(&format!("rejected_as_modelled/{}", cls));
                                rep.nontrivial(fnv(format!("{:?}|{}", trace, text).as_bytes()));
                            }
                        }
                        _ => rep.violation("C15/outcome-disagrees-with-registry-model", w("expected an error of the predicted class")),
                    },
                    Pred::Builtin(b) => {
                        let same = match (&b, &got) {
                            (Ok(x), Ok(v)) => value_of(v).map_or(false, |g| refimpl::json::val_eq(x, &g, 1e-12)),
                            (Err(c), Err(e)) => err_class(e) == *c,
                            _ => false,
                        };
                        if same && log.is_empty() {
                            rep.count("builtin_called_as_modelled");
                        } else {
                            rep.violation("C15/outcome-disagrees-with-registry-model", w("expected the built-in's behaviour"));
                        }
                    }
                }
            }
        }
        rep.count("histories");
        if h == 0 {
            rep.sample(json!({"history": trace}));
        }
        // argument order / laziness with recording functions used as arguments
        order_probe(&mut rep, &mut rng, &mut next_id);
        if h % 8 == 0 {
            no_element_no_call(&mut rep, &mut next_id);
        }
        for _ in 0..6 {
            operand_probe(&mut rep, &mut rng, &mut next_id);
        }
        for _ in 0..4 {
            projection_probe(&mut rep, &mut rng, &mut next_id, &ev, &strict);
        }
    }
    emit_report(args, &rep);
}

fn order_probe(rep: &mut Report, rng: &mut Rng, next_id: &mut u64) {
    let mut rt = Runtime::new();
    rt.register_builtin_functions();
    let ids: Vec<u64> = (0..4)
        .map(|_| {
            *next_id += 1;
            *next_id
        })
        .collect();
    rt.register_function("r1", Box::new(recorder(ids[0], true)));
    rt.register_function("r2", Box::new(recorder(ids[1], true)));
    rt.register_function("r3", Box::new(recorder(ids[2], true)));
    rt.register_function("outer", Box::new(recorder(ids[3], false)));
    let doc = json!({"a": 1, "b": "x", "xs": [{"v": 1}, {"v": 2}, {"v": 3}]});
    let variant = rng.below(3);
    let (text, expected): (&str, Vec<(u64, Vec<String>)>) = match variant {
        0 => (
            "outer(r1(a), r2(b), &r3(@), r1(`7`))",
            vec![
                (ids[0], vec!["VAL:1".into()]),
                (ids[1], vec!["VAL:\"x\"".into()]),
                (ids[0], vec!["VAL:7".into()]),
                (ids[3], vec!["VAL:1".into(), "VAL:\"x\"".into(), format!("EXPREF:{}", refimpl::nf::canon(&parse("r3(@)", &Opts::strict()).unwrap())), "VAL:7".into()]),
            ],
        ),
        1 => (
            "xs[*].outer(r1(v), @)",
            vec![
                (ids[0], vec!["VAL:1".into()]),
                (ids[3], vec!["VAL:1".into(), "VAL:{\"v\":1}".into()]),
                (ids[0], vec!["VAL:2".into()]),
                (ids[3], vec!["VAL:2".into(), "VAL:{\"v\":2}".into()]),
                (ids[0], vec!["VAL:3".into()]),
                (ids[3], vec!["VAL:3".into(), "VAL:{\"v\":3}".into()]),
            ],
        ),
        _ => (
            "a | outer(r2(@), r1(@))",
            vec![(ids[1], vec!["VAL:1".into()]), (ids[0], vec!["VAL:1".into()]), (ids[3], vec!["VAL:1".into(), "VAL:1".into()])],
        ),
    };
    rep.evaluations += 1;
    LOG.with(|l| l.borrow_mut().clear());
    let got = guarded(|| rt.compile(text).and_then(|e| e.search(rcvar_of(&doc))));
    let log: Vec<(u64, Vec<String>)> = LOG.with(|l| l.borrow().iter().map(|r| (r.id, r.args.clone())).collect());
    if got.is_ok() && log == expected {
        rep.count("argument_order_and_laziness_ok");
    } else {
        rep.violation(
            "C15/argument-evaluation-order-or-laziness",
            json!({"expression": text, "expected_call_log": format!("{:?}", expected), "observed_call_log": format!("{:?}", log)}),
        );
    }
}

/// Both operands of a comparison are evaluated, once each and left to right, whatever the
/// left one yields; `&&` / `||` evaluate the right operand exactly when the specification's
/// short-circuit rule says so; multi-select members are evaluated once each in source order.
fn operand_probe(rep: &mut Report, rng: &mut Rng, next_id: &mut u64) {
    let mut rt = Runtime::new();
    rt.register_builtin_functions();
    *next_id += 2;
    let (i1, i2) = (*next_id - 1, *next_id);
    rt.register_function("r1", Box::new(recorder(i1, true)));
    rt.register_function("r2", Box::new(recorder(i2, true)));
    const OPERANDS: [(&str, bool); 10] = [
        ("'s'", true), ("`1`", true), ("`null`", false), ("`false`", false), ("`[]`", false), ("`{}`", false), ("''", false), ("`0`", true), ("name", true), ("missing", false),
    ];
    const OPS: [&str; 8] = ["==", "!=", "<", "<=", ">", ">=", "&&", "||"];
    let (x, xt) = OPERANDS[rng.below(OPERANDS.len())];
    let (y, _) = OPERANDS[rng.below(OPERANDS.len())];
    let op = OPS[rng.below(OPS.len())];
    let form = rng.below(4);
    // sometimes one operand is a bare literal / member instead of a call: the call on the other side is still made
    let bare = rng.below(4);
    let text = match form {
        0 if bare == 0 => format!("{} {} r2({})", x, op, y),
        0 if bare == 1 => format!("r1({}) {} {}", x, op, y),
        0 => format!("r1({}) {} r2({})", x, op, y),
        1 => format!("recs[?r1({}) {} r2({})] | [0]", x, op, y),
        2 => format!("[r1({}), r2({})]", x, y),
        _ => format!("{{p: r1({}), q: r2({})}}", x, y),
    };
    let doc = json!({"name": "bob", "recs": [{"name": "ann"}]});
    let right_runs = match (form, op) {
        (0, "&&") | (1, "&&") => xt,
        (0, "||") | (1, "||") => !xt,
        _ => true,
    };
    let want: Vec<u64> = match (form, bare) {
        (0, 0) => if right_runs { vec![i2] } else { vec![] },
        (0, 1) => vec![i1],
        _ => if right_runs { vec![i1, i2] } else { vec![i1] },
    };
    rep.evaluations += 1;
    LOG.with(|l| l.borrow_mut().clear());
    let got = guarded(|| rt.compile(&text).and_then(|e| e.search(rcvar_of(&doc))));
    let log: Vec<u64> = LOG.with(|l| l.borrow().iter().map(|r| r.id).collect());
    let ok = matches!(got, Ok(Ok(_))) && (log == want || (form == 3 && { let mut a = log.clone(); a.sort(); a == want }));
    if ok {
        rep.count("operands_evaluated_as_specified");
        rep.nontrivial(fnv(text.as_bytes()));
    } else {
        rep.violation(
            "C15/operand-not-evaluated-exactly-once-in-order",
            json!({"expression": text, "document": doc, "expected_calls(r1=first id, r2=second)": want, "observed_calls": log,
                   "result": format!("{:?}", got.map(|r| r.map(|v| v.to_string()).map_err(|e| e.to_string())))}),
        );
    }
}

/// No element, no call: over an empty array the body of an expression reference / the right-hand
/// side of a projection is never evaluated, so it neither calls anything nor resolves any name.
fn no_element_no_call(rep: &mut Report, next_id: &mut u64) {
    let mut rt = Runtime::new();
    rt.register_builtin_functions();
    *next_id += 1;
    let id = *next_id;
    rt.register_function("r1", Box::new(recorder(id, true)));
    let doc = json!({"none": [], "xs": [1, 20, 3], "one": [{"n": 5}], "rows": [{"id": "a", "vals": [1, 2, 3]}, {"id": "b", "vals": []}]});
    // two references in one search whose bodies call different functions with names of equal length, and an
    // unregistered call whose argument calls a registered function (arguments first, then the failure)
    {
        *next_id += 2;
        let (ia, ib) = (*next_id - 1, *next_id);
        rt.register_function("aa", Box::new(recorder(ia, true)));
        rt.register_function("bb", Box::new(recorder(ib, true)));
        for (text, want_ids, want_err) in [
            ("[map(&aa(@), xs), map(&bb(@), xs)]", vec![ia, ia, ia, ib, ib, ib], None),
            ("[map(&bb(@), xs), map(&aa(@), xs), map(&bb(@), xs)]", vec![ib, ib, ib, ia, ia, ia, ib, ib, ib], None),
            ("[sort_by(xs, &aa(@)), sort_by(xs, &bb(@))] | length(@)", vec![ia, ia, ia, ib, ib, ib], None),
            ("nosuch(aa(xs))", vec![ia], Some("unknown-function")),
            ("nosuch(aa(xs), bb(xs))", vec![ia, ib], Some("unknown-function")),
            ("bb(nosuch(aa(xs)))", vec![ia], Some("unknown-function")),
            // every value expression of a multi-select hash is evaluated, in order, also when a later member has the same name
            ("{v: aa(xs), \"v\": bb(xs)}", vec![ia, ib], None),
            ("{a: aa(xs), b: xs, a: bb(xs)}", vec![ia, ib], None),
            ("{v: aa(xs), v: aa(xs)}", vec![ia, ia], None),
            ("[{k: aa(xs), \"\\u006b\": bb(xs), k: aa(xs)}]", vec![ia, ib, ia], None),
            ("xs[*].{v: aa(@), \"v\": @}", vec![ia, ia, ia], None),
            ("{v: nosuch(aa(xs)), \"v\": xs}", vec![ia], Some("unknown-function")),
            ("{v: xs, \"v\": nosuch(bb(xs))}", vec![ib], Some("unknown-function")),
            ("[aa(xs), aa(xs)] | [bb(@), bb(@)]", vec![ia, ia, ib, ib], None),
            // where only the truth of a projection matters (under `!`, as a filter predicate, as an operand of && / ||)
            // its right-hand side is still called for EVERY element
            ("!xs[*].aa(@)", vec![ia, ia, ia], None),
            ("!(xs[*].aa(@))", vec![ia, ia, ia], None),
            ("rows[?vals[*].aa(@)].id", vec![ia, ia, ia], None),
            ("rows[?!vals[*].aa(@)].id", vec![ia, ia, ia], None),
            ("xs[*].aa(@) && `1`", vec![ia, ia, ia], None),
            ("xs[*].aa(@) || `1`", vec![ia, ia, ia], None),
            ("xs[?@ > `0`].aa(@) | !@", vec![ia, ia, ia], None),
            ("rows[?vals[*].nosuch(@)].id", vec![], Some("unknown-function")),
            ("!xs[*].nosuch(aa(@))", vec![ia], Some("unknown-function")),
            // a by-function over ONE element still evaluates its key for that element
            ("sort_by(one, &aa(n))", vec![ia], None),
            ("max_by(one, &aa(n))", vec![ia], None),
            ("min_by(one, &bb(n))", vec![ib], None),
            ("map(&aa(n), one)", vec![ia], None),
            ("sort_by(one, &nosuch(n))", vec![], Some("unknown-function")),
            ("max_by(one, &nosuch(aa(n)))", vec![ia], Some("unknown-function")),
            ("sort_by(one, &abs(aa(id)))", vec![ia], Some("type")),
        ] {
            rep.evaluations += 1;
            LOG.with(|l| l.borrow_mut().clear());
            let got = guarded(|| rt.compile(text).and_then(|e| e.search(rcvar_of(&doc))));
            let ids: Vec<u64> = LOG.with(|l| l.borrow().iter().map(|r| r.id).collect());
            let ok = ids == want_ids
                && match (&got, want_err) {
                    (Ok(Ok(_)), None) => true,
                    (Ok(Err(e)), Some(c)) => err_class(e) == c && (c != "unknown-function" || e.reason.to_string().ends_with(" nosuch")),
                    _ => false,
                };
            if ok {
                rep.count("several_call_sites_in_one_search_ok");
            } else {
                rep.violation(
                    "C15/wrong-function-called",
                    json!({"expression": text, "document": doc, "expected_calls": want_ids, "observed_calls": ids, "expected_error": want_err,
                           "got": format!("{:?}", got.map(|r| r.map(|v| v.to_string()).map_err(|e| e.to_string())))}),
                );
            }
        }
    }
    // a registered function is what its name calls, also when the name is a built-in's and also when the call is
    // applied to its own result: one call per written call, inner first, each given the previous result
    for with_builtins in [true, false] {
        let mut rt2 = Runtime::new();
        if with_builtins {
            rt2.register_builtin_functions();
        }
        const SHADOWED: [&str; 12] = ["to_string", "to_array", "to_number", "length", "keys", "values", "abs", "not_null", "type", "reverse", "sort", "max"];
        let base = *next_id + 1;
        *next_id += SHADOWED.len() as u64;
        for (k, n) in SHADOWED.iter().enumerate() {
            // not idempotent: wraps its argument
            let id = base + k as u64;
            rt2.register_function(n, Box::new(move |a: &[Rcvar], ctx: &mut Context<'_>| {
                LOG.with(|l| l.borrow_mut().push(CallRec { id, args: a.iter().map(show_arg).collect(), expression: ctx.expression.to_string() }));
                Ok(rcvar_of(&json!({"by": id, "of": a.first().and_then(|x| value_of(x).ok())})))
            }));
        }
        for (fi, f) in SHADOWED.iter().enumerate() {
            for (gi, g) in SHADOWED.iter().enumerate() {
                if fi != gi && (fi * 5 + gi) % 4 != 0 {
                    continue;
                }
                let (idf, idg) = (base + fi as u64, base + gi as u64);
                for (text, want_ids, want) in [
                    (format!("{}({}(xs))", f, g), vec![idg, idf], json!({"by": idf, "of": {"by": idg, "of": [1, 20, 3]}})),
                    (format!("{}({}({}(xs)))", f, g, f), vec![idf, idg, idf], json!({"by": idf, "of": {"by": idg, "of": {"by": idf, "of": [1, 20, 3]}}})),
                    (format!("xs | {}({}(@))", f, g), vec![idg, idf], json!({"by": idf, "of": {"by": idg, "of": [1, 20, 3]}})),
                ] {
                    rep.evaluations += 1;
                    LOG.with(|l| l.borrow_mut().clear());
                    let got = guarded(|| rt2.compile(&text).and_then(|e| e.search(rcvar_of(&doc))));
                    let ids: Vec<u64> = LOG.with(|l| l.borrow().iter().map(|r| r.id).collect());
                    let ok = ids == want_ids && matches!(&got, Ok(Ok(v)) if value_of(v).map_or(false, |x| x == want));
                    if ok {
                        rep.count("registered_function_under_a_builtin_name_called_once_per_written_call");
                    } else {
                        rep.violation(
                            "C15/wrong-function-called",
                            json!({"expression": text, "runtime": if with_builtins { "built-ins, then these names re-registered" } else { "only these names registered" }, "expected_calls": want_ids, "observed_calls": ids,
                                   "expected": want, "got": format!("{:?}", got.map(|r| r.map(|v| v.to_string()).map_err(|e| e.to_string())))}),
                        );
                    }
                }
            }
        }
    }
    for (text, want) in [
        ("map(&nosuch(@), none)", json!([])), ("map(&r1(@), none)", json!([])), ("none[*].nosuch(@)", json!([])), ("none[?nosuch(@)]", json!([])), ("sort_by(none, &nosuch(@))", json!([])),
        ("max_by(none, &r1(@))", json!(null)), ("map(&nosuch(@), xs[?@ > `100`])", json!([])), ("none[].r1(@)", json!([])), ("map(&abs(nosuch(@)), none)", json!([])),
        ("xs[?@ > `100`][*].r1(@) | length(@)", json!(0)),
    ] {
        rep.evaluations += 1;
        LOG.with(|l| l.borrow_mut().clear());
        let got = guarded(|| rt.compile(text).and_then(|e| e.search(rcvar_of(&doc))));
        let calls = LOG.with(|l| l.borrow().len());
        let ok = matches!(&got, Ok(Ok(v)) if value_of(v).map_or(false, |g| g == want)) && calls == 0;
        if ok {
            rep.count("no_element_no_call_ok");
        } else {
            rep.violation(
                "C15/body-evaluated-or-name-resolved-without-an-element",
                json!({"expression": text, "document": doc, "expected": want, "calls_recorded": calls, "got": format!("{:?}", got.map(|r| r.map(|v| v.to_string()).map_err(|e| e.to_string())))}),
            );
        }
    }
}

/// A recording function called as the right-hand side of a projection whose
/// elements include nulls: every argument must be evaluated against the element.
fn projection_probe(rep: &mut Report, rng: &mut Rng, next_id: &mut u64, ev: &Evaluator, strict: &Opts) {
    const ARGS: [&str; 14] = ["@", "v", "[`1`, `2`]", "{a: `1`}", "!@", "@ == `1`", "`1` || @", "[@, `0`]", "`\"lit\"`", "!`null`", "[`1`] == [`1`]", "{k: @}", "`0` && `1`", "&v"];
    let mut rt = Runtime::new();
    rt.register_builtin_functions();
    *next_id += 1;
    let id = *next_id;
    rt.register_function("rec", Box::new(recorder(id, false)));
    let elems = [json!(1), Value::Null, json!({"v": 3}), json!([]), Value::Null, json!("s"), json!({"v": null})];
    let n = rng.below(5) + 2;
    let xs: Vec<Value> = (0..n).map(|_| elems[rng.below(elems.len())].clone()).collect();
    let nargs = rng.below(3) + 1;
    let texts: Vec<&str> = (0..nargs).map(|_| ARGS[rng.below(ARGS.len())]).collect();
    let (proj, items): (&str, Vec<Value>) = match rng.below(3) {
        0 => ("xs[*]", xs.clone()),
        1 => (
            "xs[]",
            xs.iter()
                .flat_map(|e| match e {
                    Value::Array(inner) => inner.clone(),
                    other => vec![other.clone()],
                })
                .collect(),
        ),
        _ => ("xs[0:]", xs.clone()),
    };
    let text = format!("{}.rec({})", proj, texts.join(", "));
    let doc = json!({ "xs": xs });
    // expected log: one invocation per element (nulls included: the call is evaluated on null), in order
    let mut expected: Vec<Vec<String>> = vec![];
    for e in &items {
        let mut args = vec![];
        for t in &texts {
            match arg_value(t, e, strict, ev) {
                Arg::Val(v) => args.push(format!("VAL:{}", rcvar_of(&v))),
                Arg::Expref(p) => args.push(format!("EXPREF:{}", refimpl::nf::canon(&p))),
            }
        }
        expected.push(args);
    }
    rep.evaluations += 1;
    LOG.with(|l| l.borrow_mut().clear());
    let got = guarded(|| rt.compile(&text).and_then(|e| e.search(rcvar_of(&doc))));
    let log: Vec<Vec<String>> = LOG.with(|l| l.borrow().iter().map(|r| r.args.clone()).collect());
    if got.is_ok() && log == expected {
        rep.count("projection_call_arguments_per_element_ok");
        rep.nontrivial(fnv(format!("{}|{}", text, doc).as_bytes()));
    } else {
        rep.violation(
            "C15/arguments-not-evaluated-against-the-current-element",
            json!({"expression": text, "document": doc, "expected_call_log": format!("{:?}", expected), "observed_call_log": format!("{:?}", log)}),
        );
    }
}

#[allow(dead_code)]
fn _assert_function_object_safe(_: &dyn Function) {}
