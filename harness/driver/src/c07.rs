//! C07 — slices and negative indexes. The driver only *records* what the real
//! code returned; the deciding oracle is CPython's own list slicing
//! (py/check_slices.py) run over the recorded log. An in-process i128
//! implementation of the rule cross-checks every record as well.

use crate::common::*;
use jmespath::Variable;
use refimpl::eval::slice_indices;
use refimpl::rng::Rng;
use serde_json::{json, Value};
use std::io::Write;

fn part(x: Option<i64>) -> String {
    x.map(|v| v.to_string()).unwrap_or_else(|| "_".to_string())
}

struct Rec<'a> {
    out: &'a mut dyn Write,
}

fn arr(len: usize) -> Value {
    Value::Array((0..len as i64).map(Value::from).collect())
}

fn show(r: &Result<jmespath::Rcvar, jmespath::JmespathError>) -> String {
    match r {
        Ok(v) => match &**v {
            Variable::Null => "N".to_string(),
            Variable::Array(a) => {
                let items: Vec<String> = a.iter().map(|e| e.to_string()).collect();
                format!("[{}]", items.join(","))
            }
            other => format!("?{}", other),
        },
        Err(e) => format!("E:{}", err_class(e)),
    }
}

fn one_slice(rep: &mut Report, rec: &mut Rec, len: usize, a: Option<i64>, b: Option<i64>, c: Option<i64>, spell: u8) {
    rep.evaluations += 1;
    let doc = arr(len);
    let f = |x: Option<i64>| x.map(|v| v.to_string()).unwrap_or_default();
    let text = match (c, spell) {
        (None, 0) => format!("@[{}:{}]", f(a), f(b)),
        (None, _) => format!("@[{}:{}:]", f(a), f(b)),
        (Some(s), _) => format!("@[ {} : {} : {} ]", f(a), f(b), s),
    };
    let got = guarded(|| jmespath::compile(&text).and_then(|e| e.search(rcvar_of(&doc))));
    let got = match got {
        Ok(g) => g,
        Err(p) => {
            rep.violation(&format!("C07/panic/{}", panic_site(&p)), json!({"expression": text, "len": len, "panic": p}));
            return;
        }
    };
    let shown = show(&got);
    let _ = writeln!(rec.out, "S {} {} {} {} | {}", len, part(a), part(b), part(c), shown);
    // in-process cross-check with the wide-arithmetic rule
    let step = c.unwrap_or(1);
    let want = if step == 0 {
        "E:invalid-slice".to_string()
    } else {
        let idx = slice_indices(len as i128, a.map(|x| x as i128), b.map(|x| x as i128), step as i128);
        format!("[{}]", idx.iter().map(|i| i.to_string()).collect::<Vec<_>>().join(","))
    };
    if shown == want {
        rep.count("agree_slice");
        if rep.samples.len() < 8 && shown.len() > 4 && (a.is_some() || b.is_some()) && rep.evaluations % 37 == 0 {
            rep.sample(json!({"expression": text, "array_length": len, "result": shown}));
        }
        let clamped = a.map_or(false, |x| x.abs() as usize > len) || b.map_or(false, |x| x.abs() as usize > len);
        if shown.len() > 2 || clamped {
            rep.nontrivial(refimpl::rng::fnv(format!("{} {:?} {:?} {:?}", len, a, b, c).as_bytes()));
        }
    } else {
        rep.violation("C07/slice-differs-from-rule", json!({"expression": text, "len": len, "expected": want, "got": shown}));
    }
    // Variable::slice directly (cannot express the step-0 error: not called with 0)
    if step != 0 && step >= i32::MIN as i64 && step <= i32::MAX as i64 {
        let v = var_of(&doc);
        let direct = guarded(|| v.slice(a.map(|x| x as i32), b.map(|x| x as i32), step as i32));
        match direct {
            Ok(Some(items)) => {
                let s = format!("[{}]", items.iter().map(|e| e.to_string()).collect::<Vec<_>>().join(","));
                let _ = writeln!(rec.out, "V {} {} {} {} | {}", len, part(a), part(b), part(Some(step)), s);
                if s != want {
                    rep.violation("C07/Variable::slice-differs-from-rule", json!({"len": len, "start": a, "stop": b, "step": step, "expected": want, "got": s}));
                }
            }
            Ok(None) => rep.violation("C07/Variable::slice-none-on-array", json!({"len": len})),
            Err(p) => rep.violation(&format!("C07/panic/{}", panic_site(&p)), json!({"Variable::slice": [len as i64, a.unwrap_or(0), b.unwrap_or(0), step], "panic": p})),
        }
    }
}

/// The slice inside a larger expression: what follows (a projection's right-hand
/// side, a pipe, a flatten, a filter, a function call) and what precedes it must
/// not change which elements are selected or their order.
const CTX_FORMS: &[&str] = &[
    "id", "bar", "flat", "filter", "first", "last", "length", "star", "again", "falsy", "lit", "sorted", "rev2", "mapid", "paren-star", "window", "window",
    // the array being sliced is what a projection LEFT: rows that project to null are dropped before the slice counts
    "holes-pipe", "holes-paren", "holes-flat", "holes-slice", "holes-filter", "holes-values",
    // the array being sliced is built by a multi-select (on a null current node that is null, not a list)
    "ml", "ml-pipe", "ml-null", "ml-null-pipe",
    // a function applied directly to the slice; the same bounds sliced twice in one search with steps of opposite sign
    "fn-reverse", "fn-reverse-bar", "fn-sort", "pair", "pair-first", "pair-three",
];

/// Element i of the "falsy" documents: every falsy JSON value, zero, and two truthy ones;
/// position 7 holds null, which a slice (a projection) drops from its result.
const FALSY_KINDS: [&str; 8] = ["false", "\"\"", "[]", "{}", "0", "true", "\"x\"", "null"];

fn one_ctx(rep: &mut Report, rec: &mut Rec, form: &str, len: usize, a: Option<i64>, b: Option<i64>, c: Option<i64>) {
    let step = c.unwrap_or(1);
    if step == 0 {
        return;
    }
    rep.evaluations += 1;
    let f = |x: Option<i64>| x.map(|v| v.to_string()).unwrap_or_default();
    let sl = match c {
        None => format!("[{}:{}]", f(a), f(b)),
        Some(s) => format!("[{}:{}:{}]", f(a), f(b), s),
    };
    let ints = arr(len);
    // a second window applied to the first one's result; its parameters are a function of the first
    let hsh = refimpl::rng::fnv(format!("w {} {:?} {:?} {:?}", len, a, b, c).as_bytes());
    let w1 = [None, Some(0i64), Some(1), Some(-1), Some(2), Some(-3)][(hsh % 6) as usize];
    let w2 = [None, Some(1i64), Some(2), Some(5), Some(-1), Some(0)][((hsh / 6) % 6) as usize];
    let w3 = [None, Some(1i64), Some(-1), Some(2), Some(-2)][((hsh / 36) % 5) as usize];
    let form_owned;
    let form = if form == "window" {
        form_owned = format!("window:{}:{}:{}", part(w1), part(w2), part(w3));
        form_owned.as_str()
    } else {
        form
    };
    let (doc, text) = match form {
        // the array being sliced is a temporary (a function result, a parenthesised projection)
        "sorted" => (Value::Array((0..len as i64).rev().map(Value::from).collect()), format!("sort(@){}", sl)),
        "rev2" => (ints, format!("reverse(reverse(@)){}", sl)),
        "mapid" => (ints, format!("map(&@, @){}", sl)),
        "paren-star" => (ints, format!("(@[*]){}", sl)),
        w if w.starts_with("window:") => {
            let g = |x: Option<i64>| x.map(|v| v.to_string()).unwrap_or_default();
            (ints, format!("@{} | [{}:{}:{}]", sl, g(w1), g(w2), g(w3.or(Some(1)))))
        }
        "id" => (Value::Array((0..len as i64).map(|i| json!({"id": i, "pad": "x"})).collect()), format!("@{}.id", sl)),
        "bar" => (json!({"foo": {"bar": ints}}), format!("foo.bar{}", sl)),
        "flat" => (ints, format!("@{}[]", sl)),
        "filter" => (ints, format!("@{} | [?@ >= `0`]", sl)),
        "first" => (ints, format!("@{} | [0]", sl)),
        "last" => (ints, format!("@{} | [-1]", sl)),
        "length" => (ints, format!("length(@{})", sl)),
        "star" => (Value::Array((0..len as i64).map(|i| json!([i])).collect()), format!("@{}[0]", sl)),
        "falsy" => (Value::Array((0..len).map(|i| serde_json::from_str(FALSY_KINDS[i % 8]).unwrap()).collect()), format!("@{}", sl)),
        "lit" => (json!(null), format!("`{}`{}", ints, sl)),
        h if h.starts_with("holes-") => {
            // row i carries v = i unless i % 3 == 1 (then it has no v, or a null v)
            let rows = Value::Array((0..len as i64).map(|i| if i % 3 == 1 { if i % 2 == 0 { json!({"w": i}) } else { json!({"v": null}) } } else { json!({"v": i}) }).collect());
            match h {
                "holes-pipe" => (rows, format!("@[*].v | {}", sl)),
                "holes-paren" => (rows, format!("(@[*].v){}", sl)),
                "holes-flat" => (rows, format!("@[].v | {}", sl)),
                "holes-slice" => (rows, format!("@[0:].v | {}", sl)),
                "holes-filter" => (rows, format!("(@[?`true`].v){}", sl)),
                _ => (json!({"o": (0..len.min(10) as i64).map(|i| (format!("k{}", i), if i % 3 == 1 { json!({}) } else { json!({"v": i}) })).collect::<serde_json::Map<String, Value>>()}), format!("o.*.v | {}", sl)),
            }
        }
        m if m.starts_with("ml") => {
            let n = len.min(24);
            let members = (0..n).map(|i| if i % 2 == 0 { format!("@[{}]", i) } else { format!("`{}`", i) }).collect::<Vec<_>>().join(", ");
            let members = if n == 0 { "`0`".to_string() } else { members };
            match m {
                "ml" => (ints, format!("[{}]{}", members, sl)),
                "ml-pipe" => (ints, format!("[{}] | {}", members, sl)),
                "ml-null" => (json!({"some": 1}), format!("nope.[{}]{}", members, sl)),
                _ => (json!({"some": 1}), format!("nope | [{}] | {}", members, sl)),
            }
        }
        "fn-reverse" => (ints, format!("reverse(@{})", sl)),
        "fn-reverse-bar" => (json!({"foo": {"bar": ints}}), format!("reverse(foo.bar{})", sl)),
        "fn-sort" => (ints, format!("sort(@{})", sl)),
        "pair" => (ints, format!("[@[{}:{}:{}], @{}] | [1]", f(a), f(b), -step.signum(), sl)),
        "pair-first" => (ints, format!("[@{}, @[{}:{}:{}]] | [0]", sl, f(a), f(b), -step.signum())),
        "pair-three" => (ints, format!("[@[{}:{}:{}], @[{}:{}], @{}, @[{}:{}:{}]] | [2]", f(a), f(b), -step.signum(), f(a), f(b), sl, f(a), f(b), if step > 0 { if step == 2 { 3 } else { 2 } } else if step == -2 { -3 } else { -2 })),
        _ => (ints, format!("@{} | @[::-1] | @[::-1]", sl)),
    };
    let got = match guarded(|| jmespath::compile(&text).and_then(|e| e.search(rcvar_of(&doc)))) {
        Ok(g) => g,
        Err(p) => {
            rep.violation(&format!("C07/panic/{}", panic_site(&p)), json!({"expression": text, "len": len, "panic": p}));
            return;
        }
    };
    let shown = match &got {
        Ok(v) if v.is_number() || v.is_null() => if v.is_null() { "N".to_string() } else { v.to_string() },
        _ => show(&got),
    };
    let _ = writeln!(rec.out, "P {} {} {} {} {} | {}", form, len, part(a), part(b), part(c), shown);
    let kept: Vec<i64> = match form {
        "holes-values" => (0..len.min(10) as i64).filter(|i| i % 3 != 1).collect(),
        h if h.starts_with("holes-") => (0..len as i64).filter(|i| i % 3 != 1).collect(),
        "ml" | "ml-pipe" => (0..len.min(24).max(1) as i64).collect(),
        _ => vec![],
    };
    let idx = if form.starts_with("holes-") || form == "ml" || form == "ml-pipe" {
        slice_indices(kept.len() as i128, a.map(|x| x as i128), b.map(|x| x as i128), step as i128)
    } else {
        slice_indices(len as i128, a.map(|x| x as i128), b.map(|x| x as i128), step as i128)
    };
    let want = match form {
        "fn-reverse" | "fn-reverse-bar" => format!("[{}]", idx.iter().rev().map(|i| i.to_string()).collect::<Vec<_>>().join(",")),
        "fn-sort" => {
            let mut v: Vec<i128> = idx.iter().map(|i| *i as i128).collect();
            v.sort();
            format!("[{}]", v.iter().map(|i| i.to_string()).collect::<Vec<_>>().join(","))
        }
        "ml-null" | "ml-null-pipe" => "N".to_string(),
        "ml" | "ml-pipe" if len == 0 => format!("[{}]", idx.iter().map(|_| "0".to_string()).collect::<Vec<_>>().join(",")),
        h if h.starts_with("holes-") || h == "ml" || h == "ml-pipe" => format!("[{}]", idx.iter().map(|i| kept[*i as usize].to_string()).collect::<Vec<_>>().join(",")),
        w if w.starts_with("window:") => {
            let inner = slice_indices(idx.len() as i128, w1.map(|x| x as i128), w2.map(|x| x as i128), w3.unwrap_or(1) as i128);
            format!("[{}]", inner.iter().map(|i| idx[*i as usize].to_string()).collect::<Vec<_>>().join(","))
        }
        "falsy" => format!("[{}]", idx.iter().map(|i| FALSY_KINDS[*i as usize % 8]).filter(|k| *k != "null").collect::<Vec<_>>().join(",")),
        "first" => idx.first().map(|i| i.to_string()).unwrap_or_else(|| "N".to_string()),
        "last" => idx.last().map(|i| i.to_string()).unwrap_or_else(|| "N".to_string()),
        "length" => idx.len().to_string(),
        _ => format!("[{}]", idx.iter().map(|i| i.to_string()).collect::<Vec<_>>().join(",")),
    };
    if shown == want {
        rep.count("agree_slice_in_context");
        if idx.len() > 1 {
            rep.nontrivial(refimpl::rng::fnv(format!("P {} {} {:?} {:?} {:?}", form, len, a, b, c).as_bytes()));
        }
    } else {
        rep.violation("C07/slice-in-context-differs-from-rule", json!({"expression": text, "len": len, "expected": want, "got": shown}));
    }
}

fn one_index(rep: &mut Report, rec: &mut Rec, len: usize, n: i64) {
    if len <= 40 && len > 0 {
        // the same index applied to a literal array
        index_case(rep, rec, len, n, &json!(null), &format!("`{}`[{}]", arr(len), n));
    }
    index_case(rep, rec, len, n, &arr(len), &format!("@[{}]", n));
    if len <= 24 {
        // the index applied to what a projection left (rows without the member are dropped first), and to a
        // multi-select list (which is null, not a list, on a null current node)
        let holes: Vec<i64> = (0..len as i64).filter(|i| i % 3 != 1).collect();
        let rows = Value::Array((0..len as i64).map(|i| if i % 3 == 1 { json!({"w": i}) } else { json!({"v": i}) }).collect());
        let k = if n < 0 { holes.len() as i64 + n } else { n };
        let want_h = if k >= 0 && (k as usize) < holes.len() { holes[k as usize].to_string() } else { "N".to_string() };
        let members = if len == 0 { "`0`".to_string() } else { (0..len).map(|i| if i % 2 == 0 { format!("@[{}]", i) } else { format!("`{}`", i) }).collect::<Vec<_>>().join(", ") };
        let m = len.max(1) as i64;
        let km = if n < 0 { m + n } else { n };
        let want_m = if km >= 0 && km < m { km.to_string() } else { "N".to_string() };
        let ints = arr(len);
        let some = json!({"some": 1, "rows": [{"k": 1}, null]});
        for (text, doc, want) in [
            (format!("@[*].v | [{}]", n), &rows, want_h.clone()),
            (format!("(@[*].v)[{}]", n), &rows, want_h.clone()),
            (format!("@[].v | [{}]", n), &rows, want_h.clone()),
            (format!("[{}][{}]", members, n), &ints, want_m.clone()),
            (format!("[{}] | [{}]", members, n), &ints, want_m.clone()),
            (format!("nope | [{}][{}]", members, n), &some, "N".to_string()),
            (format!("nope.[{}] | [{}]", members, n), &some, "N".to_string()),
            (format!("rows[1] | [`7`, @][{}]", n), &some, "N".to_string()),
            (format!("map(&[`7`, k][{}], rows)[1]", n), &some, "N".to_string()),
        ] {
            rep.evaluations += 1;
            let got = guarded(|| jmespath::compile(&text).and_then(|e| e.search(rcvar_of(doc))));
            let shown = match &got {
                Ok(Ok(v)) if v.is_null() => "N".to_string(),
                Ok(Ok(v)) => v.to_string(),
                other => format!("{:?}", other.as_ref().map(|r| r.as_ref().map(|v| v.to_string()).map_err(|e| e.to_string()))),
            };
            if shown == want {
                rep.count("agree_index_into_projection_or_multiselect");
            } else {
                rep.violation("C07/index-into-a-projection-result-or-multi-select-differs-from-rule", json!({"expression": text, "document": doc, "expected": want, "got": shown}));
            }
        }
    }
    if (-9..=9).contains(&n) {
        ragged_rows(rep, rec, len, n);
    }
    if len > 0 && len <= 40 {
        // the index applied to the result of a stable sort with tied keys: position n of THAT order
        let doc = Value::Array((0..len).map(|i| json!({"id": i, "k": (i * 7 + 3) % 4})).collect());
        let mut order: Vec<usize> = (0..len).collect();
        order.sort_by_key(|i| (i * 7 + 3) % 4);
        let k = if n < 0 { len as i64 + n } else { n };
        let want = if k >= 0 && (k as usize) < len { order[k as usize].to_string() } else { "N".to_string() };
        for text in [format!("sort_by(@, &k)[{}].id", n), format!("sort_by(@, &k) | [{}].id", n), format!("(sort_by(@, &k))[{}].id", n)] {
            rep.evaluations += 1;
            let got = guarded(|| jmespath::compile(&text).and_then(|e| e.search(rcvar_of(&doc))));
            let shown = match &got {
                Ok(Ok(v)) if v.is_null() => "N".to_string(),
                Ok(Ok(v)) => v.to_string(),
                other => format!("{:?}", other.as_ref().map(|r| r.as_ref().map(|v| v.to_string()).map_err(|e| e.to_string()))),
            };
            if shown == want {
                rep.count("agree_index_into_sorted");
            } else {
                rep.violation("C07/index-into-a-stable-sort-differs-from-rule", json!({"expression": text, "len": len, "expected_id": want, "got": shown}));
            }
        }
    }
}

/// The index applied to every row of a table whose rows have different lengths — directly (a
/// projection, which drops the rows that have no such element) and as the body of an expression
/// reference (`map` keeps a null for them): each row decides for itself where `n` lands.
fn ragged_rows(rep: &mut Report, rec: &mut Rec, len: usize, n: i64) {
    let rows: Vec<Vec<i64>> = (0..=len % 9).map(|j| (0..((j * 5 + len) % 7) as i64).map(|v| v + 10 * j as i64).collect()).collect();
    let doc = json!(rows);
    let pick = |r: &Vec<i64>| -> Option<i64> {
        let k = if n < 0 { r.len() as i64 + n } else { n };
        if k >= 0 && (k as usize) < r.len() { Some(r[k as usize]) } else { None }
    };
    let want_proj = format!("[{}]", rows.iter().filter_map(pick).map(|v| v.to_string()).collect::<Vec<_>>().join(","));
    let want_map = format!("[{}]", rows.iter().map(|r| pick(r).map(|v| v.to_string()).unwrap_or_else(|| "null".to_string())).collect::<Vec<_>>().join(","));
    let firsts = format!("[{}]", {
        let mut keyed: Vec<(i64, usize)> = rows.iter().enumerate().filter_map(|(i, r)| pick(r).map(|k| (k, i))).collect();
        keyed.sort();
        keyed.iter().map(|(_, i)| i.to_string()).collect::<Vec<_>>().join(",")
    });
    for (form, text, want) in [
        ("ragged-proj", format!("@[*][{}]", n), want_proj.clone()),
        ("ragged-map", format!("map(&[{}], @)", n), want_map.clone()),
        ("ragged-expr", format!("@[*].{{v: @[{}]}}.v", n), want_proj.clone()),
    ] {
        rep.evaluations += 1;
        let got = guarded(|| jmespath::compile(&text).and_then(|e| e.search(rcvar_of(&doc))));
        let shown = match &got {
            Ok(g) => show(g),
            Err(p) => format!("panic:{}", p),
        };
        let _ = writeln!(rec.out, "R {} {} {} | {}", form, len, n, shown);
        if shown == want {
            rep.count("agree_ragged_rows");
            rep.nontrivial(refimpl::rng::fnv(format!("R {} {} {}", form, len, n).as_bytes()));
        } else {
            rep.violation("C07/index-over-ragged-rows-differs-from-rule", json!({"expression": text, "rows": doc, "expected": want, "got": shown}));
        }
    }
    // several indexes picked from each row at once; and a per-row slice over rows that are not all arrays
    {
        let m = -n - 1;
        let text = format!("@[*].[[{}], [{}], [0]]", n, m);
        let cell = |r: &Vec<i64>, k: i64| -> String {
            let j = if k < 0 { r.len() as i64 + k } else { k };
            if j >= 0 && (j as usize) < r.len() { r[j as usize].to_string() } else { "null".to_string() }
        };
        let want = format!("[{}]", rows.iter().map(|r| format!("[{},{},{}]", cell(r, n), cell(r, m), cell(r, 0))).collect::<Vec<_>>().join(","));
        rep.evaluations += 1;
        let got = guarded(|| jmespath::compile(&text).and_then(|e| e.search(rcvar_of(&doc))));
        let shown = match &got {
            Ok(Ok(v)) => v.to_string(),
            other => format!("{:?}", other.as_ref().map(|r| r.as_ref().map(|v| v.to_string()).map_err(|e| e.to_string()))),
        };
        if shown == want {
            rep.count("agree_ragged_multi_index");
        } else {
            rep.violation("C07/index-over-ragged-rows-differs-from-rule", json!({"expression": text, "rows": doc, "expected": want, "got": shown}));
        }
        // rows of every kind: a per-row slice applies to the arrays and drops the rest
        let mut mixed: Vec<Value> = vec![];
        for (i, r) in rows.iter().enumerate() {
            mixed.push(json!(r));
            mixed.push([json!("abc"), json!({"a": 1}), Value::Null, json!(7), json!(true)][i % 5].clone());
        }
        let mdoc = Value::Array(mixed);
        let (a, b) = (n.min(3), n.max(-3) + 2);
        let text = format!("@[*][{}:{}]", a, b);
        let want = format!(
            "[{}]",
            rows.iter()
                .map(|r| {
                    let idx = slice_indices(r.len() as i128, Some(a as i128), Some(b as i128), 1);
                    format!("[{}]", idx.iter().map(|i| r[*i as usize].to_string()).collect::<Vec<_>>().join(","))
                })
                .collect::<Vec<_>>()
                .join(",")
        );
        rep.evaluations += 1;
        let got = guarded(|| jmespath::compile(&text).and_then(|e| e.search(rcvar_of(&mdoc))));
        let shown = match &got {
            Ok(Ok(v)) => v.to_string(),
            other => format!("{:?}", other.as_ref().map(|r| r.as_ref().map(|v| v.to_string()).map_err(|e| e.to_string()))),
        };
        if shown == want {
            rep.count("agree_per_row_slice_over_mixed_rows");
        } else {
            rep.violation("C07/slice-in-context-differs-from-rule", json!({"expression": text, "rows": mdoc, "expected": want, "got": shown}));
        }
    }
    // as a sort key: rows that have the element, ordered by it (every row has one when n is 0 / -1 and no row is empty)
    if rows.iter().all(|r| pick(r).is_some()) && rows.len() > 1 {
        let text = format!("sort_by(@, &[{}])[*][0]", n);
        rep.evaluations += 1;
        let got = guarded(|| jmespath::compile(&text).and_then(|e| e.search(rcvar_of(&doc))));
        let mut keyed: Vec<(i64, usize)> = rows.iter().enumerate().map(|(i, r)| (pick(r).unwrap(), i)).collect();
        keyed.sort();
        let want = format!("[{}]", keyed.iter().map(|(_, i)| rows[*i][0].to_string()).collect::<Vec<_>>().join(","));
        let shown = match &got {
            Ok(g) => show(g),
            Err(p) => format!("panic:{}", p),
        };
        if shown == want {
            rep.count("agree_ragged_sort_key");
        } else {
            rep.violation("C07/index-over-ragged-rows-differs-from-rule", json!({"expression": text, "rows": doc, "expected": want, "got": shown}));
        }
    }
    let _ = firsts;
}

fn index_case(rep: &mut Report, rec: &mut Rec, len: usize, n: i64, doc: &Value, text: &str) {
    rep.evaluations += 1;
    let text = text.to_string();
    let got = guarded(|| jmespath::compile(&text).and_then(|e| e.search(rcvar_of(doc))));
    match got {
        Ok(Ok(v)) => {
            let shown = if v.is_null() { "N".to_string() } else { v.to_string() };
            let _ = writeln!(rec.out, "I {} {} | {}", len, n, shown);
            let k = if n < 0 { len as i64 + n } else { n };
            let want = if k >= 0 && k < len as i64 { k.to_string() } else { "N".to_string() };
            if shown == want {
                rep.count("agree_index");
                rep.nontrivial(refimpl::rng::fnv(format!("I {} {}", len, n).as_bytes()));
            } else {
                rep.violation("C07/index-differs-from-rule", json!({"expression": text, "len": len, "expected": want, "got": shown}));
            }
        }
        Ok(Err(e)) => rep.violation("C07/index-error", json!({"expression": text, "error": err_json(&e)})),
        Err(p) => rep.violation(&format!("C07/panic/{}", panic_site(&p)), json!({"expression": text, "panic": p})),
    }
}

pub fn run(args: &Args) {
    let mut rep = Report::new("C07");
    let path = args.kv.get("records").cloned().expect("--records");
    let mut file = std::io::BufWriter::new(std::fs::File::create(&path).expect("records file"));
    let mut rec = Rec { out: &mut file };

    // (1) exhaustive small space
    let small: Vec<Option<i64>> = std::iter::once(None).chain((-11..=11).map(Some)).collect();
    let mut idx: u64 = 0;
    for len in 0..=8usize {
        for a in &small {
            for b in &small {
                for c in &small {
                    idx += 1;
                    if idx % args.shards != args.shard {
                        continue;
                    }
                    one_slice(&mut rep, &mut rec, len, *a, *b, *c, (idx % 2) as u8);
                    if (idx / args.shards) % 3 == 0 {
                        let form = CTX_FORMS[((idx / args.shards / 3) % CTX_FORMS.len() as u64) as usize];
                        one_ctx(&mut rep, &mut rec, form, len, *a, *b, *c);
                    }
                }
            }
        }
        for n in -12..=12i64 {
            idx += 1;
            if idx % args.shards == args.shard {
                one_index(&mut rep, &mut rec, len, n);
            }
        }
    }
    // (2) extreme grid
    let ext: Vec<Option<i64>> = vec![
        None,
        Some(0),
        Some(1),
        Some(-1),
        Some(2147483647),
        Some(-2147483647),
        Some(2147483646),
        Some(-2147483646),
        Some(1073741824),
        Some(-1073741824),
        Some(65536),
        Some(-65536),
    ];
    for len in 0..=12usize {
        for a in &ext {
            for b in &ext {
                for c in &ext {
                    idx += 1;
                    if idx % args.shards != args.shard {
                        continue;
                    }
                    one_slice(&mut rep, &mut rec, len, *a, *b, *c, 1);
                }
            }
            if let Some(n) = a {
                idx += 1;
                if idx % args.shards == args.shard {
                    one_index(&mut rep, &mut rec, len, *n);
                }
            }
        }
    }
    rep.add("enumerated", idx / args.shards);
    // (3) random over the whole i32 range
    for i in 0..args.n {
        let mut rng = Rng::derive(args.seed, args.shard + 5000, i);
        // mostly short arrays; a few long ones, so that anything keyed on the number of
        // selected elements (bulk copies, chunking, pre-sized buffers) is crossed as well
        let len = match rng.below(200) {
            0 => 300 + rng.below(1300),
            1..=5 => 65 + rng.below(236),
            6..=25 => 30 + rng.below(100),
            _ => rng.below(65),
        };
        let pick = |rng: &mut Rng| -> Option<i64> {
            match rng.below(6) {
                0 => None,
                1 => Some(rng.range(-(len as i64) - 3, len as i64 + 3)),
                2 => Some(rng.range(-2147483647, 2147483647)),
                3 => Some(rng.range(-70, 70)),
                4 => Some([2147483647i64, -2147483647, 2147483646, -2147483646][rng.below(4)]),
                _ => Some(rng.range(-5, 5)),
            }
        };
        let (a, b, c) = (pick(&mut rng), pick(&mut rng), pick(&mut rng));
        one_slice(&mut rep, &mut rec, len, a, b, c, 1);
        if i % 3 == 0 {
            let form = CTX_FORMS[rng.below(CTX_FORMS.len())];
            one_ctx(&mut rep, &mut rec, form, len, a, b, c);
        }
        if len > 64 && i % 2 == 0 {
            // long runs: bounds strictly inside the array, small strides of either sign
            let lo = rng.below(len / 4 + 1) as i64;
            let hi = (len - rng.below(len / 4 + 1)) as i64 - 1;
            let st = [1i64, -1, 2, -2, 3, -3][rng.below(6)];
            let (s0, s1) = if st > 0 { (lo, hi) } else { (hi, lo) };
            let neg = |x: i64, r: &mut Rng| if r.below(3) == 0 { x - len as i64 } else { x };
            let (s0, s1) = (neg(s0, &mut rng), neg(s1, &mut rng));
            one_slice(&mut rep, &mut rec, len, Some(s0), Some(s1), Some(st), 1);
            one_slice(&mut rep, &mut rec, len, Some(s0), None, Some(st), 1);
            one_slice(&mut rep, &mut rec, len, None, Some(s1), Some(st), 1);
            let form = CTX_FORMS[rng.below(CTX_FORMS.len())];
            one_ctx(&mut rep, &mut rec, form, len, Some(s0), Some(s1), Some(st));
        }
        if i % 4 == 0 {
            let n = pick(&mut rng).unwrap_or(0);
            one_index(&mut rep, &mut rec, len, n);
        }
    }
    // (4) non-array subjects: slicing / indexing anything else is null
    if args.shard == 0 {
        for d in [json!(null), json!(true), json!(1), json!("abc"), json!({"a": [1, 2]}), json!(1.5)] {
            for text in ["@[0:1]", "@[::-1]", "@[0]", "@[-1]", "@[1:]", "@[:2:2]"] {
                rep.evaluations += 1;
                match guarded(|| jmespath::compile(text).and_then(|e| e.search(rcvar_of(&d)))) {
                    Ok(Ok(v)) if v.is_null() => rep.count("non_array_subject_null"),
                    other => rep.violation(
                        "C07/non-array-subject-not-null",
                        json!({"expression": text, "document": d, "got": format!("{:?}", other.map(|r| r.map(|v| v.to_string())))}),
                    ),
                }
            }
        }
    }
    if args.shard == 0 {
        for d in [json!(null), json!(true), json!(1), json!("abc"), json!({"a": [1, 2]})] {
            for text in ["@[::0]", "@[1:2:0]", "a[::0]", "@[*][::0]"] {
                rep.evaluations += 1;
                match guarded(|| jmespath::compile(text).and_then(|e| e.search(rcvar_of(&d)))) {
                    Ok(Err(e)) if err_class(&e) == "invalid-slice" => rep.count("step0_on_non_array_is_error"),
                    // `a[::0]` / `@[*][::0]` never reach the slice when the subject before it is null / not an array
                    Ok(Ok(v)) if v.is_null() && (text == "@[*][::0]" || (text == "a[::0]" && false)) => rep.count("slice_not_reached"),
                    other => rep.violation(
                        "C07/step-0-on-non-array-subject-is-not-an-error",
                        json!({"expression": text, "document": d, "got": format!("{:?}", other.map(|r| r.map(|v| v.to_string())))}),
                    ),
                }
            }
        }
    }
    drop(rec);
    let _ = file.flush();
    rep.extra.insert("records_file".into(), json!(path));
    emit_report(args, &rep);
}
