//! C09 — raw strings, JSON literals and quoted identifiers denote exactly their value.
//! Oracle: (1) independent token decoder on arbitrary token source text;
//! (2) round-trip laws on their exact domains; (3) unquoted identifiers;
//! (4) malformed forms are rejected.

use crate::common::*;
use refimpl::gen::gen_doc;
use refimpl::json::{spell_json, spell_json_string, val_identical};
use refimpl::lex::{lex, spell_raw, Tok};
use refimpl::rng::{fnv, Rng};
use serde_json::{json, Map, Value};

const ALPHA: [&str; 44] = [
    "\r", "\r\n", "\n\r", "\u{0}",
    "\\", "\\", "'", "\"", "`", "u", "0", "0", "d", "8", "D", "c", "n", "t", "b", "f", "r", "/", "a", "x", " ", "\n", "\t", "\u{0}", "\u{1}",
    "\u{7f}", "é", "ÿ", "日", "\u{1F600}", "\u{FFFF}", "\u{10FFFF}", "{", "}", "[", "]", ":", ",", "1", "-",
];
const DANGER: [&str; 8] = ["\\", "'", "\"", "`", "u", "0", "n", "a"];

fn rand_string(rng: &mut Rng, max: usize) -> String {
    let n = rng.below(max + 1);
    (0..n).map(|_| ALPHA[rng.below(ALPHA.len())]).collect()
}

fn search(text: &str, doc: &Value) -> Result<Result<Value, String>, String> {
    guarded(|| match jmespath::compile(text) {
        Ok(e) => match e.search(rcvar_of(doc)) {
            Ok(v) => value_of(&v).map_err(|w| w.to_string()),
            Err(e) => Err(format!("search error: {}", err_class(&e))),
        },
        Err(e) => Err(format!("compile error: {}", err_class(&e))),
    })
}

/// A document in which `key` maps to a marker and near-miss keys map to decoys.
fn marker_doc(key: &str, spelled: &str) -> Value {
    let mut m = Map::new();
    let cs: Vec<char> = key.chars().collect();
    let mut decoys: Vec<String> = vec![spelled.to_string(), spelled.trim_matches('"').to_string(), format!("{}x", key), format!(" {}", key)];
    if !cs.is_empty() {
        decoys.push(cs[1..].iter().collect());
        decoys.push(cs[..cs.len() - 1].iter().collect());
        let mut dbl = cs.clone();
        dbl.push(cs[cs.len() - 1]);
        decoys.push(dbl.iter().collect());
    }
    for (i, d) in decoys.into_iter().enumerate() {
        if d != key {
            m.insert(d, json!(format!("decoy{}", i)));
        }
    }
    m.insert(key.to_string(), json!("MARK"));
    Value::Object(m)
}

fn decoder_agreement(rep: &mut Report, body: &str, form: u8) {
    rep.evaluations += 1;
    let (text, what) = match form {
        0 => (format!("'{}'", body), "raw"),
        1 => (format!("`{}`", body), "literal"),
        _ => (format!("\"{}\"", body), "quoted"),
    };
    let toks = lex(&text);
    let single = match &toks {
        Ok(ts) if ts.len() == 2 => Some(ts[0].tok.clone()),
        Ok(_) => {
            rep.count("not_a_single_token_skipped");
            return;
        }
        Err(_) => None,
    };
    match single {
        Some(Tok::Raw(want)) => match search(&text, &Value::Null) {
            Ok(Ok(Value::String(got))) if got == want => {
                rep.count("decode_agree/raw");
                if body.contains('\\') || body.chars().any(|c| !c.is_ascii()) {
                    rep.nontrivial(fnv(text.as_bytes()));
                }
            }
            other => rep.violation("C09/raw-string-decodes-differently", json!({"source": text, "expected": want, "got": format!("{:?}", other)})),
        },
        Some(Tok::Lit(want)) => match search(&text, &Value::Null) {
            Ok(Ok(got)) if val_identical(&got, &want) || refimpl::json::val_eq(&got, &want, 0.0) => {
                rep.count("decode_agree/literal");
                rep.nontrivial(fnv(text.as_bytes()));
            }
            other => rep.violation("C09/literal-decodes-differently", json!({"source": text, "expected": want, "got": format!("{:?}", other)})),
        },
        Some(Tok::QIdent(key)) => {
            let doc = marker_doc(&key, &text);
            match search(&text, &doc) {
                Ok(Ok(Value::String(m))) if m == "MARK" => {
                    rep.count("decode_agree/quoted");
                    if body.contains('\\') || body.chars().any(|c| !c.is_ascii()) {
                        rep.nontrivial(fnv(text.as_bytes()));
                    }
                }
                other => rep.violation(
                    "C09/quoted-identifier-selects-wrong-member",
                    json!({"source": text, "decoded_key": key, "document": doc, "got": format!("{:?}", other)}),
                ),
            }
        }
        Some(_) => rep.count("other_token_skipped"),
        None => match search(&text, &Value::Null) {
            Ok(Err(e)) if e.starts_with("compile error: parse") => rep.count(&format!("malformed_rejected/{}", what)),
            other => rep.violation(
                &format!("C09/malformed-{}-accepted", what),
                json!({"source": text, "reference": format!("{:?}", toks.err()), "got": format!("{:?}", other)}),
            ),
        },
    }
}

fn roundtrips(rep: &mut Report, rng: &mut Rng, i: u64) {
    // raw string law
    let s = rand_string(rng, 24);
    rep.evaluations += 1;
    match spell_raw(&s) {
        Some(sp) => match search(&sp, &Value::Null) {
            Ok(Ok(Value::String(got))) if got == s => {
                rep.count("roundtrip/raw");
                if s.contains('\'') || s.contains('\\') {
                    rep.nontrivial(fnv(sp.as_bytes()));
                }
            }
            other => rep.violation("C09/raw-string-roundtrip", json!({"string": s, "spelling": sp, "got": format!("{:?}", other)})),
        },
        None => rep.count("raw_string_has_no_spelling_skipped"),
    }
    // literal law: every JSON value, several spellings
    let v = match rng.below(4) {
        0 => Value::String(rand_string(rng, 16)),
        1 => json!([rand_string(rng, 6), {"k`": rand_string(rng, 6)}, rng.range(-1000, 1000)]),
        _ => {
            let mut d = gen_doc(rng, 3);
            if let Value::Object(m) = &mut d {
                m.insert(rand_string(rng, 5), Value::String(rand_string(rng, 8)));
            }
            d
        }
    };
    for style in 0..3u8 {
        rep.evaluations += 1;
        let j = spell_json(&v, style);
        let sp = format!("`{}`", j.replace('`', "\\`"));
        match search(&sp, &Value::Null) {
            Ok(Ok(got)) if val_identical(&got, &v) => {
                rep.count("roundtrip/literal");
                if j.contains('`') || j.contains("\\u") {
                    rep.nontrivial(fnv(sp.as_bytes()));
                }
                if i % 3001 == 0 {
                    rep.sample_family("literal-roundtrip", 2, json!({"spelling": sp, "value": v}));
                }
            }
            other => rep.violation("C09/literal-roundtrip", json!({"value": v, "spelling": sp, "got": format!("{:?}", other)})),
        }
    }
    // quoted identifier law
    let k = rand_string(rng, 12);
    for style in 0..3u8 {
        rep.evaluations += 1;
        let sp = spell_json_string(&k, style);
        let doc = marker_doc(&k, &sp);
        match search(&sp, &doc) {
            Ok(Ok(Value::String(m))) if m == "MARK" => {
                rep.count("roundtrip/quoted");
                rep.nontrivial(fnv(sp.as_bytes()));
                if i % 3001 == 1 {
                    rep.sample_family("quoted-identifier-roundtrip", 2, json!({"key": k, "spelling": sp}));
                }
            }
            other => rep.violation("C09/quoted-identifier-roundtrip", json!({"key": k, "spelling": sp, "document": doc, "got": format!("{:?}", other)})),
        }
        // and as a sub-expression / multi-select key
        rep.evaluations += 1;
        let nested = format!("{{{}: @}}.{}.{}", sp, sp, sp);
        match search(&nested, &doc) {
            Ok(Ok(Value::String(m))) if m == "MARK" => rep.count("roundtrip/quoted-as-hash-key"),
            other => rep.violation("C09/quoted-identifier-as-hash-key", json!({"key": k, "expression": nested, "got": format!("{:?}", other)})),
        }
    }
    // unquoted identifiers select exactly that name
    let names = ["a", "ab", "a_b", "_", "_1", "A", "foo0", "Zz_9"];
    let name = names[rng.below(names.len())];
    rep.evaluations += 1;
    let doc = marker_doc(name, name);
    match search(name, &doc) {
        Ok(Ok(Value::String(m))) if m == "MARK" => rep.count("unquoted_identifier_ok"),
        other => rep.violation("C09/unquoted-identifier-selects-wrong-member", json!({"name": name, "document": doc, "got": format!("{:?}", other)})),
    }
}

/// Several delimited tokens in one expression: each must denote its own value whatever
/// stands next to it (a lexer buffer reused across tokens, a literal table keyed by the
/// bare text, an escape that changes how the *next* token is read).
fn several_tokens(rep: &mut Report, rng: &mut Rng) {
    const SHARED: [&str; 10] = ["1", "true", "null", "[1]", "\"a\"", "{}", "-0.5", "\"\"", "[\"x\", 2]", "{\"k\": 1}"];
    let n = 2 + rng.below(3);
    let mut doc = Map::new();
    doc.insert("pad".into(), json!(0));
    let mut toks: Vec<(String, Value)> = vec![];
    let mut shared_body: Option<&str> = None;
    for _ in 0..n {
        match rng.below(8) {
            0 | 1 => {
                let s = if rng.chance(1, 3) { format!("{}'{}", rand_string(rng, 4), rand_string(rng, 4)) } else { rand_string(rng, 10) };
                if let Some(sp) = spell_raw(&s) {
                    toks.push((sp, Value::String(s)));
                }
            }
            2 | 3 => {
                let v = match rng.below(3) {
                    0 => Value::String(rand_string(rng, 8)),
                    1 => json!([rand_string(rng, 4), rng.range(-9, 9)]),
                    _ => gen_doc(rng, 2),
                };
                let j = spell_json(&v, rng.below(3) as u8);
                toks.push((format!("`{}`", j.replace('`', "\\`")), v));
            }
            4 | 5 => {
                let k = rand_string(rng, 8);
                let mark = json!(format!("MARK:{:x}", fnv(k.as_bytes())));
                doc.insert(k.clone(), mark.clone());
                toks.push((spell_json_string(&k, rng.below(3) as u8), mark));
            }
            _ => {
                // the same characters between different delimiters
                let x = *shared_body.get_or_insert(SHARED[rng.below(SHARED.len())]);
                if rng.chance(1, 2) {
                    toks.push((format!("'{}'", x), Value::String(x.to_string())));
                } else {
                    toks.push((format!("`{}`", x), refimpl::json::parse_json(x, 16).expect("shared body is JSON")));
                }
            }
        }
    }
    if toks.len() < 2 {
        return;
    }
    let docv = Value::Object(doc);
    for order in 0..2 {
        let seq: Vec<&(String, Value)> = if order == 0 { toks.iter().collect() } else { toks.iter().rev().collect() };
        let text = format!("[{}]", seq.iter().map(|t| t.0.as_str()).collect::<Vec<_>>().join(if order == 0 { ", " } else { "," }));
        let want = Value::Array(seq.iter().map(|t| t.1.clone()).collect());
        rep.evaluations += 1;
        match search(&text, &docv) {
            Ok(Ok(got)) if val_identical(&got, &want) => {
                rep.count("several_tokens_ok");
                rep.nontrivial(fnv(text.as_bytes()));
            }
            other => rep.violation(
                "C09/token-value-depends-on-neighbouring-tokens",
                json!({"expression": text, "document": docv, "expected": want, "got": format!("{:?}", other)}),
            ),
        }
    }
}

/// A raw string or a literal denotes its value wherever it stands — also where the current node
/// is null (behind a pipe from a missing member, inside a parenthesised pipe, as the right side
/// of `||`), where an evaluator that propagates null early never gets to look at it.
fn token_under_null(rep: &mut Report, rng: &mut Rng) {
    let (tok, want): (String, Value) = if rng.chance(1, 2) {
        let s = rand_string(rng, 8);
        match spell_raw(&s) {
            Some(sp) => (sp, Value::String(s)),
            None => return,
        }
    } else {
        let v = match rng.below(4) {
            0 => Value::String(rand_string(rng, 6)),
            1 => json!([rand_string(rng, 3), 1]),
            // integers at and beyond the ends of the signed 64-bit range, as literals
            2 => [json!(18446744073709551615u64), json!(9223372036854775808u64), json!(9223372036854775807i64), json!(-9223372036854775808i64), json!(9007199254740993u64)][rng.below(5)].clone(),
            _ => json!({"k": [18446744073709551615u64, rand_string(rng, 3)]}),
        };
        (format!("`{}`", spell_json(&v, rng.below(3) as u8).replace('`', "\\`")), v)
    };
    // as the right-hand side of a projection over elements some of which are null: one copy per non-null element
    {
        let docp = json!({"xs": [null, {"b": 2}, null, 7, "s"], "ys": [{"b": 1}, null]});
        let (t2, w2) = (tok.clone(), want.clone());
        for (text, k) in [(format!("xs[*].[{}]", t2), 3usize), (format!("ys[*].[{}, {}]", t2, t2), 1), (format!("xs[*].{{k: {}}}", t2), 3), (format!("xs[].[{}]", t2), 3), (format!("xs[1:].[{}]", t2), 3)] {
            let item = if text.contains("{k:") {
                json!({"k": w2.clone()})
            } else if text.starts_with("ys") {
                json!([w2.clone(), w2.clone()])
            } else {
                json!([w2.clone()])
            };
            let expect = Value::Array((0..k).map(|_| item.clone()).collect());
            rep.evaluations += 1;
            match search(&text, &docp) {
                Ok(Ok(got)) if val_identical(&got, &expect) => rep.count("token_in_projection_ok"),
                other => rep.violation("C09/token-loses-its-value-under-a-null-current-node", json!({"expression": text, "document": docp, "expected": expect, "got": format!("{:?}", other)})),
            }
        }
    }
    const CTX: [(&str, bool); 12] = [
        ("nope | {}", false), ("nope | (@ | {})", false), ("[nope | {}]", true), ("nope || {}", false), ("(nope | @) | {}", false), ("nope.x | {}", false), ("`null` | {}", false),
        ("[`null`][0] | (@ | {})", false), ("{a: nope | (@ | {})}.a", false), ("nope | nope | {}", false), ("nope | ({} | @)", false), ("[nope | (nope | {})]", true),
    ];
    let (frame, listed) = CTX[rng.below(CTX.len())];
    let text = frame.replacen("{}", &tok, 1);
    let want = if listed { Value::Array(vec![want]) } else { want };
    rep.evaluations += 1;
    match search(&text, &json!({"z": 0})) {
        Ok(Ok(got)) if val_identical(&got, &want) && got.to_string() == want.to_string() => {
            rep.count("token_under_null_ok");
            rep.nontrivial(fnv(text.as_bytes()));
        }
        other => rep.violation("C09/token-loses-its-value-under-a-null-current-node", json!({"expression": text, "expected": want, "got": format!("{:?}", other)})),
    }
}

pub fn run(args: &Args) {
    let mut rep = Report::new("C09");
    // exhaustive: all strings of length <= 3 over the 8 most dangerous characters, 3 forms
    let mut idx = 0u64;
    let mut bodies = vec![String::new()];
    for a in DANGER {
        bodies.push(a.to_string());
        for b in DANGER {
            bodies.push(format!("{}{}", a, b));
            for c in DANGER {
                bodies.push(format!("{}{}{}", a, b, c));
            }
        }
    }
    // literal bodies additionally wrapped in quotes so that they can be valid JSON strings
    for body in &bodies {
        for form in 0..3u8 {
            idx += 1;
            if idx % args.shards != args.shard {
                continue;
            }
            decoder_agreement(&mut rep, body, form);
            if form == 1 {
                decoder_agreement(&mut rep, &format!("\"{}\"", body), 1);
            }
        }
    }
    // a backslash followed by (and following) every ASCII character, control characters included, and a few others
    if args.shard == 0 {
        let mut others: Vec<char> = (0u8..=0x7f).map(|c| c as char).collect();
        others.extend(['\u{80}', '\u{85}', '\u{a0}', 'é', '\u{2028}', '\u{2029}', '\u{feff}', '\u{ffff}', '\u{1F600}']);
        for x in others {
            for form in 0..3u8 {
                for body in [format!("a\\{}b", x), format!("{}\\", x), format!("\\{}", x), format!("a{}\\\\{}", x, x), format!("\r\n{}", x), format!("{}\r\n", x)] {
                    decoder_agreement(&mut rep, &body, form);
                }
            }
        }
    }
    rep.add("enumerated_bodies", bodies.len() as u64);
    // fixed malformed forms
    if args.shard == 0 {
        for t in [
            "'", "\"", "`", "a.'", "foo.\"bar\".\"", "a | `", "[a, '", "a == \"", "'abc", "\"abc", "`abc", "'abc\\", "\"abc\\", "`abc\\", "\"a\nb\"", "\"\\ud800\"", "\"\\udc00\"", "\"\\ud800\\u0041\"", "\"\\x\"", "\"\\u12\"",
            "`{`", "`[1,]`", "`01`", "`'a'`", "`a`", "``", "` `", "`1 2`", "`\"\\ud800\"`", "`nul`", "`1e400`", "\"\t\"",
        ] {
            rep.evaluations += 1;
            match search(t, &Value::Null) {
                Ok(Err(e)) if e.starts_with("compile error: parse") => rep.count("fixed_malformed_rejected"),
                other => rep.violation("C09/malformed-form-accepted", json!({"source": t, "got": format!("{:?}", other)})),
            }
        }
    }
    for i in 0..args.n {
        let mut rng = Rng::derive(args.seed, args.shard + 6000, i);
        let body = rand_string(&mut rng, 24);
        let form = rng.below(3) as u8;
        decoder_agreement(&mut rep, &body, form);
        if form == 1 && rng.chance(1, 2) {
            decoder_agreement(&mut rep, &format!("\"{}\"", rand_string(&mut rng, 10)), 1);
        }
        roundtrips(&mut rep, &mut rng, i);
        several_tokens(&mut rep, &mut rng);
        token_under_null(&mut rep, &mut rng);
        if i % 5 == 0 {
            // keywords, numbers and strings padded with characters Unicode calls white space but JSON does not
            let blank = ["\u{A0}", "\u{B}", "\u{C}", "\u{85}", "\u{2003}", "\u{2028}", "\u{3000}", "\u{FEFF}", " ", "\n"][rng.below(10)];
            let core = ["true", "false", "null", "1", "\"s\"", "[1]", "{}", "-0.5"][rng.below(8)];
            let body = match rng.below(3) {
                0 => format!("{}{}", blank, core),
                1 => format!("{}{}", core, blank),
                _ => format!(" {}{} ", blank, core),
            };
            decoder_agreement(&mut rep, &body, 1);
        }
        if i % 7 == 0 {
            // a literal object with a repeated member name denotes the JSON value every reader here gives it (the
            // later member wins): two or three occurrences, adjacent or far apart, spelled the same or through
            // escapes, in objects of 2..70 members, at the top or nested; then selected by name
            let n = [2usize, 3, 4, 8, 16, 31, 32, 33, 40, 48, 64, 70][rng.below(12)];
            let name = ["a", "dup", "é", "k 1", ""][rng.below(5)];
            let respelled = match name { "a" => "\\u0061", "dup" => "d\\u0075p", "é" => "\\u00e9", "k 1" => "k\\u00201", _ => "" };
            let (p, q) = (rng.below(n), rng.below(n));
            let third = if rng.chance(1, 3) { Some(rng.below(n)) } else { None };
            let members: Vec<String> = (0..n)
                .map(|k| {
                    if k == p || k == q || Some(k) == third {
                        format!("\"{}\": {}", if k == q.max(p) && rng.chance(1, 2) { respelled } else { name }, 100 + k)
                    } else {
                        format!("\"m{}\": {}", (k * 37) % 101, k)
                    }
                })
                .collect();
            let obj = format!("{{{}}}", members.join(if rng.chance(1, 2) { ", " } else { "," }));
            let body = match rng.below(3) { 0 => obj.clone(), 1 => format!("[{}, 1]", obj), _ => format!("{{\"o\": {}}}", obj) };
            decoder_agreement(&mut rep, &body, 1);
            // … and the member selected from the literal is the last one written
            let last = [Some(p), Some(q), third].iter().flatten().max().cloned().unwrap();
            let sel = format!("`{}`.\"{}\"", obj, name);
            rep.evaluations += 1;
            match search(&sel, &Value::Null) {
                Ok(Ok(v)) if v == json!(100 + last) => rep.count("repeated_member_of_a_literal_is_the_last_one"),
                other => rep.violation("C09/literal-decodes-differently", json!({"source": sel, "expected": 100 + last, "got": format!("{:?}", other), "what": "a repeated member name in a literal object: the later member wins"})),
            }
        }
        if i % 11 == 0 {
            // a quoted identifier is never a function name, whatever stands between it and the parenthesis
            let gap = ["", " ", "\t", "\n", "\r\n", "  ", " \n "][rng.below(7)];
            let f = ["length", "abs", "type", "not_null", "foo"][rng.below(5)];
            let arg = ["@", "a", "`1`", "'x'", ""][rng.below(5)];
            for text in [format!("\"{}\"{}({})", f, gap, arg), format!("a.\"{}\"{}({})", f, gap, arg), format!("[\"{}\"{}({})]", f, gap, arg), format!("a | \"{}\"{}({})", f, gap, arg), format!("\"{}\"{}({}) || b", f, gap, arg)] {
                rep.evaluations += 1;
                match search(&text, &json!({"length": 1, "a": {"length": 2}})) {
                    Ok(Err(e)) if e.starts_with("compile error: parse") => rep.count("quoted_identifier_in_call_position_rejected"),
                    other => rep.violation("C09/malformed-form-accepted", json!({"source": text, "got": format!("{:?}", other), "what": "a quoted identifier in call position"})),
                }
            }
        }
        if i % 6 == 0 {
            // long bodies, well-formed or not, with multi-byte characters where text gets cut
            let around = [16usize, 32, 64, 100, 128, 160, 200, 256, 512, 1024, 4096][rng.below(11)];
            let n = (around + rng.below(9)).saturating_sub(6);
            let filler: String = (0..n).map(|k| [b'a', b'x', b' '][k % 3] as char).collect();
            let wide: String = (0..1 + rng.below(4)).map(|_| ["é", "日", "\u{1F600}", "ÿ", "\u{7f}"][rng.below(5)]).collect();
            let tail = ["", "", "", "\\x", "\\", "\u{1}", "\\u12", "\\ud800", "\\n", "\\'"][rng.below(10)];
            let body = format!("{}{}{}", filler, wide, tail);
            let form = rng.below(3) as u8;
            decoder_agreement(&mut rep, &body, form);
            if form == 1 {
                decoder_agreement(&mut rep, &format!("\"{}\"", body), 1);
                decoder_agreement(&mut rep, &format!("[\"{}\", ]", body), 1);
            }
        }
    }
    emit_report(args, &rep);
}
