//! C12 — errors are classified and located truthfully.
//! Oracles: reference evaluator predicts class and failing site (positions
//! from the reference parser); coordinates and rendering are recomputed
//! independently; the shadow-call-stack hook checks ctx.offset at from_ctx.

use crate::common::*;
use jmespath::JmespathError;
use refimpl::eval::{Builtins, ErrKind, Evaluator};
use refimpl::parse::{parse, Opts};
use refimpl::print::respace;
use refimpl::rng::{fnv, Rng};
use refimpl::sentence::{char_soup, join_tokens, mutate_tokens, SentenceGen};
use serde_json::{json, Value};

/// Independent renderer of the documented message layout: the reason and the
/// coordinates, then the expression with a caret line inserted directly after
/// line L (which is terminated first if it is the last, unterminated line).
fn render(e: &JmespathError) -> String {
    let mut out = format!("{} (line {}, column {})\n", e.reason, e.line, e.column);
    let caret = format!("{}^\n", " ".repeat(e.column));
    let segs: Vec<&str> = e.expression.split('\n').collect();
    let last = segs.len() - 1;
    let mut injected = false;
    for (i, seg) in segs.iter().enumerate() {
        out.push_str(seg);
        if i < last {
            out.push('\n');
        }
        if i == e.line {
            if i == last {
                out.push('\n');
            }
            out.push_str(&caret);
            injected = true;
        }
    }
    if !injected {
        out.push('\n');
        out.push_str(&caret);
    }
    out
}

/// Checks 3 (coordinates) and 4 (rendering) on any error.
pub fn check_coordinates(rep: &mut Report, e: &JmespathError, source: &str, what: &str) -> bool {
    let mut ok = true;
    let expr = &e.expression;
    if e.offset > expr.len() || !expr.is_char_boundary(e.offset) {
        rep.violation(
            "C12/offset-outside-expression-or-not-on-char-boundary",
            json!({"source": source, "error": err_json(e), "kind": what}),
        );
        return false;
    }
    // a call that failed is pointed at by its opening parenthesis: whatever the text, the byte under
    // the offset of an unknown-function / arity / type error is a `(`
    if matches!(err_class(e), "unknown-function" | "arity" | "type") && expr.as_bytes().get(e.offset) != Some(&b'(') {
        rep.violation(
            "C12/call-error-does-not-point-at-an-opening-parenthesis",
            json!({"source": source, "error": err_json(e), "kind": what, "character_at_offset": expr[e.offset..].chars().next().map(|c| c.to_string())}),
        );
        ok = false;
    }
    let before = &expr[..e.offset];
    let line = before.matches('\n').count();
    let column = match before.rfind('\n') {
        Some(i) => before[i + 1..].chars().count(),
        None => before.chars().count(),
    };
    if (line, column) != (e.line, e.column) {
        rep.violation(
            "C12/line-column-do-not-match-offset",
            json!({"source": source, "offset": e.offset, "reported": [e.line, e.column], "recomputed": [line, column], "kind": what}),
        );
        ok = false;
    }
    let shown = e.to_string();
    let want = render(e);
    if shown != want {
        rep.violation("C12/rendered-message-layout", json!({"source": source, "display": shown, "independent_rendering": want, "kind": what}));
        ok = false;
    }
    let prefix = match &e.reason {
        jmespath::ErrorReason::Parse(_) => "Parse error:",
        jmespath::ErrorReason::Runtime(_) => "Runtime error:",
    };
    if !shown.starts_with(prefix) {
        rep.violation("C12/reason-text-names-wrong-class", json!({"source": source, "display": shown}));
        ok = false;
    }
    if ok && (before.chars().any(|c| !c.is_ascii()) || line > 0) {
        rep.nontrivial(fnv(source.as_bytes()) ^ (e.offset as u64));
    }
    ok
}

const CORES: [&str; 45] = [
    // key expressions that contain successful non-call steps (slices, projections, multi-selects, ||)
    // before the by-function rejects the key's type: the error still belongs to the by-function
    "sort_by(`[{\"t\":[\"a\",\"b\"]},{\"t\":[\"c\"]}]`, &t[0:1])",
    "max_by(`[{\"t\":[1,2]},{\"t\":[3]}]`, &t[::-1])",
    "min_by(`[[1,2],[3]]`, &@[1:])",
    "sort_by(`[{\"t\":[1]}]`, &t[*])",
    "sort_by(`[{\"t\":[[1]]}]`, &t[])",
    "max_by(`[{\"t\":[1]}]`, &t[?@])",
    "min_by(`[{\"t\":1}]`, &{a: t})",
    "sort_by(`[{\"t\":1}]`, &[t])",
    "sort_by(`[{\"t\":1},{\"u\":1}]`, &t || `[]`)",
    "max_by(`[{\"t\":1},{\"t\":true}]`, &t == `1`)",
    "sort_by(`[{\"t\":[3,1]}]`, &t[0:2] | [::-1])",
    "min_by(`[{\"t\":{\"a\":1}}]`, &t.*)",
    "merge(`{}`, `{}`, `1`)",
    "merge(`{\"a\":1}`, `{}`, `{}`, 'x')",
    "not_null(`null`, nofn(`1`))",
    "contains(`[1]`, `1`, `2`)",
    "join(', ', `[\"a\", 1]`)",
    "`[[1],[2]]`[::0].a",
    "`[1,2,3]`[::0][0]",
    "`[[1],[2]]`[1:2:0][?@]",
    "`[1,2,3]`[::0].to_string(@)",
    "`[[1,2]]`[*][::0].b.c",
    "`{\"k\":[1,2]}`.k[0:1:0].x[0]",
    "nofn(@)",
    "nofn(`1`, 'x')",
    "length()",
    "abs(@, @)",
    "abs('x')",
    "length(`1`)",
    "join(`1`, `[]`)",
    "starts_with('a')",
    "sort_by(`[{\"k\":1},{\"k\":\"a\"}]`, &k)",
    "sort_by(`[{\"k\":1},{\"k\":2},{\"k\":null}]`, &k)",
    "max_by(`[{\"k\":\"a\"},{\"k\":\"b\"},{\"k\":3}]`, &k)",
    "min_by(`[[1],[2]]`, &@)",
    "sort_by(`[[1]]`, &to_array(@))",
    "sort_by(`[{\"n\":1},{\"n\":2}]`, &to_array(n))",
    "min_by(`[{\"n\":1},{\"n\":\"a\"}]`, &not_null(n))",
    "max_by(`[{\"n\":[1]},{\"n\":[2]}]`, &not_null(n, length(n)))",
    "`[1,2,3]`[::0]",
    "`[1,2,3]`[1:2:0]",
    "map(&nofn(@), `[1]`)",
    "map(&abs(@), `[1, \"x\"]`)",
    "merge(`{}`, `1`)",
    "not_null()",
];

const PREFIXES: [&str; 18] = [
    "'C:\\été' | ",
    "'\\中' | ",
    "'a\\\'é\\日' || ",
    "`\"\\\\é\"` | ",
    "\"\\u00e9\\\\é\" || ",
    "'\\\u{1F600}\\x' | ",
    "",
    "'é' | ",
    "'日本\n語' | ",
    "\"\\u00e9\" || ",
    "`\"\u{1F600}\"` | ",
    "'a\r\nb' | ",
    "'x'\r| ",
    "\r",
    "\"é日\u{1F600}\" || ",
    "`[\"é\"]`[0] | ",
    "'\u{10FFFF}' | 'é' | ",
    "!'é' || ",
];

/// A prefix from the fixed list, or (rarely) a long run of blanks, line breaks or multi-byte
/// literals that pushes the offset, the line or the column past 255 / 65 535.
fn prefix(rng: &mut Rng) -> String {
    if rng.chance(1, 40) {
        let n = [250usize, 255, 256, 257, 300, 65_530, 65_535, 65_536, 65_537, 70_000][rng.below(10)];
        match rng.below(4) {
            0 => " ".repeat(n),
            1 => "\n".repeat(n),
            2 => format!("'{}' | ", "é".repeat(n)),
            _ => format!("{}{}", "\n".repeat(n / 2), " ".repeat(n - n / 2)),
        }
    } else {
        PREFIXES[rng.below(PREFIXES.len())].to_string()
    }
}

fn wrap(rng: &mut Rng, core: &str) -> String {
    match rng.below(14) {
        0 => core.to_string(),
        1 => format!("@ | {}", core),
        2 => format!("[{}, `1`]", core),
        3 => format!("{{k: `1`, \"é\": {}}}", core),
        4 => format!("`[1,2]`[*].{}", core).replace(".`", " | `"),
        5 => format!("length({})", core),
        6 => format!("map(&{}, `[1,2]`)", core),
        7 => format!("!{}", core),
        8 => format!("{} || `1`", core),
        9 => format!("`true` && {}", core),
        10 => format!("{} == `1`", core),
        11 => format!("`[1,2]`[?{}]", core),
        12 => format!("to_array([{}])", core),
        _ => format!("({})", core),
    }
}

pub fn run(args: &Args) {
    let mut rep = Report::new("C12");
    let ev = Evaluator::new(&Builtins);
    let strict = Opts::strict();
    for i in 0..args.n {
        let mut rng = Rng::derive(args.seed, args.shard + 8000, i);
        match i % 5 {
            0 | 1 | 2 => runtime_case(&mut rep, &ev, &strict, &mut rng, i),
            3 => parse_case(&mut rep, &mut rng),
            _ => match (i / 5) % 8 {
                0 | 1 => never_failing_case(&mut rep, &mut rng),
                2 => value_that_is_a_reference_case(&mut rep, &mut rng),
                3 => boundary_numbers_case(&mut rep, &mut rng),
                _ => nonfinite_case(&mut rep, &mut rng),
            },
        }
    }
    emit_report(args, &rep);
}

fn runtime_case(rep: &mut Report, ev: &Evaluator, strict: &Opts, rng: &mut Rng, i: u64) {
    let core = CORES[rng.below(CORES.len())];
    let mut text = wrap(rng, core);
    if text.contains("[*] | ") {
        // the wrapper could not attach the core as a projection right-hand side
        text = format!("@ | {}", core);
    }
    let text = format!("{}{}", prefix(rng), text);
    let text = if rng.chance(2, 3) { respace(&text, rng) } else { text };
    let tree = match parse(&text, strict) {
        Ok(t) => t,
        Err(e) => {
            rep.harness_error(format!("C12 template does not parse in the reference: {:?} ({:?})", text, e));
            return;
        }
    };
    let doc = json!({"a": 1});
    let expected = ev.eval(&tree, &doc);
    rep.evaluations += 1;
    jmespath::verif::reset();
    let got = guarded(|| jmespath::compile(&text).and_then(|e| e.search(rcvar_of(&doc))));
    let events = jmespath::verif::take_events();
    let err = match got {
        Ok(Err(e)) => e,
        Ok(Ok(v)) => {
            if expected.is_err() {
                rep.violation("C12/failing-expression-succeeded", json!({"expression": text, "got": v.to_string()}));
            } else {
                rep.count("template_did_not_fail(both)");
            }
            return;
        }
        Err(p) => {
            rep.violation(&format!("C12/panic/{}", panic_site(&p)), json!({"expression": text, "panic": p}));
            return;
        }
    };
    let want = match expected {
        Err(e) => e,
        Ok(v) => {
            rep.violation("C12/unexpected-failure", json!({"expression": text, "reference_value": v, "error": err_json(&err)}));
            return;
        }
    };
    if let ErrKind::Unconstrained(_) = want.kind {
        rep.count("unconstrained_skipped");
        return;
    }
    // 1. classification and carried expression
    let cls = err_class(&err);
    if cls != want.class() {
        let sig = if cls == "parse" { "C12/parse-class-error-from-search".to_string() } else { format!("C12/wrong-runtime-error-kind/{}-for-{}", cls, want.class()) };
        rep.violation(&sig, json!({"expression": text, "expected_class": want.class(), "error": err_json(&err)}));
        return;
    }
    if err.expression != text {
        rep.violation("C12/error-does-not-carry-the-expression", json!({"expression": text, "carried": err.expression}));
    }
    // 2. location: the failing call's "(" or inside the offending slice
    let located = if want.kind == ErrKind::InvalidSlice {
        err.offset >= want.pos.0 && err.offset <= want.pos.1
    } else {
        err.offset == want.pos.0
    };
    if located {
        rep.count(&format!("located/{}", want.class()));
    } else {
        let inner_call = text.as_bytes().get(err.offset) == Some(&b'(');
        let sig = if want.kind == ErrKind::InvalidSlice {
            "C12/slice-error-points-outside-the-slice"
        } else if inner_call && core.contains('&') {
            "C12/error-points-at-a-call-inside-the-expref-not-at-the-failing-call"
        } else {
            "C12/error-does-not-point-at-the-failing-call"
        };
        rep.violation(sig, json!({"expression": text, "failing_function": want.fname, "expected_offset": [want.pos.0, want.pos.1], "reported_offset": err.offset, "class": cls}));
    }
    // hook invariant: at every from_ctx, ctx.offset is the innermost active call's offset
    for ev in &events {
        if ev.is_slice {
            rep.count("hook/from_ctx_slice");
            continue;
        }
        match &ev.active_call {
            Some((off, name)) => {
                if *off == ev.ctx_offset {
                    rep.count("hook/from_ctx_offset_is_innermost_call");
                } else {
                    rep.violation(
                        "C12/hook/ctx-offset-is-not-the-innermost-active-call",
                        json!({"expression": text, "ctx_offset": ev.ctx_offset, "innermost_call": [off, name], "call_depth": ev.call_depth}),
                    );
                }
            }
            None => rep.count("hook/from_ctx_without_active_call"),
        }
    }
    // 3 + 4
    check_coordinates(rep, &err, &text, "runtime");
    if i % 2003 == 0 {
        rep.sample(json!({"expression": text, "error": err_json(&err)}));
    }
}

fn parse_case(rep: &mut Report, rng: &mut Rng) {
    // syntax errors at arbitrary positions of multi-line, multi-byte expressions
    let mut parts = vec![];
    let budget = 3 + rng.below(12) as i32;
    SentenceGen::new(rng, budget).expression(&mut parts);
    let s = join_tokens(&parts, rng);
    let candidate = match rng.below(6) {
        0 => mutate_tokens(&s, rng).unwrap_or(s),
        1 => {
            // truncate at a random char boundary
            let idx: Vec<usize> = s.char_indices().map(|(i, _)| i).collect();
            if idx.is_empty() {
                s
            } else {
                s[..idx[rng.below(idx.len())]].to_string()
            }
        }
        2 => format!("{}{}", prefix(rng), char_soup(rng, 12)),
        3 => {
            if rng.chance(1, 2) {
                refimpl::sentence::long_token_case(rng)
            } else if rng.chance(1, 2) {
                refimpl::sentence::malformed_literal_case(rng)
            } else {
                refimpl::sentence::surrogate_case(rng)
            }
        }
        4 => {
            if rng.chance(1, 3) {
                refimpl::sentence::truncation_twin(&s, rng).unwrap_or(s)
            } else {
                format!("{}{}", prefix(rng), refimpl::sentence::lookalike_case(rng))
            }
        }
        _ => format!("{}\n{}", s, char_soup(rng, 6)),
    };
    rep.evaluations += 1;
    match guarded(|| jmespath::compile(&candidate).map(|_| ())) {
        Ok(Ok(())) => {
            rep.count("mutant_compiled");
            // whatever compiles (a sentence or not): a runtime error of searching it is located truthfully
            for d in [json!({"a": "x", "b": [1, "y"], "foo": {"bar": null}}), json!([{"a": 1}, null, "s"]), json!(null)] {
                if let Ok(Err(e)) = guarded(|| jmespath::compile(&candidate).and_then(|x| x.search(rcvar_of(&d)))) {
                    if err_class(&e) != "parse" && e.expression != candidate {
                        rep.violation("C12/error-does-not-carry-the-expression", json!({"expression": candidate, "carried": e.expression}));
                    }
                    if err_class(&e) != "parse" && check_coordinates(rep, &e, &candidate, "runtime-of-mutant") {
                        rep.count("runtime_error_of_mutant_coordinates_ok");
                    }
                }
            }
        }
        Ok(Err(e)) => {
            if err_class(&e) != "parse" {
                rep.violation("C12/compile-failure-is-not-a-parse-error", json!({"expression": candidate, "error": err_json(&e)}));
            }
            if e.expression != candidate {
                rep.violation("C12/error-does-not-carry-the-expression", json!({"expression": candidate, "carried": e.expression}));
            }
            if check_coordinates(rep, &e, &candidate, "parse") {
                rep.count("parse_error_coordinates_ok");
            }
        }
        Err(p) => rep.violation(&format!("C12/panic/{}", panic_site(&p)), json!({"expression": candidate, "panic": p})),
    }
}

/// Values that are expression references (obtainable as data: `not_null(&a)`, `to_array(&a)`) handed, one
/// element at a time, to calls that do not accept them: the invalid-type error belongs to the call that
/// rejected the element — its parenthesis — not to the `map` / by-function / projection that handed it over.
/// Each text names the rejecting function; the expected offset is the `(` that follows its last occurrence.
fn value_that_is_a_reference_case(rep: &mut Report, rng: &mut Rng) {
    const CASES: [(&str, &str); 14] = [
        ("map(&to_string(@), to_array(&a))", "to_string"),
        ("map(&abs(@), to_array(&a))", "abs"),
        ("map(&length(@), [not_null(&a), not_null(&b)])", "length"),
        ("to_array(&a)[*].to_string(@)", "to_string"),
        ("to_array(&a)[0] | length(@)", "length"),
        ("not_null(&a) | to_string(@)", "to_string"),
        ("not_null(`null`, &a) | abs(@)", "abs"),
        ("join('', to_array(&a))", "join"),
        ("sort(to_array(&a))", "sort"),
        ("map(&keys(@), [`{}`, not_null(&a)])", "keys"),
        ("[not_null(&a)][?to_string(@)]", "to_string"),
        ("map(&[@, to_string(@)], to_array(&a))", "to_string"),
        ("map(&to_string(@), [`1`, not_null(&a)])", "to_string"),
        ("to_array(&a)[*].[abs(@)]", "abs"),
    ];
    let (core, fname) = CASES[rng.below(CASES.len())];
    // (a raw-string prefix before `||` is truthy and would skip the core: pipe into it instead; the other `||`
    // prefixes are falsy — a missing member, a negated string — and hand the document on to the core)
    let pre = prefix(rng);
    let pre = match pre.trim_end().strip_suffix("||") {
        Some(p) if p.trim_start().starts_with('\'') => format!("{}| ", p),
        _ => pre,
    };
    let text = format!("{}{}", pre, core);
    let text = if rng.chance(1, 2) { respace(&text, rng) } else { text };
    rep.evaluations += 1;
    let got = guarded(|| jmespath::compile(&text).and_then(|e| e.search(rcvar_of(&json!({"a": 1})))));
    let at = text.rfind(&format!("{}", fname)).and_then(|k| text[k..].find('(').map(|d| k + d));
    match (got, at) {
        (Ok(Err(e)), Some(at)) => {
            if err_class(&e) != "type" {
                rep.violation(&format!("C12/wrong-runtime-error-kind/{}-for-type", err_class(&e)), json!({"expression": text, "error": err_json(&e), "what": "an expression reference handed to a call that does not accept one"}));
            } else if e.offset != at {
                rep.violation("C12/error-does-not-point-at-the-failing-call", json!({"expression": text, "failing_function": fname, "expected_offset": at, "reported_offset": e.offset, "what": "an expression reference handed to a call that does not accept one"}));
            } else {
                rep.count("located/reference-valued-element");
                rep.nontrivial(refimpl::rng::fnv(text.as_bytes()));
            }
            check_coordinates(rep, &e, &text, "runtime");
        }
        (Ok(Ok(v)), _) => rep.violation("C12/failing-expression-succeeded", json!({"expression": text, "got": v.to_string()})),
        (Err(p), _) => rep.violation(&format!("C12/panic/{}", panic_site(&p)), json!({"expression": text, "panic": p})),
        (_, None) => rep.harness_error(format!("no call of {} in {:?}", fname, text)),
    }
}

/// Calls whose contract is "a value or null, never a failure": whatever text `to_number` is given.
/// Well-typed numeric calls over integers at the edges of the 64-bit ranges (and the doubles next to them): such
/// a call returns a value; it does not fail with an error of the parse class, lose its expression, or panic.
fn boundary_numbers_case(rep: &mut Report, rng: &mut Rng) {
    let pool: [Value; 20] = [
        json!(9223372036854775807i64), json!(-9223372036854775808i64), json!(18446744073709551615u64), json!(9223372036854775808u64), json!(9223372036854775806i64), json!(-9223372036854775807i64),
        json!(9007199254740992i64), json!(9007199254740993i64), json!(-9007199254740993i64), json!(4294967296i64), json!(2147483648i64), json!(-2147483649i64), json!(1), json!(-1), json!(0),
        json!(1e19), json!(-1e19), json!(9.223372036854775807e18), json!(1.5), json!(1e300),
    ];
    let n = 1 + rng.below(4);
    let xs: Vec<Value> = (0..n).map(|_| pool[rng.below(pool.len())].clone()).collect();
    let doc = json!({"xs": xs, "ps": xs.iter().map(|v| json!({"v": v})).collect::<Vec<_>>(), "x": xs[0]});
    const TEXTS: [&str; 24] = [
        "sum(xs)", "avg(xs)", "max(xs)", "min(xs)", "sort(xs)", "abs(x)", "ceil(x)", "floor(x)", "to_number(x)", "to_string(x)", "map(&abs(@), xs)", "reverse(xs)", "contains(xs, x)", "sort_by(ps, &v)[0].v",
        "max_by(ps, &v).v", "min_by(ps, &abs(v)).v", "xs[?@ < x]", "xs[?@ >= x]", "x == xs[-1]", "join(',', map(&to_string(@), xs))", "sum(map(&abs(@), xs))", "length(xs)", "not_null(x)", "xs[*].ceil(@)",
    ];
    for _ in 0..3 {
        let text = TEXTS[rng.below(TEXTS.len())];
        rep.evaluations += 1;
        match guarded(|| jmespath::compile(text).and_then(|e| e.search(rcvar_of(&doc)))) {
            Ok(Ok(_)) => {
                rep.count("boundary_number_call_returned");
                rep.nontrivial(refimpl::rng::fnv(format!("{}|{}", text, doc).as_bytes()));
            }
            Ok(Err(e)) if err_class(&e) == "parse" || e.expression != text => rep.violation(
                "C12/parse-class-error-from-a-call-that-cannot-fail",
                json!({"expression": text, "document": doc, "error": err_json(&e), "what": "a well-typed numeric call over integers at the edge of the 64-bit ranges"}),
            ),
            Ok(Err(e)) => {
                // (an overflowing sum is the known non-finite finding's business; anything else still has to be located)
                check_coordinates(rep, &e, text, "runtime");
                rep.count("boundary_number_call_failed_with_a_located_runtime_error");
            }
            Err(p) => rep.violation(&format!("C12/panic/{}", panic_site(&p)), json!({"expression": text, "document": doc, "panic": p})),
        }
    }
}

fn never_failing_case(rep: &mut Report, rng: &mut Rng) {
    const TEXTS: [&str; 30] = [
        "2021-01-01", "1.2.3", "007", "1.", "-", "1e999", "-1e999", "1e", "1e+", "--1", "+1", ".5", "0x10", "1_000", "1,5", "12abc", "١٢", "1e-999", "00", "-0", "-01", "1.0.0", "1..2", "1e1e1",
        "9999999999999999999999999999", "NaN", "Infinity", "-Infinity", " 1", "1 ",
    ];
    let t = TEXTS[rng.below(TEXTS.len())];
    let doc = json!({"d": t, "ds": [t, "1", t]});
    for text in ["to_number(d)", "ds[*].to_number(@)", "map(&to_number(@), ds)", "to_number(d) || 'fallback'", "ds[?to_number(@) == `1`]"] {
        rep.evaluations += 1;
        match guarded(|| jmespath::compile(text).and_then(|e| e.search(rcvar_of(&doc)))) {
            Ok(Ok(_)) => rep.count("never_failing_call_did_not_fail"),
            Ok(Err(e)) => rep.violation(
                &format!("C12/{}-class-error-from-a-call-that-cannot-fail", err_class(&e)),
                json!({"expression": text, "document": doc, "error": err_json(&e)}),
            ),
            Err(p) => rep.violation(&format!("C12/panic/{}", panic_site(&p)), json!({"expression": text, "document": doc, "panic": p})),
        }
    }
}

/// Runtime failures that have no matching error kind (non-finite arithmetic).
fn nonfinite_case(rep: &mut Report, rng: &mut Rng) {
    let text = ["sum(`[1e308, 1e308]`)", "avg(`[1e308, 1e308, 1e308]`)", "sum(@)", "avg(@)", "'é' | sum(`[-1e308, -1e308]`)"][rng.below(5)];
    let doc = json!([1e308, 1.5e308]);
    rep.evaluations += 1;
    match guarded(|| jmespath::compile(text).and_then(|e| e.search(rcvar_of(&doc)))) {
        Ok(Err(e)) => {
            if err_class(&e) == "parse" || e.expression != text {
                rep.violation(
                    "C12/parse-class-runtime-error/nonfinite",
                    json!({"expression": text, "document": doc, "error": err_json(&e)}),
                );
            } else {
                check_coordinates(rep, &e, text, "runtime");
                rep.count("nonfinite_reported_as_runtime_error");
            }
        }
        Ok(Ok(v)) => rep.count(&format!("nonfinite_returned/{}", if v.is_null() { "null" } else { "value" })),
        Err(p) => rep.violation(&format!("C12/panic/{}", panic_site(&p)), json!({"expression": text, "panic": p})),
    }
}
