//! C05 — compile and search are total: no panic, abort or hang.
//! The worker runs hostile inputs one after another, bracketing each with
//! BEGIN/END records in an append-only log so that the orchestrator can name the
//! culprit when the process dies (stack overflow, rlimit). Panics are caught
//! and recorded as observed events.

use crate::common::*;
use refimpl::gen::gen_doc;
use refimpl::rng::{fnv, Rng};
use refimpl::sentence::*;
use serde_json::{json, Value};
use std::io::Write;

fn hostile_docs() -> Vec<Value> {
    let mut v = vec![
        json!(null),
        json!([]),
        json!([0]),
        json!([0, 1]),
        json!([0, 1, 2]),
        json!([0, 1, 2, 3, 4, 5, 6, 7, 8, 9]),
        json!({}),
        json!({"a": {"a": {"a": [1, 2, {"a": 3}]}}, "b": [[1, [2]], [3]], "foo": "bar", "c": 1.5}),
        json!({"a": [{"a": 1, "b": "x"}, {"a": 2.5, "b": "y"}, {"a": null}], "b": {"x": 1, "y": 2}}),
        json!("héllo\u{1F600}"),
        json!(18446744073709551615u64),
        json!(-9223372036854775808i64),
        json!(1e308),
        json!(5e-324),
        json!([1e308, 1e308, -1e308]),
        json!([1e308, 1e308]),
        json!([-1e308, -1e308, -1e308]),
        json!([1.7976931348623157e308, 1.7976931348623157e308]),
        json!([18446744073709551615u64, 18446744073709551615u64, 1]),
        json!([-9223372036854775808i64, 9223372036854775807i64]),
        json!([5e-324, -5e-324, 0.0, -0.0]),
        json!(["a", "é", "\u{1F600}", ""]),
        json!([[], [[]], {}, null, true, "s", 1]),
        json!({"k": [1e308, 1e308], "s": "\u{10FFFF}", "n": -9223372036854775808i64, "o": {"": null}}),
        json!([["a", "b"], ["c"]]),
        json!({"a": "1", "b": "abc", "c": [], "d": {}, "e": false}),
        json!({"": 1, "a": {"": {"": []}}, "rows": [{"id": 1}, {"id": 2, "tags": {"": true}}]}),
        json!([{"": ""}, {"\u{0}": 0}, {" ": " "}]),
    ];
    // scalar zoo: every built-in is called as f(@) on each of these
    for z in ["", " ", "-", " - ", "-\n", "+", ".", "e", "-e1", "1e", "1e+", "0x", "\"", "[", "{", "nul", "tru", "\u{0}", "\u{10FFFF}", "a\u{301}", "\r\n"] {
        v.push(Value::String(z.to_string()));
    }
    for z in [json!(0), json!(-0.0), json!(-1), json!(0.5), json!(-0.5), json!(1e-320), json!(9007199254740993u64), json!(true), json!(false)] {
        v.push(z);
    }
    // a deep document at the edge of what the JSON reader accepts
    let mut deep = json!(1);
    for i in 0..120 {
        deep = if i % 2 == 0 { json!([deep]) } else { json!({ "a": deep }) };
    }
    v.push(deep);
    // numbers that are "equal" to their neighbours under a tolerant comparison but not to their
    // neighbours' neighbours (a non-transitive ordering makes sorting code panic), in unlucky orders
    for base in [0.3f64, 1e15, -2.5] {
        let ks = [2u64, 2, 3, 3, 2, 1, 0, 3, 3, 0, 0, 2, 1, 0, 3, 1, 3, 1, 1, 3, 2, 4, 0, 5, 1, 4, 2, 5, 3, 0, 4, 1, 5, 2, 3, 4, 0, 5, 1, 2];
        let xs: Vec<Value> = ks.iter().map(|k| json!(f64::from_bits((base.to_bits() as i64 + if base < 0.0 { -(*k as i64) } else { *k as i64 }) as u64))).collect();
        v.push(Value::Array(xs.clone()));
        v.push(Value::Array(xs.iter().enumerate().map(|(i, x)| json!({"k": x, "id": i})).collect()));
    }
    // calls that fail half-way through their input, next to inputs on which the same call succeeds
    // (whatever a failed call leaves behind meets the next call of the same worker)
    v.push(json!([{"k": 1, "a": 1}, {"k": "x", "a": "x"}, {"k": 2, "a": 2}]));
    v.push(json!([{"k": 2, "a": 2}, {"k": 1, "a": 1}]));
    v.push(json!([1, 2, "x", 3]));
    v.push(json!([["a", "b"], ["c", 1], ["d"]]));
    // integers from both ends of the 64-bit ranges side by side (no common machine type)
    v.push(json!([[-9223372036854775808i64], 18446744073709551615u64]));
    v.push(json!([-9223372036854775808i64, 18446744073709551615u64, -9007199254740993i64, 9223372036854775808u64, 9007199254740993u64, 0]));
    v.push(json!({"k": [-9223372036854775807i64, 18446744073709551614u64], "a": -9223372036854775808i64, "b": 18446744073709551615u64}));
    v
}

pub fn depth_family(name: &str, d: usize) -> Option<String> {
    Some(match name {
        "parens" => format!("{}a{}", "(".repeat(d), ")".repeat(d)),
        "nots" => format!("{}a", "!".repeat(d)),
        "dots" => format!("a{}", ".a".repeat(d)),
        "pipes" => format!("a{}", "|a".repeat(d)),
        "ors" => format!("a{}", "||a".repeat(d)),
        "ands" => format!("a{}", "&&a".repeat(d)),
        "cmps" => format!("a{}", "==a".repeat(d)),
        "multilists" => format!("{}a{}", "[".repeat(d), "]".repeat(d)),
        "multihashes" => format!("{}a{}", "{a:".repeat(d), "}".repeat(d)),
        "flattens" => format!("a{}", "[]".repeat(d)),
        "indexes" => format!("a{}", "[0]".repeat(d)),
        "wildcards" => format!("a{}", "[*]".repeat(d)),
        "objwildcards" => format!("a{}", ".*".repeat(d)),
        "slices" => format!("a{}", "[::1]".repeat(d)),
        "filters" => format!("a{}", "[?a]".repeat(d)),
        "nested_filters" => format!("a{}a{}", "[?".repeat(d), "]".repeat(d)),
        "calls" => format!("{}a{}", "abs(".repeat(d), ")".repeat(d)),
        "exprefs" => format!("map({}a, @)", "&".repeat(d)),
        "json_literal" => format!("`{}{}`", "[".repeat(d), "]".repeat(d)),
        _ => return None,
    })
}


const FIXED: [&str; 36] = [
    // calls whose name is reached through a parenthesised (quoted) identifier: empty, blank, NUL, very long, a built-in's
    "(\"\")(@)", "(\"\")()", "((\"\"))(@, @)", "(\" \")(@)", "(\"\\u0000\")(@)", "(\"length\")(@)", "(a)(@)", "(\"a b\")(&@)", "[(\"\")(@)]", "a.(\"\")(@)", "map(&(\"\")(@), @)", "(\"\")(@) || @",
    "-", "-٣", "-²", "-0", "-01", "a[-", "a[-٣]", "\"", "'", "`", "\"abc", "'abc\\", "`abc\\", "\"\\", "`\\`", "'\\'", "\"\\ud800\"",
    "\"\\udc00\\ud800\"", "`\"\\ud800\"`", "a[99999999999999999999]", "a[-99999999999999999999]", "=", "a[?", "\u{0}",
];

/// The i-th random hostile case (pure function of the rng state).
pub fn gen_case(rng: &mut Rng) -> (String, &'static str) {
    let fam = rng.below(100);
    if fam < 25 {
        let mut parts = vec![];
        let budget = 3 + rng.below(20) as i32;
        SentenceGen::new(rng, budget).expression(&mut parts);
        (join_tokens(&parts, rng), "abnf-sentence")
    } else if fam < 45 {
        let mut parts = vec![];
        let budget = 3 + rng.below(10) as i32;
        SentenceGen::new(rng, budget).expression(&mut parts);
        let s = join_tokens(&parts, rng);
        (mutate_tokens(&s, rng).unwrap_or(s), "one-token-mutant")
    } else if fam < 60 {
        (token_soup(rng, 12), "token-soup")
    } else if fam < 80 {
        (char_soup(rng, 40), "char-soup")
    } else if fam < 92 {
        (numeric_edge(rng), "numeric-edge")
    } else if fam < 94 {
        (FIXED[rng.below(FIXED.len())].to_string(), "malformed-quoted-or-numeric")
    } else if fam < 96 {
        if rng.chance(1, 2) {
            (refimpl::sentence::long_token_case(rng), "long-token")
        } else {
            (refimpl::sentence::malformed_literal_case(rng), "malformed-literal")
        }
    } else if fam < 97 {
        if rng.chance(1, 2) {
            (refimpl::sentence::lookalike_case(rng), "unicode-lookalike")
        } else {
            (refimpl::sentence::surrogate_case(rng), "surrogate-escapes")
        }
    } else if rng.chance(1, 4) {
        (refimpl::sentence::wide_case(rng), "wide")
    } else if rng.chance(1, 4) {
        (refimpl::sentence::bracket_text_case(rng), "bracket-text")
    } else if rng.chance(1, 3) {
        let mut parts = vec![];
        let budget = 2 + rng.below(8) as i32;
        SentenceGen::new(rng, budget).expression(&mut parts);
        let s = join_tokens(&parts, rng);
        (refimpl::sentence::truncation_twin(&s, rng).unwrap_or(s), "truncation-twin")
    } else {
        // a moderately deep member of a depth family (shallow enough to be in scope)
        let f = DEPTH_FAMILIES[rng.below(DEPTH_FAMILIES.len())];
        (depth_family(f, 5 + rng.below(120)).unwrap(), "depth-small")
    }
}

fn edge_case(idx: u64) -> (String, Value, Option<String>) {
    let edge: [Option<i64>; 11] = EDGE;
    let lens = [0usize, 1, 2, 3, 10];
    let mut j = idx as usize;
    let a = edge[j % 11];
    j /= 11;
    let b = edge[j % 11];
    j /= 11;
    let c = edge[j % 11];
    j /= 11;
    let len = lens[j % 5];
    let f = |x: Option<i64>| x.map(|v| v.to_string()).unwrap_or_default();
    let expr = format!("@[{}:{}:{}]", f(a), f(b), f(c));
    let doc = Value::Array((0..len as i64).map(Value::from).collect());
    (expr, doc, a.map(|n| format!("@[{}]", n)))
}

const PATS: [&str; 22] = ["@", "@, @", "&@, @", "@, &@", "@[0]", "@[0], @[1]", "k", "`1e308`", "@, `1e308`", "", "@, @, @", "'s', @", "@, 's'", "&k, @", "@, &k", "a, b", "@[1], @[0]", "k, a", "&@[::0], @", "@, &@[::0]", "@, &[@][::0]", "&[0][::0], @"];

const EDGE: [Option<i64>; 11] = [
    None,
    Some(0),
    Some(1),
    Some(-1),
    Some(2),
    Some(-2),
    Some(2147483647),
    Some(-2147483647),
    Some(2147483646),
    Some(-2147483646),
    Some(1073741824),
];

/// Describe (and optionally run alone) one case by id: used by the orchestrator
/// to name the culprit after a worker died.
pub fn run_one(args: &Args) {
    let id: u64 = args.kv.get("index").and_then(|v| v.parse().ok()).unwrap_or(0);
    if id >= 30_000_000_000 {
        println!("{}", json!({"expression": "<the growth monitor's sweep over self-similar families>", "family": "growth-monitor", "depth_metric": 40, "bytes": 0}));
        if args.kv.get("run").map_or(false, |v| v == "1") {
            let mut rep = Report::new("C05");
            growth_monitor(&mut rep, 40);
            width_monitor(&mut rep, 1500);
            shared_result_monitor(&mut rep, 100);
            println!("RETURNED violations={}", rep.violations_total);
        }
        return;
    }
    let (expr, family, doc): (String, &str, Option<Value>) = if id >= 20_000_000_000 {
        let fi = (id - 20_000_000_000 - 1) as usize;
        (format!("{}({})", refimpl::eval::BUILTIN_NAMES[fi / PATS.len()], PATS[fi % PATS.len()]), "builtin-on-hostile-doc", None)
    } else if id >= 10_000_000_000 {
        let (e, d, _) = edge_case(id - 10_000_000_000);
        (e, "edge-slice", Some(d))
    } else {
        let mut rng = Rng::derive(args.seed, args.shard + 3000, id);
        let (s, f) = gen_case(&mut rng);
        (s, f, None)
    };
    let metric = match refimpl::lex::lex(&expr) {
        Ok(ts) => refimpl::parse::depth_metric(&ts),
        Err(_) => expr.chars().filter(|c| "([{!.|&".contains(*c)).count(),
    };
    println!("{}", json!({"expression": expr, "family": family, "depth_metric": metric, "bytes": expr.len()}));
    if args.kv.get("run").map_or(false, |v| v == "1") {
        let mut rep = Report::new("C05");
        let docs = match doc {
            Some(d) => vec![d],
            None => hostile_docs(),
        };
        let mut rng = Rng::new(id);
        let n = docs.len();
        run_case(&mut rep, &expr, &docs, family, n, &mut rng);
        println!("RETURNED violations={}", rep.violations_total);
    }
}

pub const DEPTH_FAMILIES: [&str; 19] = [
    "parens", "nots", "dots", "pipes", "ors", "ands", "cmps", "multilists", "multihashes", "flattens", "indexes", "wildcards",
    "objwildcards", "slices", "filters", "nested_filters", "calls", "exprefs", "json_literal",
];

/// One compile(+search) case; returns false if something was recorded as a violation.
fn run_case(rep: &mut Report, expr: &str, docs: &[Value], family: &str, ndocs: usize, rng: &mut Rng) {
    rep.evaluations += 1;
    jmespath::verif::reset();
    let c = guarded(|| jmespath::compile(expr));
    let ctr = jmespath::verif::counters();
    rep.max("max/parse_depth", ctr.parse_max_depth);
    rep.add("parse_steps", ctr.parse_steps);
    let e = match c {
        Ok(Ok(e)) => {
            rep.count(&format!("compiled/{}", family));
            e
        }
        Ok(Err(_)) => {
            rep.count(&format!("rejected/{}", family));
            return;
        }
        Err(p) => {
            rep.violation(
                &format!("C05/panic-in-compile/{}", panic_site(&p)),
                json!({"expression": expr, "panic": p, "family": family}),
            );
            return;
        }
    };
    rep.nontrivial(fnv(expr.as_bytes()));
    for k in 0..ndocs {
        let d = if ndocs >= docs.len() { &docs[k] } else { &docs[rng.below(docs.len())] };
        rep.evaluations += 1;
        jmespath::verif::reset();
        // documents arrive as library values and, every other time, as typed (serde) values converted by `search`
        let typed = (k + expr.len()) % 2 == 1;
        let r = if typed {
            guarded(|| e.search(d).map(|v| v.is_null()))
        } else {
            let input = rcvar_of(d);
            guarded(|| e.search(&input).map(|v| v.is_null()))
        };
        if typed {
            rep.count("searched_typed_document");
        }
        let ctr = jmespath::verif::counters();
        rep.max("max/interpret_depth", ctr.interp_max_depth);
        rep.add("interpret_steps", ctr.interp_steps);
        match r {
            Ok(Ok(_)) => rep.count("search_ok"),
            Ok(Err(_)) => rep.count("search_err"),
            Err(p) => rep.violation(
                &format!("C05/panic-in-search/{}", panic_site(&p)),
                json!({"expression": expr, "document": d, "panic": p, "family": family}),
            ),
        }
    }
}

static CASE_STARTED_MS: std::sync::atomic::AtomicU64 = std::sync::atomic::AtomicU64::new(0);

/// Early warning only: when one case has been running for 20 s of wall clock the
/// worker aborts so that the orchestrator can name the culprit quickly; the
/// VERDICT is then taken by re-running that case alone under a CPU budget.
fn spawn_watchdog() {
    let t0 = std::time::Instant::now();
    CASE_STARTED_MS.store(1, std::sync::atomic::Ordering::SeqCst);
    std::thread::spawn(move || loop {
        std::thread::sleep(std::time::Duration::from_millis(500));
        let started = CASE_STARTED_MS.load(std::sync::atomic::Ordering::SeqCst);
        let now = t0.elapsed().as_millis() as u64 + 1;
        if started > 0 && now > started + 20_000 {
            eprintln!("WATCHDOG: one case has been running for more than 20 s of wall clock");
            std::process::abort();
        }
    });
    // the marker closure below refreshes CASE_STARTED_MS through this clock
    CLOCK.with(|c| *c.borrow_mut() = Some(t0));
}

thread_local! {
    static CLOCK: std::cell::RefCell<Option<std::time::Instant>> = std::cell::RefCell::new(None);
}

fn touch_case_clock() {
    CLOCK.with(|c| {
        if let Some(t0) = *c.borrow() {
            CASE_STARTED_MS.store(t0.elapsed().as_millis() as u64 + 1, std::sync::atomic::Ordering::SeqCst);
        }
    });
}

/// Self-similar expression families whose text grows linearly with the nesting level and
/// whose evaluation on a one-element document therefore has to grow linearly as well.
fn growth_family(name: &str, d: usize) -> Option<String> {
    let wrap: &dyn Fn(&str, usize) -> String = &|inner, level| match name {
        "max_by-in-key" => format!("max_by(to_array(@), &{})", inner),
        "min_by-in-key" => format!("min_by(to_array(@), &{})", inner),
        "sort_by-in-key" => format!("sort_by(to_array(@), &{})[0]", inner),
        "map-in-map" => format!("map(&{}, to_array(@))[0]", inner),
        "by-mixed" => match level % 4 {
            0 => format!("max_by(to_array(@), &{})", inner),
            1 => format!("sort_by(to_array(@), &{})[0]", inner),
            2 => format!("min_by(to_array(@), &{})", inner),
            _ => format!("map(&{}, to_array(@))[0]", inner),
        },
        "filter-in-filter" => format!("to_array(@)[?{}] | [0]", inner),
        "not_null-chain" => format!("not_null({}, @)", inner),
        "projection-nest" => {
            if inner == "@" {
                "to_array(@)[*].abs(@) | [0]".to_string()
            } else {
                format!("to_array(@)[*].[{}] | [0] | [0]", inner)
            }
        }
        "hash-nest" => format!("{{a: {}}}.a", inner),
        "list-nest" => format!("[{}][0]", inner),
        "and-or" => format!("({}) && @ || @", inner),
        "cmp-nest" => format!("(({}) == @) && @", inner),
        _ => String::new(),
    };
    let mut e = "@".to_string();
    for level in 0..d {
        e = wrap(&e, level);
        if e.is_empty() {
            return None;
        }
    }
    Some(e)
}

const GROWTH_FAMILIES: [&str; 12] = [
    "max_by-in-key", "min_by-in-key", "sort_by-in-key", "map-in-map", "by-mixed", "filter-in-filter", "not_null-chain", "projection-nest", "hash-nest", "list-nest", "and-or", "cmp-nest",
];

/// Bounded time, decided on logical steps instead of the clock: the interpreter's and the
/// parser's step counters (hooks) must grow linearly along a self-similar family. The sweep
/// stops at the first level that exceeds the bound, so a doubling-per-level defect is
/// reported after a few thousand steps instead of hanging the run.
fn growth_monitor(rep: &mut Report, max_level: usize) {
    let doc = rcvar_of(&json!(7));
    let mut check = |rep: &mut Report, fam: &str, what: &str, series: &[(usize, u64)], d: usize, steps: u64, text: &str| -> bool {
        if series.len() < 2 {
            return true;
        }
        let (d1, s1) = series[0];
        let (d2, s2) = series[1];
        let inc = (s2.saturating_sub(s1) / (d2 - d1) as u64).max(1);
        let bound = s1 + 8 * inc * d as u64 + 64;
        if steps > bound {
            rep.violation(
                &format!("C05/{}-steps-grow-faster-than-the-expression/{}", what, fam),
                json!({"family": fam, "level": d, "steps": steps, "linear_bound": bound, "first_levels": series.iter().take(6).collect::<Vec<_>>(), "expression_bytes": text.len(),
                       "expression_head": text.chars().take(160).collect::<String>()}),
            );
            return false;
        }
        true
    };
    for fam in GROWTH_FAMILIES.iter() {
        let mut interp: Vec<(usize, u64)> = vec![];
        let mut parse: Vec<(usize, u64)> = vec![];
        for d in 1..=max_level {
            let text = growth_family(fam, d).expect("family");
            rep.evaluations += 1;
            jmespath::verif::reset();
            let c = guarded(|| jmespath::compile(&text));
            let psteps = jmespath::verif::counters().parse_steps;
            let e = match c {
                Ok(Ok(e)) => e,
                other => {
                    rep.violation("C05/growth-family-does-not-compile", json!({"family": fam, "level": d, "got": format!("{:?}", other.map(|r| r.map(|_| ()).map_err(|e| e.to_string())))}));
                    break;
                }
            };
            if !check(rep, fam, "parse", &parse, d, psteps, &text) {
                break;
            }
            parse.push((d, psteps));
            jmespath::verif::reset();
            let r = guarded(|| e.search(&doc).map(|v| v.to_string()));
            let isteps = jmespath::verif::counters().interp_steps;
            if let Err(p) = r {
                rep.violation(&format!("C05/panic-in-search/{}", panic_site(&p)), json!({"family": fam, "level": d, "panic": p}));
                break;
            }
            if !check(rep, fam, "evaluation", &interp, d, isteps, &text) {
                break;
            }
            interp.push((d, isteps));
            rep.nontrivial(refimpl::rng::fnv(format!("growth|{}|{}", fam, d).as_bytes()));
        }
        rep.extra.insert(format!("growth/{}", fam), json!({"levels": interp.len(), "evaluation_steps_first_last": [interp.first(), interp.last()], "parse_steps_first_last": [parse.first(), parse.last()]}));
    }
    // the plain depth families, parser only (their evaluation is covered by c05depth)
    for fam in DEPTH_FAMILIES.iter() {
        let mut parse: Vec<(usize, u64)> = vec![];
        for d in (2..=60usize).step_by(2) {
            let text = depth_family(fam, d).expect("family");
            rep.evaluations += 1;
            jmespath::verif::reset();
            let _ = guarded(|| jmespath::compile(&text).map(|_| ()));
            let psteps = jmespath::verif::counters().parse_steps;
            if !check(rep, fam, "parse", &parse, d, psteps, &text) {
                break;
            }
            parse.push((d, psteps));
        }
    }
}

/// CPU time this thread has used so far, in clock ticks (1/100 s): fields 14 and 15 of /proc/thread-self/stat.
fn thread_cpu_ticks() -> Option<u64> {
    let t = std::fs::read_to_string("/proc/thread-self/stat").ok()?;
    let rest = &t[t.rfind(')')? + 2..];
    let f: Vec<&str> = rest.split(' ').collect();
    Some(f.get(11)?.parse::<u64>().ok()? + f.get(12)?.parse::<u64>().ok()?)
}

/// Results that mention the current node several times are DAGs (the members are the same node):
/// a chain of d such steps creates O(d) nodes, and its cost must follow the nodes created, not the
/// size of the unfolded tree (2^d). The result is never printed here (printing unfolds by definition);
/// it is reduced by a path of d first members. Decided on the CPU time of the searching thread with a
/// margin of six orders of magnitude: on the unchanged code every level takes microseconds; a level that
/// burns more than one CPU second is reported and ends the sweep.
fn shared_result_monitor(rep: &mut Report, max_level: usize) {
    const FAMS: [(&str, &str, &str, &str); 8] = [
        ("list-pipe", "[@, @]", " | ", "[0]"),
        ("hash-pipe", "{a: @, b: @}", " | ", ".a"),
        ("list-dot", "[@, @]", ".", "[0]"),
        ("hash-dot", "{a: @, b: @}", ".", ".a"),
        ("list-three", "[@, @, @]", " | ", "[2]"),
        ("mixed", "{a: [@, @], b: @}", " | ", ".a[1]"),
        ("merge", "merge({a: @}, {b: @})", " | ", ".b"),
        ("not_null", "[not_null(@), not_null(@)]", " | ", "[1]"),
    ];
    let doc = rcvar_of(&json!(7));
    for (fam, step, sep, back) in FAMS.iter() {
        let mut reached = 0usize;
        let mut worst = 0u64;
        for d in 1..=max_level {
            let chain = (0..d).map(|_| step.to_string()).collect::<Vec<_>>().join(sep);
            let text = format!("({}){}", chain, (0..d).map(|_| back.to_string()).collect::<String>());
            rep.evaluations += 1;
            let e = match guarded(|| jmespath::compile(&text)) {
                Ok(Ok(e)) => e,
                _ => break,
            };
            let t0 = thread_cpu_ticks();
            let r = guarded(|| e.search(&doc).map(|v| v.is_number()));
            let used = match (t0, thread_cpu_ticks()) {
                (Some(a), Some(b)) => b.saturating_sub(a),
                _ => 0,
            };
            worst = worst.max(used);
            match r {
                Ok(Ok(true)) => {}
                Ok(Ok(false)) => {
                    rep.violation("C05/shared-result-chain-wrong-value", json!({"family": fam, "level": d, "expression_head": text.chars().take(120).collect::<String>()}));
                    break;
                }
                Ok(Err(_)) => break, // a refusal is not this monitor's business
                Err(p) => {
                    rep.violation(&format!("C05/panic-in-search/{}", panic_site(&p)), json!({"family": fam, "level": d, "panic": p}));
                    break;
                }
            }
            if used > 100 {
                rep.violation(
                    "C05/evaluation-time-follows-the-unfolded-size-of-a-shared-result",
                    json!({"family": fam, "level": d, "cpu_seconds_of_this_search": used as f64 / 100.0, "expression_head": text.chars().take(120).collect::<String>(),
                           "note": "levels below took at most a few ticks; the result has O(level) distinct nodes"}),
                );
                return; // one family is enough: every further one would burn seconds again
            }
            reached = d;
            rep.nontrivial(refimpl::rng::fnv(format!("shared|{}|{}", fam, d).as_bytes()));
        }
        rep.extra.insert(format!("shared-result/{}", fam), json!({"levels": reached, "worst_cpu_ticks_of_one_search": worst}));
    }
}

/// Wide expressions: n siblings side by side (no nesting). The value is known by construction,
/// parser and interpreter steps must grow linearly, and nothing may refuse them for their size.
fn width_family(name: &str, n: usize) -> Option<(String, Value)> {
    let rep = |item: &str, sep: &str| (0..n).map(|_| item.to_string()).collect::<Vec<_>>().join(sep);
    Some(match name {
        "list-of-hashes" => (format!("[{}]", rep("{v: a, w: b.c}", ", ")), Value::Array((0..n).map(|_| json!({"v": 1, "w": 2})).collect())),
        "pipe-of-hashes" => (format!("{{v: a}} | {}", rep("{v: v}", " | ")), json!({"v": 1})),
        "or-chain" => (format!("{} || a", rep("nope", " || ")), json!(1)),
        "or-chain-early" => (format!("nope || a || {}", rep("b", " || ")), json!(1)),
        "and-chain" => (format!("{} && nope", rep("a", " && ")), json!(null)),
        "and-chain-late" => (format!("{} && b.c", rep("a", " && ")), json!(2)),
        "list-of-lists" => (format!("[{}]", rep("[a]", ", ")), Value::Array((0..n).map(|_| json!([1])).collect())),
        "list-of-filters" => (format!("[{}]", rep("xs[?@ > `1`]", ", ")), Value::Array((0..n).map(|_| json!([2, 3])).collect())),
        "list-of-calls" => (format!("[{}]", rep("length(xs)", ", ")), Value::Array((0..n).map(|_| json!(3)).collect())),
        "variadic-args" => (format!("not_null({}, a)", rep("nope", ", ")), json!(1)),
        "hash-many-keys" => (
            format!("{{{}}}", (0..n).map(|i| format!("k{}: a", i)).collect::<Vec<_>>().join(", ")),
            Value::Object((0..n).map(|i| (format!("k{}", i), json!(1))).collect()),
        ),
        "cmp-list" => (format!("[{}]", rep("a == `1`", ", ")), Value::Array((0..n).map(|_| json!(true)).collect())),
        "literal-list" => (format!("[{}]", rep("`{\"k\": [1]}`", ", ")), Value::Array((0..n).map(|_| json!({"k": [1]})).collect())),
        "raw-list" => (format!("[{}]", rep("'é\\'s'", ", ")), Value::Array((0..n).map(|_| json!("é's")).collect())),
        "group-or-chain" => (format!("{} || (a)", rep("(nope)", " || ")), json!(1)),
        "group-list" => (format!("[{}]", rep("(a)", ", ")), Value::Array((0..n).map(|_| json!(1)).collect())),
        "group-pipe" => (format!("(b) | {}", rep("(@)", " | ")), json!({"c": 2})),
        "not-list" => (format!("[{}]", rep("!(a)", ", ")), Value::Array((0..n).map(|_| json!(false)).collect())),
        "call-of-groups" => (format!("not_null({}, (a))", rep("(nope)", ", ")), json!(1)),
        "quoted-list" => (format!("[{}]", rep("\"a\"", ", ")), Value::Array((0..n).map(|_| json!(1)).collect())),
        "index-list" => (format!("[{}]", rep("xs[-1]", ", ")), Value::Array((0..n).map(|_| json!(3)).collect())),
        "slice-list" => (format!("[{}]", rep("xs[1:]", ", ")), Value::Array((0..n).map(|_| json!([2, 3])).collect())),
        "expref-args" => (format!("[{}]", rep("map(&@, xs)", ", ")), Value::Array((0..n).map(|_| json!([1, 2, 3])).collect())),
        _ => return None,
    })
}

const WIDTH_FAMILIES: [&str; 23] = [
    "list-of-hashes", "pipe-of-hashes", "or-chain", "or-chain-early", "and-chain", "and-chain-late", "list-of-lists", "list-of-filters", "list-of-calls", "variadic-args",
    "hash-many-keys", "cmp-list", "literal-list", "raw-list", "group-or-chain", "group-list", "group-pipe", "not-list", "call-of-groups", "quoted-list", "index-list", "slice-list", "expref-args",
];

fn width_monitor(rep: &mut Report, max_n: usize) {
    let doc = json!({"a": 1, "b": {"c": 2}, "xs": [1, 2, 3]});
    let input = rcvar_of(&doc);
    for fam in WIDTH_FAMILIES.iter() {
        let mut base: Option<(usize, u64, u64)> = None;
        let mut n = 1usize;
        let mut reached = 0;
        while n <= max_n {
            let (text, want) = width_family(fam, n).expect("family");
            rep.evaluations += 1;
            jmespath::verif::reset();
            let c = guarded(|| jmespath::compile(&text));
            let psteps = jmespath::verif::counters().parse_steps;
            let e = match c {
                Ok(Ok(e)) => e,
                other => {
                    rep.violation(
                        &format!("C05/wide-expression-refused/{}", fam),
                        json!({"family": fam, "siblings": n, "expression_head": text.chars().take(120).collect::<String>(), "got": format!("{:?}", other.map(|r| r.map(|_| ()).map_err(|e| e.to_string())))}),
                    );
                    break;
                }
            };
            jmespath::verif::reset();
            let r = guarded(|| e.search(&input));
            let isteps = jmespath::verif::counters().interp_steps;
            let ok = matches!(&r, Ok(Ok(v)) if value_of(v).map_or(false, |g| refimpl::json::val_eq(&g, &want, 0.0)));
            if !ok {
                rep.violation(
                    &format!("C05/wide-expression-wrong-or-failed/{}", fam),
                    json!({"family": fam, "siblings": n, "expression_head": text.chars().take(120).collect::<String>(), "got": format!("{:?}", r.map(|x| x.map(|v| v.to_string().chars().take(200).collect::<String>()).map_err(|e| e.to_string())))}),
                );
                break;
            }
            match base {
                None => base = Some((n, psteps.max(1), isteps.max(1))),
                Some((n0, p0, i0)) => {
                    let k = (n as u64 + n0 as u64 - 1) / n0 as u64;
                    if psteps > 8 * k * p0 + 64 || isteps > 8 * k * i0 + 64 {
                        rep.violation(
                            &format!("C05/steps-grow-faster-than-the-expression/width/{}", fam),
                            json!({"family": fam, "siblings": n, "parse_steps": psteps, "evaluation_steps": isteps, "at_first_size": [n0, p0, i0]}),
                        );
                        break;
                    }
                }
            }
            reached = n;
            rep.nontrivial(refimpl::rng::fnv(format!("width|{}|{}", fam, n).as_bytes()));
            n = if n < 12 { n + 1 } else { n + n / 3 };
        }
        rep.extra.insert(format!("width/{}", fam), json!({"siblings_reached": reached}));
    }
}

pub fn run(args: &Args) {
    let mut rep = Report::new("C05");
    let docs = hostile_docs();
    spawn_watchdog();
    let logpath = args.kv.get("log").cloned();
    let skip: Vec<u64> = args
        .kv
        .get("skip")
        .map(|s| s.split(',').filter_map(|x| x.parse().ok()).collect())
        .unwrap_or_default();
    let mut log = logpath.map(|p| {
        std::fs::OpenOptions::new()
            .create(true)
            .append(true)
            .open(p)
            .expect("open log")
    });
    let mut mark = |tag: &str, i: u64| {
        touch_case_clock();
        if let Some(f) = log.as_mut() {
            let _ = f.write_all(format!("{} {}\n", tag, i).as_bytes());
        }
    };

    // (0) work grows with the expression, not exponentially in its nesting
    if args.shard == 0 && !skip.contains(&30_000_000_000) {
        mark("B", 30_000_000_000);
        growth_monitor(&mut rep, if args.tier == "thorough" { 150 } else { 40 });
        width_monitor(&mut rep, if args.tier == "thorough" { 5000 } else { 1500 });
        shared_result_monitor(&mut rep, if args.tier == "thorough" { 120 } else { 100 });
        mark("E", 30_000_000_000);
    }
    // (1) exhaustive numeric-edge slices: start/stop/step over the edge set x array lengths
    let edge = EDGE;
    let lens = [0usize, 1, 2, 3, 10];
    let total_edge = (edge.len() * edge.len() * edge.len() * lens.len()) as u64;
    let mut idx = args.shard;
    while idx < total_edge {
        let case_id = 10_000_000_000 + idx;
        if !skip.contains(&case_id) {
            mark("B", case_id);
            let (expr, doc, index_form) = edge_case(idx);
            let mut r2 = Rng::new(idx);
            run_case(&mut rep, &expr, std::slice::from_ref(&doc), "edge-slice", 1, &mut r2);
            if let Some(ix) = index_form {
                run_case(&mut rep, &ix, std::slice::from_ref(&doc), "edge-index", 1, &mut r2);
            }
            mark("E", case_id);
        }
        idx += args.shards;
    }
    rep.extra.insert("edge_slice_grid".into(), json!(total_edge));

    // (1b) every built-in x argument patterns x every hostile document
    let mut fi = 0u64;
    for f in refimpl::eval::BUILTIN_NAMES.iter() {
        for p in PATS.iter() {
            fi += 1;
            if fi % args.shards != args.shard {
                continue;
            }
            let case_id = 20_000_000_000 + fi;
            if skip.contains(&case_id) {
                continue;
            }
            mark("B", case_id);
            let expr = format!("{}({})", f, p);
            let mut r2 = Rng::new(fi);
            let n = docs.len();
            run_case(&mut rep, &expr, &docs, "builtin-on-hostile-doc", n, &mut r2);
            // what a function hands back (often one of its own inputs, not a fresh value) continued by
            // every postfix form, and handed on to another call
            let post = ["[]", "[0]", "[*]", ".*", "[?@]", "[::-1]", "[-1]", " | [0]", "[][]", ".k", "[*].k", " || `1`"][(fi % 12) as usize];
            run_case(&mut rep, &format!("{}{}", expr, post), &docs, "builtin-result-continued", n, &mut r2);
            let outer = ["to_array", "not_null", "length", "reverse", "sort", "keys", "to_string", "type"][(fi % 8) as usize];
            run_case(&mut rep, &format!("{}({})[]", outer, expr), &docs, "builtin-result-continued", n, &mut r2);
            mark("E", case_id);
        }
    }

    // (2) random hostile families
    for i in 0..args.n {
        if skip.contains(&i) {
            continue;
        }
        mark("B", i);
        let mut rng = Rng::derive(args.seed, args.shard + 3000, i);
        let (s, family) = gen_case(&mut rng);
        let mut local_docs = docs.clone();
        if rng.chance(1, 3) {
            local_docs.push(gen_doc(&mut rng, 4));
        }
        run_case(&mut rep, &s, &local_docs, family, 3, &mut rng);
        if family == "abnf-sentence" && i % 16 == 0 {
            for t in truncations(&s) {
                run_case(&mut rep, t, &local_docs, "truncation", 1, &mut rng);
            }
        }
        if i % 5000 == 0 {
            rep.sample_family(family, 1, json!(s));
        }
        mark("E", i);
    }
    emit_report(args, &rep);
}

/// One depth-family case in its own process: prints a JSON outcome and exits 0
/// if compile (and search) *returned*.
pub fn run_depth(args: &Args) {
    let fam = args.kv.get("family").cloned().unwrap_or_default();
    let depth: usize = args.kv.get("depth").and_then(|v| v.parse().ok()).unwrap_or(10);
    let expr = depth_family(&fam, depth).expect("family");
    jmespath::verif::reset();
    let c = guarded(|| jmespath::compile(&expr));
    let ctr = jmespath::verif::counters();
    let mut out = json!({"family": fam, "depth": depth, "len": expr.len(), "parse_max_depth": ctr.parse_max_depth, "parse_steps": ctr.parse_steps});
    match c {
        Ok(Ok(e)) => {
            out["compiled"] = json!(true);
            let doc = json!({"a": {"a": {"a": [[1, 2], [3]]}}});
            let input = rcvar_of(&doc);
            jmespath::verif::reset();
            let r = guarded(|| e.search(&input).map(|v| v.to_string().len()));
            let ctr = jmespath::verif::counters();
            out["interp_max_depth"] = json!(ctr.interp_max_depth);
            out["search"] = match r {
                Ok(Ok(_)) => json!("ok"),
                Ok(Err(e)) => json!(format!("err:{}", err_class(&e))),
                Err(p) => json!(format!("panic:{}", p)),
            };
            // cloning and dropping the compiled expression must also return
            let cl = guarded(|| {
                let c2 = e.clone();
                drop(c2);
            });
            out["clone_drop"] = json!(cl.is_ok());
            println!("{}", out);
            // dropping `e` happens here; if it overflows the process dies after printing,
            // which the orchestrator sees as a non-zero exit.
            drop(e);
            println!("DROPPED");
        }
        Ok(Err(e)) => {
            out["compiled"] = json!(false);
            out["error"] = json!(err_class(&e));
            println!("{}", out);
            println!("DROPPED");
        }
        Err(p) => {
            out["panic"] = json!(p);
            println!("{}", out);
            println!("DROPPED");
        }
    }
}
