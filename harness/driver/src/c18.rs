//! C18 — the jp command-line tool reports exactly what the library computes.
//! This subcommand GENERATES invocations together with what the library,
//! called in-process on the same expression and input text, says must happen;
//! py/run_cli.py executes the real jp binary and compares.

use crate::common::*;
use jmespath::Variable;
use refimpl::gen::{gen_doc, GenCfg, TreeGen};
use refimpl::print::Printer;
use refimpl::rng::Rng;
use refimpl::sentence::{char_soup, mutate_tokens};
use serde_json::{json, Value};
use std::io::Write;

fn hex(b: &[u8]) -> String {
    b.iter().map(|x| format!("{:02x}", x)).collect()
}

/// What must happen for (expression text, input bytes, flags).
fn expect(expr: Option<&str>, input: Option<&[u8]>, unquoted: bool, ast: bool) -> Value {
    let fail = |why: &str, needle: Option<String>| json!({"ok": false, "why": why, "stderr_contains": needle});
    let expr = match expr {
        Some(e) => e,
        None => return fail("expression unreadable", None),
    };
    let compiled = match jmespath::compile(expr) {
        Ok(c) => c,
        Err(e) => return fail("compile error", Some(e.to_string())),
    };
    if ast {
        return json!({"ok": true, "stdout": format!("{:#?}\n", compiled.as_ast()), "reads_input": false});
    }
    let text = match input.map(std::str::from_utf8) {
        Some(Ok(t)) => t,
        Some(Err(_)) => return fail("input is not UTF-8", None),
        None => return fail("input unreadable", None),
    };
    let var = match Variable::from_json(text) {
        Ok(v) => v,
        Err(_) => return fail("invalid JSON", Some("Error parsing JSON".into())),
    };
    match compiled.search(jmespath::Rcvar::new(var)) {
        Err(e) => fail("runtime error", Some(e.to_string())),
        Ok(r) => {
            let out = if unquoted && r.is_string() {
                format!("{}\n", r.as_string().unwrap())
            } else {
                format!("{}\n", serde_json::to_string_pretty(&r).unwrap())
            };
            json!({"ok": true, "stdout": out, "result_type": r.get_type().to_string()})
        }
    }
}

pub fn run(args: &Args) {
    let mut rep = Report::new("C18");
    let path = args.kv.get("records").cloned().expect("--records");
    let mut file = std::io::BufWriter::new(std::fs::File::create(&path).expect("records file"));
    let fixed_exprs = [
        "@", "a", "a.b", "xs[*]", "xs[0]", "s", "s2", "n", "big", "f", "t", "nul", "xs[?@ > `1`]", "length(xs)", "to_string(xs)", "'raw string'", "`\"lit\\n\\\"q\\\"\"`",
        "keys(@)", "nofn(@)", "abs(s)", "length()", "xs[::0]", "a.", "[", "xs[", "", " ", "'unterminated", "&a", "o", "join(', ', ss)", "sort_by(recs, &k)[*].id",
        "sum(`[1e308, 1e308]`)", "{a: a, \"é\": s2}", "s2 | length(@)", "\n a \n", "xs[*].nofn(@)",
    ];
    let fixed_doc = "{\"a\": {\"b\": 1}, \"xs\": [1, 2, 3], \"s\": \"plain\", \"s2\": \"q\\\"uo\\nte é \u{1F600}\", \"n\": 42, \"big\": 18446744073709551615, \"f\": 1.5, \"t\": true, \"nul\": null, \"o\": {}, \"ss\": [\"x\", \"y\"], \"recs\": [{\"id\": 1, \"k\": 2}, {\"id\": 2, \"k\": 1}]}";
    for i in 0..args.n {
        let mut rng = Rng::derive(args.seed, args.shard + 13000, i);
        // expression
        let (expr_text, doc_text): (String, Vec<u8>) = match rng.below(10) {
            0 | 1 | 2 | 3 => (fixed_exprs[rng.below(fixed_exprs.len())].to_string(), fixed_doc.as_bytes().to_vec()),
            4 | 5 | 6 => {
                let d = gen_doc(&mut rng, 3);
                let tree = TreeGen { rng: &mut rng, cfg: GenCfg { calls: true, depth: 2 } }.pipeline(&d, 2, 3);
                let t = Printer::new(&mut rng).emit(&tree).unwrap_or_else(|_| "@".into());
                (t, serde_json::to_string(&d).unwrap().into_bytes())
            }
            7 => {
                let d = gen_doc(&mut rng, 3);
                let tree = TreeGen { rng: &mut rng, cfg: GenCfg { calls: true, depth: 2 } }.pipeline(&d, 2, 3);
                let t = Printer::new(&mut rng).emit(&tree).unwrap_or_else(|_| "@".into());
                (mutate_tokens(&t, &mut rng).unwrap_or(t), serde_json::to_string(&d).unwrap().into_bytes())
            }
            8 if i % 3 == 0 => {
                // results whose printed form has a long last line, with and without line breaks inside
                let n = [1000usize, 1023, 1024, 1025, 4095, 4096, 4097, 8191, 8192, 8193, 65536, 70000][rng.below(12)] + rng.below(3);
                let head = ["", "head\n", "a\nb\n", "\n", "é\n"][rng.below(5)];
                let tail: String = if rng.chance(1, 4) { "é".repeat(n / 2) } else { "0".repeat(n) };
                let d = json!({"a": format!("{}{}", head, tail), "xs": [format!("{}{}", head, tail), 1], "o": {"k": tail}});
                (["a", "@.a", "xs[0]", "xs", "o", "o.k", "[a, a]", "join('', [a, a])"][rng.below(8)].to_string(), serde_json::to_string(&d).unwrap().into_bytes())
            }
            8 => (char_soup(&mut rng, 10), fixed_doc.as_bytes().to_vec()),
            _ => ("@".to_string(), fixed_doc.as_bytes().to_vec()),
        };
        // input variants
        let expr_text = if rng.chance(1, 25) {
            format!("{}{}", expr_text, ["\u{B}", "\u{A0}", "\u{2028}", "\u{3000}", "\u{85}"][rng.below(5)])
        } else if rng.chance(1, 25) {
            // … or in front (a byte order mark is not a blank either, wherever the text comes from)
            format!("{}{}", ["\u{FEFF}", "\u{FEFF}", "\u{A0}", "\u{2028}", "\u{FFFE}"][rng.below(5)], expr_text)
        } else {
            expr_text
        };
        const EXOTIC_BLANKS: [&str; 10] = ["\u{B}", "\u{C}", "\u{85}", "\u{A0}", "\u{2028}", "\u{2029}", "\u{3000}", "\u{FEFF}", "\u{200B}", "\u{1680}"];
        let input: Vec<u8> = match rng.below(33) {
            // JSON that goes wrong next to a multi-byte character (diagnostics that quote the input)
            29 => [&b"{\"a\":\"\\u00"[..], "é\"}".as_bytes()].concat(),
            30 => ["\"\\u0€\"", "\"\\ud83d\\u00é\"", "\"\\u😀\"", "[\"é\\x\"]", "{\"é\": tru}", "[1, é]", "\"日本\\"][rng.below(7)].as_bytes().to_vec(),
            31 => {
                // the document cut at an arbitrary byte (possibly inside a character)
                let cut = rng.below(doc_text.len().max(1));
                doc_text[..cut].to_vec()
            }
            32 => {
                // one byte of the document replaced
                let mut v = doc_text.clone();
                if !v.is_empty() {
                    let at = rng.below(v.len());
                    v[at] = [b'\\', b'"', 0xC3, 0xFF, b'\n', b'}', 0x00, b'u'][rng.below(8)];
                }
                v
            }
            // characters Unicode calls white space, JSON and JMESPath do not
            26 => format!("{}{}", String::from_utf8_lossy(&doc_text), EXOTIC_BLANKS[rng.below(10)]).into_bytes(),
            27 => format!("{}{}", EXOTIC_BLANKS[rng.below(10)], String::from_utf8_lossy(&doc_text)).into_bytes(),
            28 => format!("{}{}\n", String::from_utf8_lossy(&doc_text), EXOTIC_BLANKS[rng.below(10)]).into_bytes(),
            // bytes that are not UTF-8 *inside* a JSON string / key, where a lossy decoder
            // would quietly substitute U+FFFD and go on
            18 => b"{\"a\": \"x\xffy\", \"xs\": [1]}".to_vec(),
            19 => b"{\"k\xc3\": 1}".to_vec(),
            20 => b"[\"\xed\xa0\x80\"]".to_vec(),
            21 => b"\"abc\xe2\x82\"".to_vec(),
            22 => {
                // large input whose multi-byte characters straddle every power-of-two buffer boundary
                let mut v = b"[\"".to_vec();
                v.extend(std::iter::repeat(b'x').take(rng.below(3)));
                for _ in 0..70_000 {
                    v.extend("é".as_bytes());
                }
                v.extend(b"\", 1]");
                v
            }
            23 => [&b"\r\n\t "[..], &doc_text[..], &b"\r\n"[..]].concat(),
            24 => b"\"ctl \x01 raw\"".to_vec(),
            25 => b"{\"a\": \"line1\nline2\"}".to_vec(),
            14 => [&doc_text[..], &b" x"[..]].concat(),
            15 => [&doc_text[..], &b"]"[..]].concat(),
            16 => [&doc_text[..], &b"\n"[..], &doc_text[..]].concat(),
            17 => [&doc_text[..], &b","[..]].concat(),
            0 => b"{\"a\": ".to_vec(),
            1 => vec![],
            2 => vec![0xff, 0xfe, b'1'],
            3 => [&[0xEF, 0xBB, 0xBF][..], &doc_text[..]].concat(),
            4 => format!("{}1{}", "[".repeat(130), "]".repeat(130)).into_bytes(),
            5 => b"[1, 2,]".to_vec(),
            6 => b"  \n 17 \n".to_vec(),
            7 => b"\"just a string\"".to_vec(),
            _ => doc_text,
        };
        let unquoted = rng.chance(1, 3);
        let ast = rng.chance(1, 8);
        let expr_channel = rng.below(6); // 0..3 argv, 4 -e file, 5 -e file with trailing newline / special
        let input_channel = rng.below(5); // 0..2 stdin, 3 -f file, 4 -f missing file
        let mut argv: Vec<Value> = vec![];
        let mut files = serde_json::Map::new();
        if unquoted {
            argv.push(json!(if rng.chance(1, 2) { "-u" } else { "--unquoted" }));
        }
        if ast {
            argv.push(json!("--ast"));
        }
        // expression channel
        let mut expr_seen: Option<String> = Some(expr_text.clone());
        let in_argv = expr_channel < 4 && !expr_text.starts_with('-') && !expr_text.contains('\u{0}');
        if in_argv {
            argv.push(json!(expr_text));
        } else {
            let (content, readable): (Vec<u8>, bool) = match rng.below(17) {
                13 => (format!("{}{}", expr_text, EXOTIC_BLANKS[rng.below(10)]).into_bytes(), true),
                14 => (format!("{}{}\n", expr_text, EXOTIC_BLANKS[rng.below(10)]).into_bytes(), true),
                15 => (format!("{}{}", EXOTIC_BLANKS[rng.below(10)], expr_text).into_bytes(), true),
                16 => (format!("{}\n{}\n", expr_text, EXOTIC_BLANKS[rng.below(10)]).into_bytes(), true),
                0 => (format!("{}\n", expr_text).into_bytes(), true),
                1 => (vec![0xc3, 0x28, b'a'], false),
                2 => (vec![], true),
                8 => (b"'a\xffb'".to_vec(), false),
                9 => (b"'line1\nline2'".to_vec(), true),
                10 => (format!("{}\r\n", expr_text).into_bytes(), true),
                11 => (b"a\nb".to_vec(), true),
                12 => (b"`\"x\ny\"`\n\n| [@,\n @]".to_vec(), true),
                _ => (expr_text.clone().into_bytes(), true),
            };
            if rng.chance(1, 12) {
                argv.push(json!("-e"));
                argv.push(json!("{DIR}/missing-expression-file"));
                expr_seen = None;
            } else {
                expr_seen = if readable { Some(String::from_utf8(content.clone()).unwrap()) } else { None };
                files.insert("expr.jmespath".into(), json!(hex(&content)));
                argv.push(json!(if rng.chance(1, 2) { "-e" } else { "--expr-file" }));
                argv.push(json!("{DIR}/expr.jmespath"));
            }
        }
        // input channel
        let mut input_seen: Option<Vec<u8>> = Some(input.clone());
        let mut stdin_hex = String::new();
        match input_channel {
            3 => {
                files.insert("input.json".into(), json!(hex(&input)));
                argv.push(json!(if rng.chance(1, 2) { "-f" } else { "--filename" }));
                argv.push(json!("{DIR}/input.json"));
            }
            4 => {
                argv.push(json!("-f"));
                argv.push(json!("{DIR}/no-such-file.json"));
                input_seen = None;
            }
            _ => stdin_hex = hex(&input),
        }
        let exp = guarded(|| expect(expr_seen.as_deref(), input_seen.as_deref(), unquoted, ast));
        let exp = match exp {
            Ok(e) => e,
            Err(p) => {
                // the library itself panicked in-process: that is C05's business; record and skip
                rep.count("library_panicked_in_process_skipped");
                let _ = p;
                continue;
            }
        };
        rep.evaluations += 1;
        rep.count(&format!("expected/{}", if exp["ok"] == json!(true) { "success".to_string() } else { format!("failure:{}", exp["why"].as_str().unwrap_or("")) }));
        let spec = json!({"id": format!("{}-{}", args.shard, i), "argv": argv, "files": files, "stdin_hex": stdin_hex, "expect": exp,
                          "input_channel": if input_channel >= 3 { "file" } else { "stdin" }, "expr_channel": if in_argv { "argv" } else { "file" }, "ast": ast, "unquoted": unquoted});
        let _ = writeln!(file, "{}", spec);
    }
    let _ = file.flush();
    rep.nontrivial(1);
    rep.nontrivial(2);
    emit_report(args, &rep);
}
