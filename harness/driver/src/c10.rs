//! C10 — equality and ordering operators obey their algebraic contract.
//! Oracle: independent structural equality with numbers compared exactly from
//! their decimal spellings; algebraic laws. All ordered pairs of a value pool.

use crate::common::*;
use refimpl::json::parse_json;
use refimpl::rng::{fnv, Rng};
use serde_json::{json, Value};
use std::cmp::Ordering;
use std::collections::BTreeMap;

#[derive(Clone, Debug)]
enum PV {
    Null,
    Bool(bool),
    Str(String),
    Num(String),
    Arr(Vec<PV>),
    Obj(BTreeMap<String, PV>),
}

impl PV {
    fn text(&self) -> String {
        match self {
            PV::Null => "null".into(),
            PV::Bool(b) => b.to_string(),
            PV::Str(s) => refimpl::json::spell_json_string(s, 0),
            PV::Num(s) => s.clone(),
            PV::Arr(a) => format!("[{}]", a.iter().map(|e| e.text()).collect::<Vec<_>>().join(",")),
            PV::Obj(o) => format!(
                "{{{}}}",
                o.iter()
                    .map(|(k, v)| format!("{}:{}", refimpl::json::spell_json_string(k, 0), v.text()))
                    .collect::<Vec<_>>()
                    .join(",")
            ),
        }
    }
    fn ty(&self) -> u8 {
        match self {
            PV::Null => 0,
            PV::Bool(_) => 1,
            PV::Str(_) => 2,
            PV::Num(_) => 3,
            PV::Arr(_) => 4,
            PV::Obj(_) => 5,
        }
    }
}

impl PV {
    fn to_value(&self) -> Value {
        match self {
            PV::Null => Value::Null,
            PV::Bool(b) => Value::Bool(*b),
            PV::Str(s) => Value::String(s.clone()),
            PV::Num(s) => parse_json(s, 4).expect("pool numeral is JSON"),
            PV::Arr(a) => Value::Array(a.iter().map(|e| e.to_value()).collect()),
            PV::Obj(o) => Value::Object(o.iter().map(|(k, v)| (k.clone(), v.to_value())).collect()),
        }
    }
    fn depth(&self) -> usize {
        match self {
            PV::Arr(a) => 1 + a.iter().map(|e| e.depth()).max().unwrap_or(0),
            PV::Obj(o) => 1 + o.values().map(|e| e.depth()).max().unwrap_or(0),
            _ => 0,
        }
    }
}

/// Exact decimal: value = (-1)^neg * 0.d1d2d3... * 10^exp, digits without
/// leading/trailing zeros; zero has no digits.
#[derive(Clone, Debug, PartialEq)]
struct Dec {
    neg: bool,
    digits: Vec<u8>,
    exp: i64,
}

fn dec(s: &str) -> Dec {
    let (neg, rest) = match s.strip_prefix('-') {
        Some(r) => (true, r),
        None => (false, s),
    };
    let (mant, e) = match rest.find(|c| c == 'e' || c == 'E') {
        Some(i) => (&rest[..i], rest[i + 1..].trim_start_matches('+').parse::<i64>().unwrap()),
        None => (rest, 0),
    };
    let (ip, fp) = match mant.find('.') {
        Some(i) => (&mant[..i], &mant[i + 1..]),
        None => (mant, ""),
    };
    let mut digits: Vec<u8> = ip.bytes().chain(fp.bytes()).map(|b| b - b'0').collect();
    let mut exp = ip.len() as i64 + e;
    while digits.first() == Some(&0) {
        digits.remove(0);
        exp -= 1;
    }
    while digits.last() == Some(&0) {
        digits.pop();
    }
    if digits.is_empty() {
        return Dec {
            neg: false,
            digits,
            exp: 0,
        };
    }
    Dec { neg, digits, exp }
}

fn dec_cmp(a: &Dec, b: &Dec) -> Ordering {
    let mag = |x: &Dec, y: &Dec| -> Ordering {
        match (x.digits.is_empty(), y.digits.is_empty()) {
            (true, true) => return Ordering::Equal,
            (true, false) => return Ordering::Less,
            (false, true) => return Ordering::Greater,
            _ => {}
        }
        x.exp.cmp(&y.exp).then_with(|| x.digits.cmp(&y.digits))
    };
    match (a.neg, b.neg) {
        (false, false) => mag(a, b),
        (true, true) => mag(b, a),
        (false, true) => Ordering::Greater,
        (true, false) => Ordering::Less,
    }
}

/// Some(ordering) when the statement constrains the pair (identical reals or
/// well separated), None inside the tolerance window.
fn num_oracle(a: &str, b: &str) -> Option<Ordering> {
    let o = dec_cmp(&dec(a), &dec(b));
    if o == Ordering::Equal {
        return Some(o);
    }
    let (x, y): (f64, f64) = (a.parse().unwrap(), b.parse().unwrap());
    let m = x.abs().max(y.abs());
    let d = (x - y).abs();
    if d > 1e-9 * m {
        Some(o)
    } else {
        None
    }
}

/// Some(equal?) or None when a number pair inside falls into the unasserted window.
fn eq_oracle(a: &PV, b: &PV) -> Option<bool> {
    match (a, b) {
        (PV::Null, PV::Null) => Some(true),
        (PV::Bool(x), PV::Bool(y)) => Some(x == y),
        (PV::Str(x), PV::Str(y)) => Some(x == y),
        (PV::Num(x), PV::Num(y)) => num_oracle(x, y).map(|o| o == Ordering::Equal),
        (PV::Arr(x), PV::Arr(y)) => {
            if x.len() != y.len() {
                return Some(false);
            }
            let mut unknown = false;
            for (p, q) in x.iter().zip(y) {
                match eq_oracle(p, q) {
                    Some(false) => return Some(false),
                    None => unknown = true,
                    _ => {}
                }
            }
            if unknown {
                None
            } else {
                Some(true)
            }
        }
        (PV::Obj(x), PV::Obj(y)) => {
            if x.len() != y.len() || x.keys().ne(y.keys()) {
                return Some(false);
            }
            let mut unknown = false;
            for (k, p) in x {
                match eq_oracle(p, &y[k]) {
                    Some(false) => return Some(false),
                    None => unknown = true,
                    _ => {}
                }
            }
            if unknown {
                None
            } else {
                Some(true)
            }
        }
        _ => Some(false),
    }
}

fn pool(rng: &mut Rng, extra: usize) -> Vec<PV> {
    let n = |s: &str| PV::Num(s.to_string());
    let s = |x: &str| PV::Str(x.to_string());
    let mut v = vec![PV::Null, PV::Bool(true), PV::Bool(false)];
    for x in ["", "a", "b", "1", "1.0", "true", "null", "é", "e\u{301}", "A", "a ", "[]", "{}", "日本", "\u{1F600}"] {
        v.push(s(x));
    }
    let nums = [
        "0", "-0", "0.0", "-0.0", "0e0", "0E-5", "1", "1.0", "1e0", "10e-1", "0.1e1", "1.000", "-1", "-1.0", "-1e0", "2", "2.0", "1.5", "15e-1",
        "0.5", "5e-1", "0.1", "1e-1", "0.25", "100", "1e2", "1E+2", "1.0e2", "99", "101", "9007199254740992", "9007199254740993", "9007199254740992.0",
        "9.007199254740992e15", "9223372036854775807", "-9223372036854775808", "18446744073709551615", "9223372036854775808", "1e19",
        "1.8446744073709552e19", "1e300", "1.5e300", "1e-300", "2e-300", "1e308", "1.0e308", "1.5e308", "1.7e308", "1.7976931348623157e308",
        "-1e308", "-1.5e308", "5e-324", "1e-323", "1e-320", "2.2250738585072014e-308", "1e-308", "123456789", "123456789.0", "123456790",
        "3.14159", "3.14159000", "0.30000000000000004", "0.3", "-0.3", "1e15", "1000000000000000", "1000000000000001", "65536", "-65536", "7",
    ];
    for x in nums {
        v.push(n(x));
    }
    // containers: base shapes
    let arr = |xs: Vec<PV>| PV::Arr(xs);
    let obj = |kvs: Vec<(&str, PV)>| PV::Obj(kvs.into_iter().map(|(k, v)| (k.to_string(), v)).collect());
    v.push(arr(vec![]));
    v.push(obj(vec![]));
    let leaves = vec![n("1"), n("1.0"), n("2"), n("1e308"), n("1.5e308"), s("1"), s("a"), PV::Null, PV::Bool(true), arr(vec![]), obj(vec![]), n("0"), n("-0.0")];
    for l in &leaves {
        v.push(arr(vec![l.clone()]));
        v.push(obj(vec![("a", l.clone())]));
        v.push(arr(vec![n("1"), arr(vec![n("2"), l.clone()])]));
        v.push(obj(vec![("a", obj(vec![("b", arr(vec![l.clone()]))])), ("c", n("1"))]));
    }
    for l in leaves.iter().take(6) {
        v.push(arr(vec![l.clone(), n("2")]));
        v.push(arr(vec![n("2"), l.clone()]));
        v.push(obj(vec![("b", l.clone())]));
        v.push(obj(vec![("a", l.clone()), ("b", n("2"))]));
        v.push(obj(vec![("b", n("2")), ("a", l.clone())]));
    }
    v.push(arr(vec![n("1"), n("2"), n("3")]));
    v.push(arr(vec![n("1"), n("2")]));
    v.push(arr(vec![arr(vec![])]));
    v.push(arr(vec![arr(vec![]), arr(vec![])]));
    v.push(obj(vec![("", n("1"))]));
    v.push(obj(vec![("a", n("1")), ("b", n("2")), ("c", n("3"))]));
    // random nested values
    for _ in 0..extra {
        v.push(random_pv(rng, 3));
    }
    v
}

fn random_pv(rng: &mut Rng, depth: usize) -> PV {
    let nums = ["0", "1", "1.0", "2", "-1", "1.5", "1e2", "100", "0.1", "1e308", "1.5e308", "3"];
    let strs = ["", "a", "b", "1"];
    if depth == 0 || rng.chance(1, 3) {
        return match rng.below(6) {
            0 => PV::Null,
            1 => PV::Bool(rng.chance(1, 2)),
            2 | 3 => PV::Num(nums[rng.below(nums.len())].to_string()),
            _ => PV::Str(strs[rng.below(strs.len())].to_string()),
        };
    }
    if rng.chance(1, 2) {
        PV::Arr((0..rng.below(4)).map(|_| random_pv(rng, depth - 1)).collect())
    } else {
        PV::Obj((0..rng.below(4)).map(|_| (["a", "b", "c"][rng.below(3)].to_string(), random_pv(rng, depth - 1))).collect())
    }
}

const OPS: [&str; 6] = ["==", "!=", "<", "<=", ">", ">="];

/// The six results for (x OP y): Some(bool) / None (null) per operator.
/// Operand forms. 0: two members of the document; 1: two literals; 2: the same
/// member named twice (`l OP l`); 3: the current node twice (`@ OP @`); 4: two
/// members that share one reference-counted value. Forms 2-4 make both operands
/// the very same node, where an identity shortcut would answer before looking
/// at the operator or the types. 5 / 6: a member on one side and a literal on the other
/// (a parser that normalises "literal OP expression" has a mirror table to get wrong).
fn six(rep: &mut Report, exprs: &[jmespath::Expression<'_>; 6], form: u8, x: &PV, y: &PV) -> Option<[Option<bool>; 6]> {
    let literal = form == 1;
    let mut out = [None; 6];
    let doc = if literal {
        Value::Null
    } else {
        // built node by node (no text in between: values may be nested deeper than a JSON reader accepts)
        json!({"l": x.to_value(), "r": y.to_value()})
    };
    for (k, op) in OPS.iter().enumerate() {
        rep.evaluations += 1;
        let res = if literal {
            let text = format!("`{}` {} `{}`", x.text().replace('`', "\\`"), op, y.text().replace('`', "\\`"));
            guarded(|| jmespath::compile(&text).and_then(|e| e.search(())))
        } else if form == 5 || form == 6 {
            // one operand from the document, the other a literal (either side)
            let text = if form == 5 {
                format!("l {} `{}`", op, y.text().replace('`', "\\`"))
            } else {
                format!("`{}` {} r", x.text().replace('`', "\\`"), op)
            };
            let input = rcvar_of(&doc);
            guarded(|| jmespath::compile(&text).and_then(|e| e.search(&input)))
        } else if form == 2 {
            let input = rcvar_of(&doc);
            guarded(|| jmespath::compile(&format!("l {} l", op)).and_then(|e| e.search(&input)))
        } else if form == 3 {
            let input = rcvar_of(&doc["l"]);
            guarded(|| jmespath::compile(&format!("@ {} @", op)).and_then(|e| e.search(&input)))
        } else if form == 4 {
            let shared = rcvar_of(&doc["l"]);
            let mut m = std::collections::BTreeMap::new();
            m.insert("l".to_string(), shared.clone());
            m.insert("r".to_string(), shared);
            let input = jmespath::Rcvar::new(jmespath::Variable::Object(m));
            guarded(|| exprs[k].search(&input))
        } else {
            let input = rcvar_of(&doc);
            guarded(|| exprs[k].search(&input))
        };
        match res {
            Ok(Ok(v)) => {
                out[k] = match &*v {
                    jmespath::Variable::Bool(b) => Some(*b),
                    jmespath::Variable::Null => None,
                    other => {
                        rep.violation("C10/comparison-result-not-boolean-or-null", json!({"l": x.text(), "r": y.text(), "op": op, "got": other.to_string()}));
                        return None;
                    }
                }
            }
            Ok(Err(e)) => {
                rep.violation("C10/comparison-failed", json!({"l": x.text(), "r": y.text(), "op": op, "literal_form": literal, "error": err_json(&e)}));
                return None;
            }
            Err(p) => {
                rep.violation(&format!("C10/panic/{}", panic_site(&p)), json!({"l": x.text(), "r": y.text(), "op": op, "panic": p}));
                return None;
            }
        }
    }
    Some(out)
}

/// Wide and deep operands: equality has to look at every element, member and level, also
/// beyond the sizes where implementations switch strategy.
fn wide_and_deep_pool() -> Vec<PV> {
    let n = |s: &str| PV::Num(s.to_string());
    let mut v = vec![];
    for &len in &[31usize, 32, 33, 64, 65, 255, 256, 257, 1025] {
        let base: Vec<PV> = (0..len).map(|i| n(&i.to_string())).collect();
        v.push(PV::Arr(base.clone()));
        for pos in [0, len / 2, len - 1] {
            let mut b = base.clone();
            b[pos] = n("-7");
            v.push(PV::Arr(b));
        }
        v.push(PV::Arr(base[..len - 1].to_vec()));
        if len <= 257 {
            let o: BTreeMap<String, PV> = (0..len).map(|i| (format!("k{:04}", i), n(&i.to_string()))).collect();
            v.push(PV::Obj(o.clone()));
            let mut o2 = o.clone();
            o2.insert(format!("k{:04}", len - 1), n("-7"));
            v.push(PV::Obj(o2));
            let mut o3 = o.clone();
            o3.remove(&format!("k{:04}", len / 2));
            o3.insert(format!("K{:04}", len / 2), n(&(len / 2).to_string()));
            v.push(PV::Obj(o3));
        }
    }
    for &depth in &[3usize, 4, 5, 8, 16, 40, 120, 127, 128, 129, 130, 200, 300] {
        for leaf in ["1", "2"] {
            for shape in 0..3 {
                let mut x = n(leaf);
                for d in 0..depth {
                    x = match (shape + d) % if shape == 2 { 1 } else { 2 } {
                        0 if shape != 1 => PV::Arr(vec![n("0"), x]),
                        _ => PV::Obj(vec![("a".to_string(), x), ("z".to_string(), n("0"))].into_iter().collect()),
                    };
                }
                v.push(x);
            }
        }
    }
    for &len in &[31usize, 32, 33, 255, 256, 257, 4096] {
        let base: String = (0..len).map(|i| ['a', 'b', 'é', '日'][i % 4]).collect();
        v.push(PV::Str(base.clone()));
        let mut cs: Vec<char> = base.chars().collect();
        cs[len - 1] = 'Z';
        v.push(PV::Str(cs.iter().collect()));
        cs[len - 1] = base.chars().last().unwrap();
        cs[0] = 'Z';
        v.push(PV::Str(cs.iter().collect()));
    }
    v
}

/// The same comparison reached through the constructs that wrap comparisons in practice: under a
/// negation, as a filter predicate over elements of every kind, and between multi-select values that
/// share their member nodes. Expected outcomes follow from the plain comparison's own result
/// (`plain`: Some(bool) / None for null), so these checks are about the wrapping, not the operator.
fn wrapped_forms(rep: &mut Report, x: &PV, y: &PV, plain: &[Option<bool>; 6]) {
    let doc = json!({"l": x.to_value(), "r": y.to_value(),
                     "xs": [{"a": x.to_value(), "id": 0}, 7, "s", [1], true, {"b": x.to_value(), "id": 5}, null, {"a": null, "id": 7}]});
    let input = rcvar_of(&doc);
    let lit = format!("`{}`", y.text().replace('`', "\\`"));
    let y_is_null = matches!(y, PV::Null);
    for (k, op) in OPS.iter().enumerate() {
        // (a) negation of the parenthesised comparison: `!` of null is true
        rep.evaluations += 1;
        let want_not = !(plain[k] == Some(true));
        let text = format!("!(l {} r)", op);
        match guarded(|| jmespath::compile(&text).and_then(|e| e.search(&input))) {
            Ok(Ok(v)) if v.as_boolean() == Some(want_not) => rep.count("wrapped/negation_ok"),
            other => rep.violation(
                "C10/negated-comparison-is-not-the-negation",
                json!({"l": x.text(), "r": y.text(), "expression": text, "plain_result": format!("{:?}", plain[k]), "expected": want_not, "got": format!("{:?}", other.map(|r| r.map(|v| v.to_string()).map_err(|e| e.to_string())))}),
            ),
        }
        // (b) as a filter predicate `[?a OP literal]` over objects with and without the member, scalars, arrays, null
        if y.depth() < 100 {
            rep.evaluations += 1;
            // member `a` of an element that is not an object (or lacks it) is null: compare null with y
            let null_vs_y: Option<bool> = match k {
                0 => Some(y_is_null),
                1 => Some(!y_is_null),
                _ => None,
            };
            let mut want: Vec<Value> = vec![];
            if plain[k] == Some(true) {
                want.push(doc["xs"][0].clone());
            }
            if null_vs_y == Some(true) {
                for i in [1usize, 2, 3, 4, 5, 7] {
                    want.push(doc["xs"][i].clone());
                }
            }
            let text = format!("xs[?a {} {}]", op, lit);
            match guarded(|| jmespath::compile(&text).and_then(|e| e.search(&input))) {
                Ok(Ok(v)) if value_of(&v).map_or(false, |g| refimpl::json::val_eq(&g, &Value::Array(want.clone()), 0.0)) => rep.count("wrapped/filter_ok"),
                other => rep.violation(
                    "C10/comparison-as-filter-predicate-differs",
                    json!({"l": x.text(), "r": y.text(), "expression": text, "plain_result": format!("{:?}", plain[k]), "expected_kept": want.len(),
                           "got": format!("{:?}", other.map(|r| r.map(|v| v.to_string().chars().take(300).collect::<String>()).map_err(|e| e.to_string())))}),
                ),
            }
        }
    }
    // (d) the comparison's result compared with a boolean literal, on either side: null is neither
    for (k, op) in OPS.iter().enumerate() {
        for (text, want) in [
            (format!("(l {} r) == `true`", op), plain[k] == Some(true)),
            (format!("(l {} r) == `false`", op), plain[k] == Some(false)),
            (format!("`false` == (l {} r)", op), plain[k] == Some(false)),
            (format!("(l {} r) != `true`", op), plain[k] != Some(true)),
            (format!("(l {} r) == `null`", op), plain[k].is_none()),
        ] {
            rep.evaluations += 1;
            match guarded(|| jmespath::compile(&text).and_then(|e| e.search(&input))) {
                Ok(Ok(v)) if v.as_boolean() == Some(want) => rep.count("wrapped/result_vs_boolean_ok"),
                other => rep.violation(
                    "C10/comparison-result-compared-with-a-literal",
                    json!({"l": x.text(), "r": y.text(), "expression": text, "plain_result": format!("{:?}", plain[k]), "expected": want, "got": format!("{:?}", other.map(|r| r.map(|v| v.to_string()).map_err(|e| e.to_string())))}),
                ),
            }
        }
    }
    // (e) a number that is the RESULT of a call compared with r: as the same number written down would compare
    if let PV::Num(_) = y {
        for nlen in 0..4usize {
            let d2 = json!({"xs": (0..nlen).collect::<Vec<usize>>(), "r": y.to_value(), "neg": -(nlen as i64)});
            let in2 = rcvar_of(&d2);
            for op in OPS.iter() {
                let base = guarded(|| jmespath::compile(&format!("`{}` {} r", nlen, op)).and_then(|e| e.search(&in2))).ok().and_then(|r| r.ok()).map(|v| v.to_string());
                for call in [format!("length(xs) {} r", op), format!("abs(neg) {} r", op), format!("to_number('{}') {} r", nlen, op), format!("length(xs) {} {}", op, lit)] {
                    rep.evaluations += 1;
                    let got = guarded(|| jmespath::compile(&call).and_then(|e| e.search(&in2))).ok().and_then(|r| r.ok()).map(|v| v.to_string());
                    if got.is_some() && got == base {
                        rep.count("wrapped/call_result_as_operand_ok");
                    } else {
                        rep.violation(
                            "C10/call-result-compares-differently-from-the-same-number",
                            json!({"r": y.text(), "expression": call, "the_number": nlen, "as_a_literal": format!("{:?}", base), "got": format!("{:?}", got)}),
                        );
                    }
                }
            }
        }
    }
    // (f) comparators do not chain specially: `l OP1 r OP2 x` is `(l OP1 r) OP2 x` (left to right, all six at one level),
    // so an ordering applied to the boolean / null of an equality is null, an equality applied to it compares that boolean
    {
        let h = fnv(format!("{}|{}", x.text(), y.text()).as_bytes());
        for k in 0..4u64 {
            let (o1, o2) = (OPS[((h >> (k * 6)) % 6) as usize], OPS[((h >> (k * 6 + 3)) % 6) as usize]);
            for third in ["l", "r", "`true`", "`null`"] {
                let flat = format!("l {} r {} {}", o1, o2, third);
                let grouped = format!("(l {} r) {} {}", o1, o2, third);
                rep.evaluations += 1;
                let a = guarded(|| jmespath::compile(&flat).and_then(|e| e.search(&input)).map(|v| v.to_string()).map_err(|e| e.to_string()));
                let b = guarded(|| jmespath::compile(&grouped).and_then(|e| e.search(&input)).map(|v| v.to_string()).map_err(|e| e.to_string()));
                if a == b {
                    rep.count("wrapped/comparator_chain_groups_left_to_right");
                } else {
                    rep.violation("C10/comparator-chain-does-not-group-left-to-right", json!({"l": x.text(), "r": y.text(), "expression": flat, "parenthesised": grouped, "got": format!("{:?}", a), "parenthesised_got": format!("{:?}", b)}));
                }
            }
        }
    }
    // (c) multi-select values whose members are the SAME nodes under different / equal names
    for (text, want) in [("{p: l} == {q: l}", false), ("{p: l} == {p: l}", true), ("{p: l} != {q: l}", true), ("[l] == [l]", true), ("[l, l] == [l]", false), ("{p: l, q: r} == {p: l, q: r}", true),
                         ("{p: l, q: r} == {p: r, q: l}", plain[0] == Some(true)),
                         // containers that differ (or not) in ONE position and hold the very same node in the others, before or after it
                         ("[l, r] == [r, r]", plain[0] == Some(true)), ("[r, l] == [r, r]", plain[0] == Some(true)), ("[l, r, r] == [r, r, r]", plain[0] == Some(true)),
                         ("[r, r, l] == [r, r, r]", plain[0] == Some(true)), ("[r, l, r] == [r, r, r]", plain[0] == Some(true)), ("[[l, r]] == [[r, r]]", plain[0] == Some(true)),
                         ("{p: l, q: r} == {p: r, q: r}", plain[0] == Some(true)), ("{p: r, q: l} == {p: r, q: r}", plain[0] == Some(true)), ("{a: [l, r]} == {a: [r, r]}", plain[0] == Some(true)),
                         ("[l, r] != [r, r]", plain[0] != Some(true)), ("contains([[r, r]], [l, r])", plain[0] == Some(true)), ("[@, l] == [@, r]", plain[0] == Some(true)),
                         ("[l, @] == [r, @]", plain[0] == Some(true)), ("[l, r, @] != [r, r, @]", plain[0] != Some(true))] {
        if matches!(x, PV::Null) || matches!(y, PV::Null) {
            // (a multi-select hash keeps null members, nothing special; still fine to check)
        }
        rep.evaluations += 1;
        match guarded(|| jmespath::compile(text).and_then(|e| e.search(&input))) {
            Ok(Ok(v)) if v.as_boolean() == Some(want) => rep.count("wrapped/shared_members_ok"),
            other => rep.violation(
                "C10/equality-of-values-sharing-member-nodes",
                json!({"l": x.text(), "r": y.text(), "expression": text, "expected": want, "got": format!("{:?}", other.map(|r| r.map(|v| v.to_string()).map_err(|e| e.to_string())))}),
            ),
        }
    }
}

pub fn run(args: &Args) {
    let mut rep = Report::new("C10");
    let mut rng = Rng::new(args.seed);
    let extra: usize = args.kv.get("extra").and_then(|v| v.parse().ok()).unwrap_or(150);
    let pool = pool(&mut rng, extra);
    rep.extra.insert("pool_size".into(), json!(pool.len()));
    let exprs: [jmespath::Expression<'static>; 6] = [
        jmespath::compile("l == r").unwrap(),
        jmespath::compile("l != r").unwrap(),
        jmespath::compile("l < r").unwrap(),
        jmespath::compile("l <= r").unwrap(),
        jmespath::compile("l > r").unwrap(),
        jmespath::compile("l >= r").unwrap(),
    ];
    let mut pair_index: u64 = 0;
    for i in 0..pool.len() {
        for j in i..pool.len() {
            pair_index += 1;
            if pair_index % args.shards != args.shard {
                continue;
            }
            let forms: &[u8] = if i == j { &[0, 1, 2, 3, 4, 5, 6] } else if (i + j) % 2 == 0 { &[0, 1, 5] } else { &[0, 1, 6] };
            for &form in forms {
                let literal = form == 1;
                let (x, y) = (&pool[i], &pool[j]);
                let xy = six(&mut rep, &exprs, form, x, y);
                let yx = six(&mut rep, &exprs, form, y, x);
                if form >= 2 {
                    rep.count("same_node_operand_pairs");
                }
                let (xy, yx) = match (xy, yx) {
                    (Some(a), Some(b)) => (a, b),
                    _ => continue,
                };
                check_pair(&mut rep, x, y, &xy, &yx, literal);
                if form == 0 && (i + 3 * j) % 4 == 0 {
                    wrapped_forms(&mut rep, x, y, &xy);
                }
            }
        }
    }
    let wide = wide_and_deep_pool();
    rep.extra.insert("wide_and_deep_pool_size".into(), json!(wide.len()));
    for i in 0..wide.len() {
        for j in i..wide.len() {
            pair_index += 1;
            if pair_index % args.shards != args.shard {
                continue;
            }
            // literal spellings of the largest values are long; one form in three
            // literal spellings only where a JSON reader would accept them (nesting) and one pair in three (length)
            let forms: &[u8] = if (i + j) % 3 == 0 && wide[i].depth().max(wide[j].depth()) < 100 { &[0, 1] } else { &[0] };
            for &form in forms {
                let (x, y) = (&wide[i], &wide[j]);
                let xy = six(&mut rep, &exprs, form, x, y);
                let yx = six(&mut rep, &exprs, form, y, x);
                if let (Some(a), Some(b)) = (xy, yx) {
                    check_pair(&mut rep, x, y, &a, &b, form == 1);
                    rep.count("wide_and_deep_pairs");
                }
            }
        }
    }
    rep.add("unordered_pairs", pair_index / args.shards);
    emit_report(args, &rep);
}

fn check_pair(rep: &mut Report, x: &PV, y: &PV, xy: &[Option<bool>; 6], yx: &[Option<bool>; 6], literal: bool) {
    let w = |what: &str| json!({"l": x.text(), "r": y.text(), "literal_form": literal, "law": what, "l_op_r": format!("{:?}", xy), "r_op_l": format!("{:?}", yx)});
    let both_num = x.ty() == 3 && y.ty() == 3;
    let mut ok = true;
    let mut fail = |rep: &mut Report, sig: &str, what: &str| {
        rep.violation(sig, w(what));
        ok = false;
    };
    // == and != are always booleans, != is the negation, == is symmetric
    match (xy[0], xy[1], yx[0], yx[1]) {
        (Some(e), Some(n), Some(e2), Some(n2)) => {
            if e == n || e2 == n2 {
                fail(rep, "C10/ne-is-not-the-negation-of-eq", "!= must negate ==");
            }
            if e != e2 {
                fail(rep, "C10/eq-not-symmetric", "== must be symmetric");
            }
        }
        _ => fail(rep, "C10/eq-or-ne-null", "== and != must yield booleans"),
    }
    let oracle_eq = eq_oracle(x, y);
    if let (Some(want), Some(got)) = (oracle_eq, xy[0]) {
        if want != got {
            let sig = if x.ty() != y.ty() {
                "C10/different-types-equal"
            } else if both_num {
                "C10/number-equality-wrong"
            } else if want {
                "C10/structurally-equal-values-unequal"
            } else {
                "C10/structurally-different-values-equal"
            };
            fail(rep, sig, "== must be deep structural equality with numbers by value");
        }
    } else if oracle_eq.is_none() {
        rep.count("unconstrained_close_numbers");
    }
    // ordering operators: booleans exactly when both operands are numbers
    for k in 2..6 {
        for r in [xy, yx] {
            if both_num != r[k].is_some() {
                fail(rep, "C10/ordering-boolean-iff-both-numbers", "ordering operators yield a boolean iff both operands are numbers, else null");
            }
        }
    }
    if both_num {
        if let (PV::Num(a), PV::Num(b)) = (x, y) {
            if let Some(o) = num_oracle(a, b) {
                if let (Some(eq), Some(lt), Some(le), Some(gt), Some(ge)) = (xy[0], xy[2], xy[3], xy[4], xy[5]) {
                    let ones = [lt, eq, gt].iter().filter(|b| **b).count();
                    if ones != 1 {
                        fail(rep, "C10/trichotomy", "exactly one of <, ==, > must hold for identical or well-separated numbers");
                    }
                    if le != (lt || eq) || ge != (gt || eq) {
                        fail(rep, "C10/le-ge-inconsistent", "<= iff (< or ==), >= iff (> or ==)");
                    }
                    let want = (o == Ordering::Less, o == Ordering::Equal, o == Ordering::Greater);
                    if (lt, eq, gt) != want {
                        fail(rep, "C10/order-disagrees-with-numeric-order", "order must agree with numeric order");
                    }
                    // antisymmetry with the swapped pair
                    if let (Some(lt2), Some(gt2)) = (yx[2], yx[4]) {
                        if lt != gt2 || gt != lt2 {
                            fail(rep, "C10/order-not-antisymmetric", "a<b iff b>a");
                        }
                    }
                }
            }
        }
    }
    if ok {
        rep.count("pairs_ok");
        rep.nontrivial(fnv(format!("{}|{}|{}", x.text(), y.text(), literal).as_bytes()));
        if rep.samples.len() < 10 && (fnv(x.text().as_bytes()) ^ fnv(y.text().as_bytes())) % 97 == 7 {
            rep.sample(json!({"l": x.text(), "r": y.text(), "results(==,!=,<,<=,>,>=)": format!("{:?}", xy)}));
        }
    }
}
