//! C01 — search conforms to the specification on the core expression forms.
//! Oracle: reference evaluator on the *generator's* tree (no parser in the loop).

use crate::common::*;
use refimpl::eval::{Builtins, ErrKind, Evaluator};
use refimpl::gen::{gen_doc, mutate_doc, value_hash, GenCfg, TreeGen};
use refimpl::json::val_eq;
use refimpl::nf::{canon, kind_name, size, walk};
use refimpl::parse::{parse, Opts};
use refimpl::print::{minimize_parens, respace, Printer};
use refimpl::rng::{fnv, Rng};
use serde_json::{json, Value};
use std::collections::BTreeSet;

pub fn run(args: &Args) {
    let mut rep = Report::new("C01");
    let strict = Opts::strict();
    let ev = Evaluator::new(&Builtins);
    let cdocs = crate::refcheck::compliance_docs();
    for i in 0..args.n {
        let mut rng = Rng::derive(args.seed, args.shard, i);
        let base = if !cdocs.is_empty() && rng.chance(1, 5) {
            cdocs[rng.below(cdocs.len())].clone()
        } else {
            gen_doc(&mut rng, 4)
        };
        let tree = {
            let mut g = TreeGen {
                rng: &mut rng,
                cfg: GenCfg { calls: false, depth: 3 },
            };
            g.pipeline(&base, 3, 5)
        };
        let text0 = match Printer::new(&mut rng).emit(&tree) {
            Ok(t) => t,
            Err(_) => {
                rep.count("unprintable_tree_skipped");
                continue;
            }
        };
        // oracle self-check: the printed text must denote the generated tree
        let want = canon(&tree);
        match parse(&text0, &strict) {
            Ok(q) if canon(&q) == want => {}
            other => {
                rep.harness_error(format!("printer/parser self-check failed for {:?}: {:?}", text0, other.map(|q| canon(&q))));
                continue;
            }
        }
        let pct = [0u32, 50, 100][rng.below(3)];
        let text1 = minimize_parens(&text0, &mut rng, pct, &strict);
        let text = respace(&text1, &mut rng);
        match parse(&text, &strict) {
            Ok(q) if canon(&q) == want => {}
            other => {
                rep.harness_error(format!("respace self-check failed for {:?}: {:?}", text, other.map(|q| canon(&q))));
                continue;
            }
        }
        let compiled = guarded(|| jmespath::compile(&text));
        let expr = match compiled {
            Ok(Ok(e)) => e,
            Ok(Err(e)) => {
                rep.evaluations += 1;
                rep.violation(
                    "C01/valid-expression-rejected",
                    json!({"expression": text, "error": err_json(&e), "seed": args.seed, "shard": args.shard, "index": i}),
                );
                continue;
            }
            Err(p) => {
                rep.evaluations += 1;
                rep.violation(&format!("C01/panic-in-compile/{}", panic_site(&p)), json!({"expression": text, "panic": p}));
                continue;
            }
        };
        let mut kinds = BTreeSet::new();
        walk(&tree, &mut |s| {
            kinds.insert(kind_name(s));
        });
        for k in &kinds {
            rep.count(&format!("node/{}", k));
        }
        let nodes = size(&tree);
        let mut docs = vec![base.clone()];
        for _ in 0..3 {
            docs.push(mutate_doc(&mut rng, &base));
        }
        docs.push(gen_doc(&mut rng, 3));
        let thash = fnv(want.as_bytes());
        for d in &docs {
            rep.evaluations += 1;
            let expected = ev.eval(&tree, d);
            let input = rcvar_of(d);
            let got = guarded(|| expr.search(&input));
            let witness = |exp: Value, got: Value| json!({"expression": text, "document": d, "expected": exp, "got": got, "tree": want, "seed": args.seed, "shard": args.shard, "index": i});
            let got = match got {
                Err(p) => {
                    rep.violation(&format!("C01/panic-in-search/{}", panic_site(&p)), witness(Value::Null, json!({"panic": p})));
                    continue;
                }
                Ok(g) => g,
            };
            let got_n: Result<Value, &'static str> = match &got {
                Ok(v) => match value_of(v) {
                    Ok(j) => Ok(j),
                    Err(w) => {
                        rep.violation("C01/non-json-result", witness(Value::Null, json!(w)));
                        continue;
                    }
                },
                Err(e) => Err(err_class(e)),
            };
            let agree = match (&expected, &got_n) {
                (Err(e), _) if matches!(e.kind, ErrKind::Unconstrained(_)) => {
                    rep.count("unconstrained_skipped");
                    continue;
                }
                (Ok(x), Ok(g)) => val_eq(x, g, 1e-12),
                (Err(e), Err(c)) => e.class() == *c,
                _ => false,
            };
            if agree {
                match &expected {
                    Ok(x) => {
                        rep.count("agree_value");
                        if !x.is_null() {
                            rep.count("agree_nonnull");
                            if nodes >= 3 && kinds.len() >= 2 {
                                rep.nontrivial(thash ^ value_hash(d).rotate_left(17));
                            }
                            if rep.samples.len() < rep.sample_cap && nodes >= 4 && i % 7 == 0 {
                                rep.sample(json!({"expression": text, "document": d, "result": x}));
                            }
                        }
                    }
                    Err(_) => rep.count("agree_error"),
                }
            } else {
                let exp = match &expected {
                    Ok(x) => x.clone(),
                    Err(e) => json!({"error": e.class()}),
                };
                let g = match &got {
                    Ok(v) => json!(v.to_string()),
                    Err(e) => err_json(e),
                };
                if d15_explains(&ev, &text, &want, d, &got_n) {
                    rep.violation("C01/projection-rhs-ends-after-dot-multiselect-list", witness(exp, g));
                } else {
                    rep.violation("C01/mismatch", witness(exp, g));
                }
            }
        }
    }
    rep.extra.insert("expref_evals".into(), json!(ev.expref_evals.get()));
    emit_report(args, &rep);
}
