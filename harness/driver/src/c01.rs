//! C01 — search conforms to the specification on the core expression forms.
//! Oracle: reference evaluator on the *generator's* tree (no parser in the loop).

use crate::common::*;
use refimpl::eval::{Builtins, ErrKind, Evaluator};
use refimpl::gen::{gen_doc, mutate_doc, value_hash, GenCfg, TreeGen};
use refimpl::json::val_eq;
use refimpl::nf::{canon, kind_name, size, walk, Step};
use refimpl::parse::{parse, Opts};
use refimpl::print::{minimize_parens, respace, Printer};
use refimpl::rng::{fnv, Rng};
use serde_json::{json, Value};
use std::collections::BTreeSet;

/// The step alphabet of the bounded-exhaustive part.
fn step_alphabet() -> Vec<Step> {
    use refimpl::nf::{CmpOp, Kind};
    let f = |n: &str| vec![Step::Field(n.to_string())];
    let lit = |v: Value| vec![Step::Literal(v)];
    let proj = |k: Kind, rhs: Vec<Step>| Step::Project(k, rhs, (0, 0));
    vec![
        Step::Field("a".into()),
        Step::Field("b".into()),
        Step::Index(0),
        Step::Index(-1),
        Step::Index(2),
        proj(Kind::ListWild, vec![]),
        proj(Kind::ListWild, f("a")),
        proj(Kind::ObjWild, vec![]),
        proj(Kind::ObjWild, f("a")),
        proj(Kind::Flatten, vec![]),
        proj(Kind::Flatten, f("a")),
        proj(Kind::Filter(f("a")), vec![]),
        proj(Kind::Filter(vec![Step::Cmp(CmpOp::Gt, vec![], lit(json!(1)))]), vec![]),
        proj(Kind::Filter(vec![Step::Cmp(CmpOp::Eq, f("a"), lit(json!("x")))]), f("b")),
        proj(Kind::Slice(Some(1), None, 1), vec![]),
        proj(Kind::Slice(None, None, -1), vec![]),
        proj(Kind::Slice(None, Some(2), 1), vec![Step::Index(0)]),
        Step::MultiList(vec![f("a"), vec![]]),
        Step::MultiHash(vec![("k".into(), f("a")), ("j".into(), vec![])]),
        Step::Not(vec![]),
        Step::Or(f("a"), lit(json!("d"))),
        Step::And(f("a"), f("b")),
        Step::Cmp(CmpOp::Eq, vec![], lit(json!(1))),
        Step::Cmp(CmpOp::Lt, f("a"), f("b")),
        Step::Literal(json!([1, [2], null])),
    ]
}

fn small_docs() -> Vec<Value> {
    vec![
        json!(null),
        json!(1),
        json!("s"),
        json!([]),
        json!({}),
        json!([1, 2, 3]),
        json!([[1, 2], [3], null, "x"]),
        json!({"a": 1, "b": 2}),
        json!({"a": {"a": [1, 2], "b": "x"}, "b": [{"a": 1, "b": "y"}, {"a": null}, {"b": "x", "a": "x"}]}),
        json!([{"a": [1, [2]], "b": "x"}, {"a": "x", "b": []}, null, {"a": {"a": 1}}]),
        json!({"a": [{"a": 1}, {"a": 2, "b": 3}], "b": {"a": [], "b": null}}),
        json!([0, false, "", [], {}, null, "x"]),
    ]
}

/// Bounded-exhaustive part: EVERY pipeline of 1..=maxlen steps over the alphabet, on every small document.
fn enumerate_small(rep: &mut Report, args: &Args, ev: &Evaluator, maxlen: u32) {
    let alpha = step_alphabet();
    let docs = small_docs();
    let k = alpha.len() as u64;
    let total: u64 = (1..=maxlen).map(|l| k.pow(l)).sum();
    let strict = Opts::strict();
    let mut i = args.shard;
    let mut done = 0u64;
    while i < total {
        let mut j = i;
        let mut tree = vec![];
        for len in 1..=maxlen {
            let c = k.pow(len);
            if j < c {
                for _ in 0..len {
                    tree.push(alpha[(j % k) as usize].clone());
                    j /= k;
                }
                break;
            }
            j -= c;
        }
        i += args.shards;
        let mut rng = Rng::new(i);
        let mut pr = Printer::new(&mut rng);
        pr.fancy_spelling = false;
        let text = match pr.emit(&tree) {
            Ok(t) => t,
            Err(_) => continue,
        };
        let want = canon(&tree);
        match parse(&text, &strict) {
            Ok(q) if canon(&q) == want => {}
            other => {
                rep.harness_error(format!("enumeration self-check failed for {:?}: {:?}", text, other.map(|q| canon(&q))));
                continue;
            }
        }
        let expr = match guarded(|| jmespath::compile(&text)) {
            Ok(Ok(e)) => e,
            other => {
                rep.violation("C01/valid-expression-rejected", json!({"expression": text, "got": format!("{:?}", other.map(|r| r.map(|_| ())))}));
                continue;
            }
        };
        done += 1;
        for d in &docs {
            rep.evaluations += 1;
            let expected = ev.eval(&tree, d);
            let got = guarded(|| expr.search(rcvar_of(d)));
            let got_n: Result<Value, &'static str> = match &got {
                Ok(Ok(v)) => match value_of(v) {
                    Ok(j) => Ok(j),
                    Err(_) => Err("non-json"),
                },
                Ok(Err(e)) => Err(err_class(e)),
                Err(_) => Err("panic"),
            };
            let agree = match (&expected, &got_n) {
                (Ok(x), Ok(g)) => val_eq(x, g, 1e-12),
                (Err(e), Err(c)) => e.class() == *c,
                _ => false,
            };
            if agree {
                rep.count("enumerated_agree");
                if matches!(&expected, Ok(x) if !x.is_null()) && tree.len() >= 2 {
                    rep.nontrivial(fnv(want.as_bytes()) ^ value_hash(d).rotate_left(17));
                }
            } else if d15_explains(ev, &text, &want, d, &got_n) {
                rep.violation("C01/projection-rhs-ends-after-dot-multiselect-list", json!({"expression": text, "document": d}));
            } else {
                rep.violation(
                    "C01/mismatch",
                    json!({"expression": text, "document": d, "expected": format!("{:?}", expected.as_ref().map_err(|e| e.class())), "got": format!("{:?}", got_n), "family": "bounded-exhaustive"}),
                );
            }
        }
    }
    rep.add("enumerated_pipelines", done);
    rep.extra.insert("enumeration_maxlen".into(), json!(maxlen));
    rep.extra.insert("enumeration_alphabet".into(), json!(alpha.len()));
}

/// Ordering comparisons and ordering functions on numbers a few ulps apart. The
/// specification orders JSON numbers by value; only `==` / `!=` are tolerant in
/// this crate (C10 leaves those unasserted for such pairs), so `<`, `<=`, `>`, `>=`,
/// sort, max, min and the *_by family must still see the difference.
fn close_number_ordering(rep: &mut Report, args: &Args) {
    if args.shard != 0 {
        return;
    }
    let bases: [f64; 10] = [0.3, 1.0, 0.1, 1e15, 2.5, 1e-7, 123456.789, 1e300, 4.0, 1e-300];
    for &b in &bases {
        for sign in [1.0f64, -1.0] {
            for k in [1u64, 2, 3, 50] {
                let lo = sign * b;
                let hi = sign * f64::from_bits(b.to_bits() + k);
                let (lo, hi) = if lo < hi { (lo, hi) } else { (hi, lo) };
                let doc = json!({"a": lo, "b": hi, "xs": [hi, lo, hi, lo], "recs": [{"id": "hi", "v": hi}, {"id": "lo", "v": lo}, {"id": "hi2", "v": hi}]});
                // (operands come from the document, which is handed over as binary doubles: number
                // *literals* go through serde_json's fast float parser, which is allowed to be an ulp off)
                let cases: Vec<(String, Value)> = vec![
                    ("a < b".into(), json!(true)),
                    ("a <= b".into(), json!(true)),
                    ("a > b".into(), json!(false)),
                    ("a >= b".into(), json!(false)),
                    ("b < a".into(), json!(false)),
                    ("b <= a".into(), json!(false)),
                    ("b > a".into(), json!(true)),
                    ("b >= a".into(), json!(true)),
                    ("recs[?v > v].id".into(), json!([])),
                    ("recs[?v >= v].id".into(), json!(["hi", "lo", "hi2"])),
                    ("sort(xs)".into(), json!([lo, lo, hi, hi])),
                    ("max(xs)".into(), json!(hi)),
                    ("min(xs)".into(), json!(lo)),
                    ("sort_by(recs, &v)[*].id".into(), json!(["lo", "hi", "hi2"])),
                    ("max_by(recs, &v).v".into(), json!(hi)),
                    ("min_by(recs, &v).id".into(), json!("lo")),
                ];
                for (text, want) in cases {
                    rep.evaluations += 1;
                    let got = guarded(|| jmespath::compile(&text).and_then(|e| e.search(rcvar_of(&doc))));
                    let ok = match &got {
                        Ok(Ok(v)) => value_of(v).map_or(false, |g| refimpl::json::val_eq(&g, &want, 0.0)),
                        _ => false,
                    };
                    if ok {
                        rep.count("close_number_ordering_ok");
                        rep.nontrivial(refimpl::rng::fnv(format!("{}|{}|{}", text, lo, hi).as_bytes()));
                    } else {
                        rep.violation(
                            "C01/ordering-of-close-numbers",
                            json!({"expression": text, "document": doc, "expected": want, "got": format!("{:?}", got.map(|r| r.map(|v| v.to_string()).map_err(|e| e.to_string())))}),
                        );
                    }
                }
            }
        }
    }
}

/// Equality between values that are *almost* the same object / the same integer: objects of equal size whose key
/// sets differ (a member that is null on one side and missing on the other is a difference), the same members in
/// another order, integers beyond the signed 64-bit range and the doubles next to them — in every position where
/// equality decides something (operator, filter, contains, nested in lists and hashes), both ways round.
fn near_equal_values(rep: &mut Report, args: &Args, ev: &Evaluator, strict: &Opts) {
    if args.shard != 1 % args.shards {
        return;
    }
    let pool: Vec<Value> = vec![
        json!({}), json!({"id": 1}), json!({"id": 1, "note": null}), json!({"id": 1, "memo": "x"}), json!({"id": 1, "memo": null}), json!({"note": null, "id": 1}), json!({"a": null}), json!({"b": null}),
        json!({"a": null, "b": 1}), json!({"b": 1, "c": null}), json!({"id": 1.0, "note": null}), json!({"id": 1, "note": null, "memo": null}), json!({"id": 1, "memo": "x", "note": null}), json!({"a": {"x": null}}), json!({"a": {"y": 1}}),
        json!({"a": {}}), json!({"a": []}), json!({"a": [null]}), json!([null]), json!([]), json!(null),
        json!(18446744073709551615u64), json!(9223372036854775808u64), json!(4611686018427387904i64), json!(12345678901234567890u64), json!(16000000000000000000u64),
        // (neighbours that round to the same double are left out: whether those are "equal" is the tolerance C10 describes)
        json!(-9223372036854775808i64), json!(-4611686018427387904i64), json!(1.8446744073709552e19), json!(9.223372036854775808e18), json!(1e19), json!(42), json!(-1),
    ];
    const FORMS: [&str; 9] = ["a == b", "a != b", "[a] == [b]", "{x: a} == {x: b}", "contains([a, `0`], b)", "[a, b][?@ == $B] | length(@)", "[b, a, b][?@ != $A] | length(@)", "a == $B", "$A == b"];
    let trees: Vec<Option<_>> = FORMS.iter().map(|f| if f.contains('$') { None } else { Some(parse(f, strict).expect("form parses")) }).collect();
    for (i, x) in pool.iter().enumerate() {
        for (j, y) in pool.iter().enumerate() {
            let doc = json!({"a": x, "b": y});
            for (k, f) in FORMS.iter().enumerate() {
                if f.contains('$') && (i + j + k) % 3 != 0 {
                    continue;
                }
                let text = f.replace("$A", &format!("`{}`", x)).replace("$B", &format!("`{}`", y));
                let owned;
                let tree = match &trees[k] {
                    Some(t) => t,
                    None => match parse(&text, strict) {
                        Ok(t) => { owned = t; &owned }
                        Err(_) => continue,
                    },
                };
                rep.evaluations += 1;
                let want = ev.eval(tree, &doc);
                let got = guarded(|| jmespath::compile(&text).and_then(|e| e.search(rcvar_of(&doc))));
                let ok = match (&want, &got) {
                    (Err(e), _) if matches!(e.kind, refimpl::eval::ErrKind::Unconstrained(_)) => true,
                    (Ok(w), Ok(Ok(g))) => value_of(g).map_or(false, |g| refimpl::json::val_eq(&g, w, 0.0)),
                    _ => false,
                };
                if ok {
                    rep.count("near_equal_values_ok");
                    if i != j {
                        rep.nontrivial(refimpl::rng::fnv(format!("neq|{}|{}|{}", i, j, k).as_bytes()));
                    }
                } else {
                    rep.violation("C01/equality-of-nearly-equal-values", json!({"expression": text, "document": doc, "expected": format!("{:?}", want.as_ref().map(|v| v.to_string()).map_err(|e| e.class())),
                        "got": format!("{:?}", got.map(|r| r.map(|v| v.to_string()).map_err(|e| e.to_string())))}));
                }
            }
        }
    }
}

/// Array sizes are a dimension of "all documents": every array-consuming core form over
/// arrays of 0..=130 elements and around the powers of two up to 1024, against the
/// reference evaluator (implementations switch strategy at size thresholds: inline
/// buffers, chunked copies, pre-sized allocations).
fn size_sweep(rep: &mut Report, args: &Args, ev: &Evaluator, strict: &Opts) {
    const EXPRS: [&str; 34] = [
        "xs[*]", "xs[]", "xs[?@ >= `0`]", "xs[?@ > `5`]", "recs[*].id", "recs[?k == `1`].id", "recs[].v[]", "xs[::2]", "xs[::-1]", "xs[1:-1]", "xs[-1]", "xs[0]",
        "recs[*].v[0]", "recs[*].[id, k]", "recs[*].{a: id}", "nest[][]", "xs | [0]", "recs[-1].id", "xs[*] | [-1]", "recs[?v[0] == id].k", "xs == xs", "recs[*].v | [][]",
        "xs[-3:]", "xs[:3]", "xs[-2]", "xs[-4]", "xs[3]", "recs[-2].id", "nest[-1][-1][-1]", "xs[-1:]", "xs[:-1]", "recs[*].v[-1]", "recs[?k != `0`] | [-1].id", "nest[*][*] | [][] | [-1]",
    ];
    let mut sizes: Vec<usize> = (0..=130).collect();
    sizes.extend_from_slice(&[255, 256, 257, 511, 512, 513, 1000, 1023, 1024, 1025]);
    if args.tier == "thorough" {
        sizes.extend(131..=600);
        sizes.extend_from_slice(&[2047, 2048, 2049, 4095, 4096, 4097, 32767, 32768, 32769, 65535, 65536, 65537, 100_000]);
    }
    let trees: Vec<_> = EXPRS.iter().map(|t| parse(t, strict).expect("sweep expression parses")).collect();
    let compiled: Vec<_> = EXPRS.iter().map(|t| jmespath::compile(t)).collect();
    for (si, &n) in sizes.iter().enumerate() {
        if si as u64 % args.shards != args.shard {
            continue;
        }
        let doc = json!({
            "xs": (0..n as i64).collect::<Vec<i64>>(),
            "recs": (0..n as i64).map(|i| json!({"id": i, "k": i % 3, "v": [i]})).collect::<Vec<Value>>(),
            "nest": (0..n as i64).map(|i| json!([[i], [i, i]])).collect::<Vec<Value>>(),
        });
        let input = rcvar_of(&doc);
        for (k, text) in EXPRS.iter().enumerate() {
            rep.evaluations += 1;
            let want = ev.eval(&trees[k], &doc);
            let got = match &compiled[k] {
                Ok(e) => guarded(|| e.search(&input)),
                Err(e) => {
                    rep.violation("C01/valid-expression-rejected", json!({"expression": text, "error": err_json(e)}));
                    continue;
                }
            };
            let ok = match (&want, &got) {
                (Ok(x), Ok(Ok(g))) => value_of(g).map_or(false, |g| refimpl::json::val_eq(x, &g, 0.0)),
                _ => false,
            };
            // the same form applied to a LITERAL subject (what a parser may be tempted to fold ahead of time)
            if n <= 24 && ok {
                for name in ["xs", "recs", "nest"] {
                    if text.starts_with(name) && !text[name.len()..].contains(name) && !text.contains("xs == xs") {
                        let lit = format!("`{}`{}", doc[name].to_string().replace('`', "\\`"), &text[name.len()..]);
                        rep.evaluations += 1;
                        let got2 = guarded(|| jmespath::compile(&lit).and_then(|e| e.search(&input)));
                        let ok2 = match (&want, &got2) {
                            (Ok(x), Ok(Ok(g))) => value_of(g).map_or(false, |g| refimpl::json::val_eq(x, &g, 0.0)),
                            _ => false,
                        };
                        if ok2 {
                            rep.count("size_sweep_literal_subject_ok");
                        } else {
                            rep.violation(
                                "C01/mismatch/literal-subject",
                                json!({"expression": lit.chars().take(300).collect::<String>(), "array_length": n, "expected": format!("{:?}", want.as_ref().map(|v| v.to_string().chars().take(200).collect::<String>()).map_err(|e| e.class())),
                                       "got": format!("{:?}", got2.map(|r| r.map(|v| v.to_string().chars().take(200).collect::<String>()).map_err(|e| e.to_string())))}),
                            );
                        }
                    }
                }
            }
            if ok {
                rep.count("size_sweep_ok");
                if n > 1 {
                    rep.nontrivial(refimpl::rng::fnv(format!("size|{}|{}", text, n).as_bytes()));
                }
            } else {
                let shorten = |s: String| if s.len() > 400 { format!("{}… ({} bytes)", s.chars().take(400).collect::<String>(), s.len()) } else { s };
                rep.violation(
                    "C01/mismatch/array-size-sweep",
                    json!({"expression": text, "array_length": n, "expected": shorten(format!("{:?}", want.as_ref().map(|v| v.to_string()).map_err(|e| e.class()))),
                           "got": shorten(format!("{:?}", got.map(|r| r.map(|v| v.to_string()).map_err(|e| e.to_string()))))}),
                );
            }
        }
    }
}

/// Long flat chains of one operator, with every position in turn being the operand that decides:
/// `f0 || f1 || … || fn` where only members from position k on exist, `f0 && … && fn` where
/// member k is the first falsy one, pipes and comparisons chained left to right. The results
/// are known by construction.
fn chain_positions(rep: &mut Report, args: &Args) {
    if args.shard != 0 {
        return;
    }
    for &n in &[2usize, 3, 4, 5, 6, 7, 8, 9, 10, 11, 12, 16, 17, 33, 64, 65, 129] {
        for k in 0..n {
            if n > 17 && k % 7 != 0 && k != n - 1 && k != n - 5 {
                continue;
            }
            let names: Vec<String> = (0..n).map(|i| format!("f{}", i)).collect();
            // ||: members below k are missing (or falsy), k.. exist
            let mut d = serde_json::Map::new();
            for i in 0..n {
                if i >= k {
                    d.insert(names[i].clone(), json!(i as i64 + 100));
                } else if i % 3 == 0 {
                    d.insert(names[i].clone(), [json!(false), json!(""), json!([]), json!({}), json!(null)][i % 5].clone());
                }
            }
            let cases = vec![
                (names.join(" || "), Value::Object(d.clone()), json!(k as i64 + 100), "or"),
                (format!("[{}][0]", names.join(" || ")), Value::Object(d.clone()), json!(k as i64 + 100), "or-in-list"),
                {
                    // &&: members below k are truthy, k is falsy (false), later ones truthy
                    let mut m = serde_json::Map::new();
                    for i in 0..n {
                        m.insert(names[i].clone(), if i == k { json!(false) } else { json!(i as i64 + 100) });
                    }
                    (names.join(" && "), Value::Object(m), json!(false), "and")
                },
                {
                    // all truthy: && yields the last operand
                    let mut m = serde_json::Map::new();
                    for i in 0..n {
                        m.insert(names[i].clone(), json!(i as i64 + 100));
                    }
                    (names.join(" && "), Value::Object(m), json!(n as i64 + 99), "and-all-truthy")
                },
                {
                    // a filter listing n alternatives: exactly the k-th alternative matches the k-th record
                    let recs: Vec<Value> = (0..n).map(|i| json!({"t": format!("v{}", i), "id": i})).collect();
                    let alts: Vec<String> = (0..n).filter(|i| *i != k).map(|i| format!("t == 'v{}'", i)).collect();
                    let want: Vec<Value> = (0..n).filter(|i| *i != k).map(|i| json!(i)).collect();
                    (format!("[?{}].id", if alts.is_empty() { "`false`".to_string() } else { alts.join(" || ") }), Value::Array(recs), Value::Array(want), "filter-alternatives")
                },
            ];
            for (text, doc, want, what) in cases {
                rep.evaluations += 1;
                let got = guarded(|| jmespath::compile(&text).and_then(|e| e.search(rcvar_of(&doc))));
                let ok = matches!(&got, Ok(Ok(v)) if value_of(v).map_or(false, |g| refimpl::json::val_eq(&g, &want, 0.0)));
                if ok {
                    rep.count("chain_position_ok");
                    rep.nontrivial(refimpl::rng::fnv(format!("chain|{}|{}|{}", what, n, k).as_bytes()));
                } else {
                    rep.violation(
                        "C01/mismatch/long-chain",
                        json!({"expression": text, "document": doc, "operands": n, "deciding_position": k, "kind": what, "expected": want,
                               "got": format!("{:?}", got.map(|r| r.map(|v| v.to_string()).map_err(|e| e.to_string())))}),
                    );
                }
            }
        }
    }
}

pub fn run(args: &Args) {
    let mut rep = Report::new("C01");
    let strict = Opts::strict();
    let ev = Evaluator::new(&Builtins);
    let maxlen: u32 = args.kv.get("enum-len").and_then(|v| v.parse().ok()).unwrap_or(3);
    enumerate_small(&mut rep, args, &ev, maxlen);
    close_number_ordering(&mut rep, args);
    size_sweep(&mut rep, args, &ev, &strict);
    near_equal_values(&mut rep, args, &ev, &strict);
    chain_positions(&mut rep, args);
    let cdocs = crate::refcheck::compliance_docs();
    for i in 0..args.n {
        let mut rng = Rng::derive(args.seed, args.shard, i);
        let base = if !cdocs.is_empty() && rng.chance(1, 5) {
            cdocs[rng.below(cdocs.len())].clone()
        } else {
            gen_doc(&mut rng, 4)
        };
        let tree = {
            let mut g = TreeGen {
                rng: &mut rng,
                cfg: GenCfg { calls: false, depth: 3 },
            };
            g.pipeline(&base, 3, 5)
        };
        let text0 = match Printer::new(&mut rng).emit(&tree) {
            Ok(t) => t,
            Err(_) => {
                rep.count("unprintable_tree_skipped");
                continue;
            }
        };
        // oracle self-check: the printed text must denote the generated tree
        let want = canon(&tree);
        match parse(&text0, &strict) {
            Ok(q) if canon(&q) == want => {}
            other => {
                rep.harness_error(format!("printer/parser self-check failed for {:?}: {:?}", text0, other.map(|q| canon(&q))));
                continue;
            }
        }
        let pct = [0u32, 50, 100][rng.below(3)];
        let text1 = minimize_parens(&text0, &mut rng, pct, &strict);
        let text = respace(&text1, &mut rng);
        match parse(&text, &strict) {
            Ok(q) if canon(&q) == want => {}
            other => {
                rep.harness_error(format!("respace self-check failed for {:?}: {:?}", text, other.map(|q| canon(&q))));
                continue;
            }
        }
        let compiled = guarded(|| jmespath::compile(&text));
        let expr = match compiled {
            Ok(Ok(e)) => e,
            Ok(Err(e)) => {
                rep.evaluations += 1;
                rep.violation(
                    "C01/valid-expression-rejected",
                    json!({"expression": text, "error": err_json(&e), "seed": args.seed, "shard": args.shard, "index": i}),
                );
                continue;
            }
            Err(p) => {
                rep.evaluations += 1;
                rep.violation(&format!("C01/panic-in-compile/{}", panic_site(&p)), json!({"expression": text, "panic": p}));
                continue;
            }
        };
        let mut kinds = BTreeSet::new();
        walk(&tree, &mut |s| {
            kinds.insert(kind_name(s));
        });
        for k in &kinds {
            rep.count(&format!("node/{}", k));
        }
        let nodes = size(&tree);
        let mut docs = vec![base.clone()];
        for _ in 0..3 {
            docs.push(mutate_doc(&mut rng, &base));
        }
        docs.push(gen_doc(&mut rng, 3));
        let thash = fnv(want.as_bytes());
        for d in &docs {
            rep.evaluations += 1;
            let expected = ev.eval(&tree, d);
            let input = rcvar_of(d);
            let got = guarded(|| expr.search(&input));
            let witness = |exp: Value, got: Value| json!({"expression": text, "document": d, "expected": exp, "got": got, "tree": want, "seed": args.seed, "shard": args.shard, "index": i});
            let got = match got {
                Err(p) => {
                    rep.violation(&format!("C01/panic-in-search/{}", panic_site(&p)), witness(Value::Null, json!({"panic": p})));
                    continue;
                }
                Ok(g) => g,
            };
            let got_n: Result<Value, &'static str> = match &got {
                Ok(v) => match value_of(v) {
                    Ok(j) => Ok(j),
                    Err(w) => {
                        rep.violation("C01/non-json-result", witness(Value::Null, json!(w)));
                        continue;
                    }
                },
                Err(e) => Err(err_class(e)),
            };
            let agree = match (&expected, &got_n) {
                (Err(e), _) if matches!(e.kind, ErrKind::Unconstrained(_)) => {
                    rep.count("unconstrained_skipped");
                    continue;
                }
                (Ok(x), Ok(g)) => val_eq(x, g, 1e-12),
                (Err(e), Err(c)) => e.class() == *c,
                _ => false,
            };
            if agree {
                match &expected {
                    Ok(x) => {
                        rep.count("agree_value");
                        if !x.is_null() {
                            rep.count("agree_nonnull");
                            if nodes >= 3 && kinds.len() >= 2 {
                                rep.nontrivial(thash ^ value_hash(d).rotate_left(17));
                            }
                            if rep.samples.len() < rep.sample_cap && nodes >= 4 && i % 7 == 0 {
                                rep.sample(json!({"expression": text, "document": d, "result": x}));
                            }
                        }
                    }
                    Err(_) => rep.count("agree_error"),
                }
            } else {
                let exp = match &expected {
                    Ok(x) => x.clone(),
                    Err(e) => json!({"error": e.class()}),
                };
                let g = match &got {
                    Ok(v) => json!(v.to_string()),
                    Err(e) => err_json(e),
                };
                if d15_explains(&ev, &text, &want, d, &got_n) {
                    rep.violation("C01/projection-rhs-ends-after-dot-multiselect-list", witness(exp, g));
                } else {
                    rep.violation("C01/mismatch", witness(exp, g));
                }
            }
        }
    }
    rep.extra.insert("expref_evals".into(), json!(ev.expref_evals.get()));
    emit_report(args, &rep);
}
