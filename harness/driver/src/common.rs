//! Shared plumbing for all monitors: value conversion at the public boundary,
//! lifting the public Ast into the reference normal form, error classes,
//! panic capture, and the per-shard report.

use jmespath::ast::{Ast, Comparator};
use jmespath::{ErrorReason, JmespathError, Rcvar, RuntimeError, Variable};
use refimpl::nf::{CmpOp, Kind, Pipeline, Step};
use serde_json::{json, Map, Value};
use std::cell::RefCell;
use std::collections::{BTreeMap, HashSet};
use std::panic::{self, AssertUnwindSafe};

// ---------------------------------------------------------------------------
// values

/// Build a Variable from a JSON value without going through any conversion
/// code of the crate under test.
pub fn var_of(v: &Value) -> Variable {
    match v {
        Value::Null => Variable::Null,
        Value::Bool(b) => Variable::Bool(*b),
        Value::Number(n) => Variable::Number(n.clone()),
        Value::String(s) => Variable::String(s.clone()),
        Value::Array(a) => Variable::Array(a.iter().map(|e| Rcvar::new(var_of(e))).collect()),
        Value::Object(m) => Variable::Object(m.iter().map(|(k, e)| (k.clone(), Rcvar::new(var_of(e)))).collect()),
    }
}

pub fn rcvar_of(v: &Value) -> Rcvar {
    Rcvar::new(var_of(v))
}

/// Walk a Variable into a JSON value by hand. Expression references become
/// Err (they are not JSON).
pub fn value_of(v: &Variable) -> Result<Value, &'static str> {
    Ok(match v {
        Variable::Null => Value::Null,
        Variable::Bool(b) => Value::Bool(*b),
        Variable::Number(n) => Value::Number(n.clone()),
        Variable::String(s) => Value::String(s.clone()),
        Variable::Array(a) => {
            let mut out = Vec::with_capacity(a.len());
            for e in a {
                out.push(value_of(e)?);
            }
            Value::Array(out)
        }
        Variable::Object(m) => {
            let mut out = Map::new();
            let mut prev: Option<&String> = None;
            for (k, e) in m {
                if let Some(p) = prev {
                    if p.as_bytes() >= k.as_bytes() {
                        return Err("object members not in ascending key order");
                    }
                }
                prev = Some(k);
                out.insert(k.clone(), value_of(e)?);
            }
            Value::Object(out)
        }
        Variable::Expref(_) => return Err("expref"),
    })
}

// ---------------------------------------------------------------------------
// errors

pub fn err_class(e: &JmespathError) -> &'static str {
    match &e.reason {
        ErrorReason::Parse(_) => "parse",
        ErrorReason::Runtime(r) => match r {
            RuntimeError::UnknownFunction(_) => "unknown-function",
            RuntimeError::TooManyArguments { .. } | RuntimeError::NotEnoughArguments { .. } => "arity",
            RuntimeError::InvalidType { .. } | RuntimeError::InvalidReturnType { .. } => "type",
            RuntimeError::InvalidSlice => "invalid-slice",
        },
    }
}

pub fn err_json(e: &JmespathError) -> Value {
    json!({"class": err_class(e), "offset": e.offset, "line": e.line, "column": e.column,
           "expression": e.expression, "reason": e.reason.to_string()})
}

// ---------------------------------------------------------------------------
// Ast -> normal form

#[derive(Debug)]
pub struct Unliftable(pub String);

pub fn lift(a: &Ast) -> Result<Pipeline, Unliftable> {
    let mut out = vec![];
    lift_into(a, &mut out)?;
    Ok(out)
}

fn cmp_of(c: &Comparator) -> CmpOp {
    match c {
        Comparator::Equal => CmpOp::Eq,
        Comparator::NotEqual => CmpOp::Ne,
        Comparator::LessThan => CmpOp::Lt,
        Comparator::LessThanEqual => CmpOp::Le,
        Comparator::GreaterThan => CmpOp::Gt,
        Comparator::GreaterThanEqual => CmpOp::Ge,
    }
}

fn lift_into(a: &Ast, out: &mut Pipeline) -> Result<(), Unliftable> {
    match a {
        Ast::Identity { .. } => {}
        Ast::Field { name, .. } => out.push(Step::Field(name.clone())),
        Ast::Index { idx, .. } => out.push(Step::Index(*idx as i64)),
        Ast::Literal { value, .. } => match value_of(value) {
            Ok(v) => out.push(Step::Literal(v)),
            Err(w) => return Err(Unliftable(format!("literal: {}", w))),
        },
        Ast::Subexpr { lhs, rhs, .. } => {
            lift_into(lhs, out)?;
            lift_into(rhs, out)?;
        }
        Ast::Or { lhs, rhs, .. } => out.push(Step::Or(lift(lhs)?, lift(rhs)?)),
        Ast::And { lhs, rhs, .. } => out.push(Step::And(lift(lhs)?, lift(rhs)?)),
        Ast::Not { node, .. } => out.push(Step::Not(lift(node)?)),
        Ast::Comparison {
            comparator, lhs, rhs, ..
        } => out.push(Step::Cmp(cmp_of(comparator), lift(lhs)?, lift(rhs)?)),
        Ast::MultiList { elements, .. } => {
            let mut es = vec![];
            for e in elements {
                es.push(lift(e)?);
            }
            out.push(Step::MultiList(es));
        }
        Ast::MultiHash { elements, .. } => {
            let mut kvs = vec![];
            for kv in elements {
                kvs.push((kv.key.clone(), lift(&kv.value)?));
            }
            out.push(Step::MultiHash(kvs));
        }
        Ast::Function { name, args, offset } => {
            let mut es = vec![];
            for e in args {
                es.push(lift(e)?);
            }
            out.push(Step::Call(name.clone(), es, *offset));
        }
        Ast::Expref { ast, .. } => out.push(Step::Expref(lift(ast)?)),
        Ast::Projection { lhs, rhs, .. } => {
            let (kind, base): (Kind, Option<&Ast>) = match &**lhs {
                Ast::Flatten { node, .. } => (Kind::Flatten, Some(node)),
                Ast::ObjectValues { node, .. } => (Kind::ObjWild, Some(node)),
                Ast::Slice { start, stop, step, .. } => (
                    Kind::Slice(start.map(|x| x as i64), stop.map(|x| x as i64), *step as i64),
                    None,
                ),
                other => (Kind::ListWild, Some(other)),
            };
            match (&**rhs, &kind) {
                (Ast::Condition { predicate, then, .. }, Kind::ListWild) => {
                    if let Some(b) = base {
                        lift_into(b, out)?;
                    }
                    out.push(Step::Project(Kind::Filter(lift(predicate)?), lift(then)?, (0, 0)));
                }
                (Ast::Condition { .. }, _) => return Err(Unliftable("Condition under a non-list projection".into())),
                (r, _) => {
                    if let Some(b) = base {
                        lift_into(b, out)?;
                    }
                    out.push(Step::Project(kind, lift(r)?, (0, 0)));
                }
            }
        }
        Ast::Condition { .. } => return Err(Unliftable("Condition outside a projection".into())),
        Ast::Flatten { .. } => return Err(Unliftable("Flatten outside a projection".into())),
        Ast::ObjectValues { .. } => return Err(Unliftable("ObjectValues outside a projection".into())),
        Ast::Slice { .. } => return Err(Unliftable("Slice outside a projection".into())),
    }
    Ok(())
}

// ---------------------------------------------------------------------------
// panics

thread_local! {
    static LAST_PANIC: RefCell<Option<String>> = RefCell::new(None);
}

pub fn install_quiet_panic_hook() {
    panic::set_hook(Box::new(|info| {
        let loc = info
            .location()
            .map(|l| format!("{}:{}", l.file(), l.line()))
            .unwrap_or_default();
        let msg = if let Some(s) = info.payload().downcast_ref::<&str>() {
            s.to_string()
        } else if let Some(s) = info.payload().downcast_ref::<String>() {
            s.clone()
        } else {
            "<non-string payload>".to_string()
        };
        LAST_PANIC.with(|p| *p.borrow_mut() = Some(format!("{} @ {}", msg, loc)));
    }));
}

/// Run `f`, turning a panic into Err(payload @ location).
pub fn guarded<T, F: FnOnce() -> T>(f: F) -> Result<T, String> {
    // the hooks append one observation per runtime error to a thread-local log; monitors that do not
    // read it must not let it grow for the length of a thorough run (it is drained BEFORE the call, so
    // a monitor that reads it after the call still sees this call's observations)
    let _ = jmespath::verif::take_events();
    match panic::catch_unwind(AssertUnwindSafe(f)) {
        Ok(v) => Ok(v),
        Err(_) => Err(LAST_PANIC
            .with(|p| p.borrow_mut().take())
            .unwrap_or_else(|| "panic".to_string())),
    }
}

/// Strip the snapshot path prefix from a panic location so signatures are stable.
pub fn panic_site(p: &str) -> String {
    match p.rfind(" @ ") {
        Some(i) => {
            let loc = &p[i + 3..];
            let short = match loc.find("jmespath/src/") {
                Some(j) => &loc[j..],
                None => loc,
            };
            // drop the line number: stable across unrelated edits
            let file = short.split(':').next().unwrap_or(short);
            file.to_string()
        }
        None => "unknown".to_string(),
    }
}

// ---------------------------------------------------------------------------
// report

pub struct Report {
    pub property: &'static str,
    pub evaluations: u64,
    pub distinct: HashSet<u64>,
    pub samples: Vec<Value>,
    pub sample_cap: usize,
    pub observed: BTreeMap<String, u64>,
    pub violations: Vec<Value>,
    pub violation_cap: usize,
    pub violations_total: u64,
    pub harness_errors: Vec<String>,
    pub inconclusive: Vec<String>,
    pub extra: Map<String, Value>,
}

impl Report {
    pub fn new(property: &'static str) -> Report {
        Report {
            property,
            evaluations: 0,
            distinct: HashSet::new(),
            samples: vec![],
            sample_cap: 12,
            observed: BTreeMap::new(),
            violations: vec![],
            violation_cap: 40,
            violations_total: 0,
            harness_errors: vec![],
            inconclusive: vec![],
            extra: Map::new(),
        }
    }

    pub fn count(&mut self, key: &str) {
        *self.observed.entry(key.to_string()).or_insert(0) += 1;
    }

    pub fn add(&mut self, key: &str, n: u64) {
        *self.observed.entry(key.to_string()).or_insert(0) += n;
    }

    pub fn max(&mut self, key: &str, n: u64) {
        let e = self.observed.entry(key.to_string()).or_insert(0);
        if n > *e {
            *e = n;
        }
    }

    pub fn nontrivial(&mut self, h: u64) {
        self.distinct.insert(h);
    }

    pub fn sample(&mut self, v: Value) {
        if self.samples.len() < self.sample_cap {
            self.samples.push(v);
        }
    }

    /// A sample tagged with a family; keeps at most `per` per family.
    pub fn sample_family(&mut self, family: &str, per: usize, v: Value) {
        let key = format!("samples_of/{}", family);
        let n = *self.observed.get(&key).unwrap_or(&0);
        if (n as usize) < per {
            self.observed.insert(key, n + 1);
            let mut m = Map::new();
            m.insert("family".into(), Value::String(family.to_string()));
            m.insert("case".into(), v);
            self.samples.push(Value::Object(m));
        }
    }

    pub fn violation(&mut self, signature: &str, witness: Value) {
        self.violations_total += 1;
        // keep at most 3 witnesses per signature, capped overall
        let same = self
            .violations
            .iter()
            .filter(|v| v["signature"].as_str() == Some(signature))
            .count();
        let per_sig = std::env::var("VERIF_WITNESS_CAP").ok().and_then(|v| v.parse().ok()).unwrap_or(3usize);
        if same < per_sig && self.violations.len() < self.violation_cap.max(per_sig * 4) {
            self.violations.push(json!({"signature": signature, "witness": witness}));
        }
        self.count(&format!("violation/{}", signature));
    }

    pub fn harness_error(&mut self, msg: String) {
        if self.harness_errors.len() < 20 {
            self.harness_errors.push(msg);
        }
    }

    pub fn to_json(&self) -> Value {
        let mut distinct: Vec<u64> = self.distinct.iter().cloned().collect();
        distinct.sort();
        // hashes are merged across shards by the orchestrator; cap the list size
        let truncated = distinct.len() > 400_000;
        if truncated {
            distinct.truncate(400_000);
        }
        json!({
            "property": self.property,
            "evaluations": self.evaluations,
            "distinct_hashes": distinct,
            "distinct_truncated": truncated,
            "samples": self.samples,
            "observed": self.observed,
            "violations": self.violations,
            "violations_total": self.violations_total,
            "harness_errors": self.harness_errors,
            "inconclusive": self.inconclusive,
            "extra": self.extra,
        })
    }
}

// ---------------------------------------------------------------------------
// args

pub struct Args {
    pub seed: u64,
    pub n: u64,
    pub shard: u64,
    pub shards: u64,
    pub tier: String,
    pub out: Option<String>,
    pub rest: Vec<String>,
    pub kv: BTreeMap<String, String>,
}

pub fn parse_args(argv: &[String]) -> Args {
    let mut a = Args {
        seed: 1,
        n: 1000,
        shard: 0,
        shards: 1,
        tier: "quick".into(),
        out: None,
        rest: vec![],
        kv: BTreeMap::new(),
    };
    let mut i = 0;
    while i < argv.len() {
        let k = argv[i].as_str();
        let take = |i: &mut usize| -> String {
            *i += 1;
            argv.get(*i).cloned().unwrap_or_default()
        };
        match k {
            "--seed" => a.seed = take(&mut i).parse().unwrap_or(1),
            "--n" => a.n = take(&mut i).parse().unwrap_or(1000),
            "--shard" => {
                let v = take(&mut i);
                let mut it = v.split('/');
                a.shard = it.next().unwrap_or("0").parse().unwrap_or(0);
                a.shards = it.next().unwrap_or("1").parse().unwrap_or(1);
            }
            "--tier" => a.tier = take(&mut i),
            "--out" => a.out = Some(take(&mut i)),
            s if s.starts_with("--") => {
                let v = take(&mut i);
                a.kv.insert(s[2..].to_string(), v);
            }
            s => a.rest.push(s.to_string()),
        }
        i += 1;
    }
    a
}

pub fn emit_report(args: &Args, r: &Report) {
    let text = serde_json::to_string(&r.to_json()).unwrap();
    match &args.out {
        Some(p) => std::fs::write(p, text).expect("write report"),
        None => println!("{}", text),
    }
}

/// Load the repository's compliance suites from the snapshot.
pub fn load_compliance(dir: &str) -> Vec<(String, Value, Vec<Value>)> {
    let mut out = vec![];
    let mut names: Vec<_> = std::fs::read_dir(dir)
        .map(|rd| rd.filter_map(|e| e.ok()).map(|e| e.path()).collect())
        .unwrap_or_else(|_| vec![]);
    names.sort();
    for p in names {
        if p.extension().map_or(true, |e| e != "json") {
            continue;
        }
        let text = std::fs::read_to_string(&p).unwrap_or_default();
        let v: Value = match serde_json::from_str(&text) {
            Ok(v) => v,
            Err(_) => continue,
        };
        if let Value::Array(suites) = v {
            for s in suites {
                let given = s["given"].clone();
                let cases = s["cases"].as_array().cloned().unwrap_or_default();
                out.push((p.file_name().unwrap().to_string_lossy().to_string(), given, cases));
            }
        }
    }
    out
}

// ---------------------------------------------------------------------------
// attribution to the recorded deviation D15 (projection right-hand side ends
// after ".[multi-select list]")

/// True iff the variant grammar parses `text` to a different tree than `want`
/// AND that tree, evaluated by the reference, reproduces what the crate returned.
pub fn d15_explains(
    ev: &refimpl::eval::Evaluator,
    text: &str,
    want_canon: &str,
    doc: &Value,
    got: &Result<Value, &'static str>,
) -> bool {
    use refimpl::parse::{parse, Opts};
    let alt = Opts {
        dot_list_stops: true,
        ..Opts::strict()
    };
    match parse(text, &alt) {
        Ok(q) if refimpl::nf::canon(&q) != want_canon => match (ev.eval(&q, doc), got) {
            (Ok(y), Ok(g)) => refimpl::json::val_eq(&y, g, 1e-12),
            (Err(e), Err(cls)) => e.class() == *cls,
            _ => false,
        },
        _ => false,
    }
}
