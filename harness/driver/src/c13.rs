//! C13 — compile and search are pure: deterministic, history-independent,
//! non-mutating. Random histories of compile / clone / search / drop over a
//! small pool (few keys, many revisits) are logged and checked against the
//! single-shot ground truth of every (expression, document) pair.

use crate::common::*;
use jmespath::{Context, Expression, Rcvar, Runtime};
use refimpl::gen::{gen_doc, GenCfg, TreeGen};
use refimpl::print::Printer;
use refimpl::rng::{fnv, Rng};
use serde_json::{json, Value};

const FAILING: [&str; 14] = [
    "xs[*].abs(@)",
    "map(&abs(@), xs)",
    "sort_by(xs, &@)",
    "max_by(recs, &k)",
    "recs[*].length(k)",
    "nofn(@)",
    "xs[::0]",
    "recs[?abs(k) > `1`]",
    "[a, length(`1`)]",
    "{x: a, y: nofn(b)}",
    "sort_by(recs, &to_array(k))",
    "a || length()",
    "min_by(recs, &not_null(k, nofn(@)))",
    "xs | [0] | abs(@) | nofn(@)",
];

const PLAIN: [&str; 30] = [
    "{a: a, b: xs, a: length(@), c: recs[0]}",
    "recs[*].{id: id, k: k, id: to_string(id), z: k}",
    "{n: a, n: abs(a), m: ceil(a)}",
    "{x: xs[0], y: xs[1], x: xs[2], y: xs[0], w: a}",
    "sum(`[1, 2]`)",
    "sum(`[5, 5]`)",
    "abs(`-1`)",
    "abs(`-7`)",
    "abs(`\"x\"`)",
    "max(`[1, 9]`)",
    "min(`[1, 9]`)",
    "sort_by(recs, &k)[-1]",
    "sort_by(recs, &k)[0]",
    "sort(xs)[0]",
    "sort(xs)[-1]",
    "max_by(recs, &k)",
    "@.a",
    "!!!a",
    "@",
    "a",
    "a.b",
    "xs[*]",
    "recs[*].k",
    "recs[?k == `1`].id",
    "sort_by(recs, &id)[*].id",
    "length(xs)",
    "xs[::-1]",
    "{a: a, n: length(@)}",
    "recs[].k | [0]",
    "keys(@)",
];

pub fn pool(seed: u64) -> (Vec<String>, Vec<Value>) {
    let mut rng = Rng::new(seed ^ 0xC13);
    let mut docs = vec![
        json!({"a": {"b": 1}, "xs": [3, 1, 2], "recs": [{"id": 0, "k": 1}, {"id": 1, "k": 2}, {"id": 2, "k": 1}]}),
        json!({"a": 1, "xs": [1, "x", 2], "recs": [{"id": 0, "k": 1}, {"id": 1, "k": "a"}]}),
        json!({"a": 0, "xs": [2, 2.0, 1, 1.0], "recs": [{"id": "ann", "k": 3}, {"id": "bob", "k": 7}, {"id": "cid", "k": 7}, {"id": "dan", "k": 3}]}),
        json!({"xs": [], "recs": []}),
        json!(null),
        json!([1, 2, 3]),
        json!({"a": null, "xs": [-1, -2.5], "recs": [{"id": 0, "k": -3}, {"id": 1, "k": [1]}]}),
    ];
    while docs.len() < 25 {
        docs.push(gen_doc(&mut rng, 4));
    }
    let mut exprs: Vec<String> = FAILING.iter().chain(PLAIN.iter()).map(|s| s.to_string()).collect();
    while exprs.len() < 58 {
        let d = docs[rng.below(docs.len())].clone();
        let tree = TreeGen { rng: &mut rng, cfg: GenCfg { calls: true, depth: 2 } }.pipeline(&d, 2, 4);
        if let Ok(t) = Printer::new(&mut rng).emit(&tree) {
            if !exprs.contains(&t) {
                exprs.push(t);
            }
        }
    }
    // whitespace twins: the same token sequence spelled with different blanks (different
    // offsets, same meaning) next to the original, so that histories revisit texts that a
    // normalising cache key would merge
    let twins: Vec<String> = exprs.iter().step_by(4).map(|e| refimpl::print::respace(e, &mut rng)).collect();
    for t in twins {
        if !exprs.contains(&t) {
            exprs.push(t);
        }
    }
    (exprs, docs)
}

fn fingerprint(r: &Result<Rcvar, jmespath::JmespathError>) -> String {
    match r {
        Ok(v) => format!("ok:{}", v),
        Err(e) => format!("err:{}:{}:{}:{}:{}", err_class(e), e.offset, e.line, e.column, e.reason),
    }
}

fn make_runtime() -> Runtime {
    let mut rt = Runtime::new();
    rt.register_builtin_functions();
    rt.register_function("twice", Box::new(|a: &[Rcvar], _: &mut Context<'_>| Ok(Rcvar::new(jmespath::Variable::Array(vec![a[0].clone(), a[0].clone()])))));
    rt
}

/// Single-shot outcome of every pair: a fresh compile, one search, nothing reused.
pub fn truth_table(exprs: &[String], docs: &[Value], custom: Option<&Runtime>) -> Vec<Vec<String>> {
    exprs
        .iter()
        .map(|e| {
            docs.iter()
                .map(|d| {
                    let input = rcvar_of(d);
                    let r = guarded(|| match custom {
                        Some(rt) => rt.compile(e).and_then(|x| x.search(&input)),
                        None => jmespath::compile(e).and_then(|x| x.search(&input)),
                    });
                    match r {
                        Ok(r) => fingerprint(&r),
                        Err(p) => format!("panic:{}", p),
                    }
                })
                .collect()
        })
        .collect()
}

/// Prints the truth table of a pool (used by the orchestrator from a separate,
/// fresh process, optionally for a single pair).
pub fn run_truth(args: &Args) {
    let pool_seed: u64 = args.kv.get("pool").and_then(|v| v.parse().ok()).unwrap_or(1);
    let (exprs, docs) = pool(pool_seed);
    if let (Some(e), Some(d)) = (args.kv.get("e"), args.kv.get("d")) {
        let (e, d): (usize, usize) = (e.parse().unwrap(), d.parse().unwrap());
        let t = truth_table(&exprs[e..e + 1], &docs[d..d + 1], None);
        println!("{}", json!({"e": e, "d": d, "outcome": t[0][0]}));
        return;
    }
    let t = truth_table(&exprs, &docs, None);
    let h: Vec<Vec<u64>> = t.iter().map(|row| row.iter().map(|s| fnv(s.as_bytes())).collect()).collect();
    println!("{}", json!({"pool": pool_seed, "table": h}));
}

struct Handle<'a> {
    expr: Expression<'a>,
    e: usize,
    origin: &'static str,
    uses: u32,
}

/// State that resurfaces only after a specific number of intervening calls:
/// for sibling expressions (same shape, different literals / documents) search
/// E1, then `gap` unrelated cheap searches, then E2, for every gap in a range.
fn gap_sweep(rep: &mut Report, args: &Args) {
    let siblings: [(&str, &str); 14] = [
        // same length, same shape, same offsets, different member inside the expression reference
        ("sort_by(recs, &k)[*].id", "sort_by(recs, &j)[*].id"),
        ("max_by(recs, &k).id", "max_by(recs, &j).id"),
        ("min_by(recs, &k).id", "min_by(recs, &j).id"),
        ("map(&k, recs)", "map(&j, recs)"),
        ("sort_by(recs, &j)[0].k", "sort_by(recs, &k)[0].j"),
        ("recs[?k > `3`].id", "recs[?j > `3`].id"),
        ("sum(`[1, 2]`)", "sum(`[5, 5]`)"),
        ("abs(`-1`)", "abs(`-7`)"),
        ("abs(`-1`)", "abs(`\"x\"`)"),
        ("max(`[1, 9]`)", "max(`[2, 3]`)"),
        ("length('ab')", "length('abcd')"),
        ("a.b", "a.c"),
        ("xs[?@ > `1`]", "xs[?@ > `2`]"),
        ("sort_by(recs, &k)[-1].id", "sort_by(recs, &k)[0].id"),
    ];
    let doc = json!({"a": {"b": 1, "c": 2}, "xs": [1, 2, 3], "recs": [{"id": "ann", "k": 3, "j": 9}, {"id": "bob", "k": 7, "j": 1}, {"id": "cid", "k": 7, "j": 5}]});
    let input = rcvar_of(&doc);
    let filler = jmespath::compile("@").unwrap();
    let max_gap: u64 = args.kv.get("max-gap").and_then(|v| v.parse().ok()).unwrap_or(600);
    let mut gap = args.shard;
    while gap <= max_gap {
        for (e1, e2) in siblings.iter() {
            // single-shot truth of E2 first (fresh compile, nothing before it in this pair's window)
            // every text lives in its own heap allocation that is freed right after use, as a caller's
            // would be: state keyed by where a text happened to be stored meets a new text at the same place
            let want = {
                let t = e2.to_string();
                fingerprint(&jmespath::compile(&t).and_then(|x| x.search(&input)))
            };
            {
                let t = e1.to_string();
                let _ = jmespath::compile(&t).and_then(|x| x.search(&input));
            }
            for _ in 0..gap {
                let _ = filler.search(&input);
            }
            rep.evaluations += 1;
            let got = {
                let t = e2.to_string();
                fingerprint(&jmespath::compile(&t).and_then(|x| x.search(&input)))
            };
            if got == want {
                rep.count("gap_sweep_ok");
            } else {
                rep.violation(
                    "C13/result-depends-on-history/after-a-gap",
                    json!({"first": e1, "gap_of_unrelated_searches": gap, "then": e2, "single_shot": want, "observed": got}),
                );
            }
        }
        gap += args.shards;
    }
    rep.extra.insert("gap_sweep_max_gap".into(), json!(max_gap));
}

/// One member of a numbered family: expression, document, and the result that is
/// known by construction (so the oracle does not depend on any earlier call).
fn family_member(fam: usize, i: usize) -> Option<(String, Value, Value)> {
    let pad = "abcdefghijklmnopqrstuvwxyzABCDEFGHIJKLMN"; // 40 bytes
    let types = [json!(null), json!(true), json!(1.5), json!("s"), json!([1]), json!({"a": 1}), json!(7)];
    let names = ["null", "boolean", "number", "string", "array", "object", "number"];
    Some(match fam {
        0 => (format!("to_number('{}')", i), json!({"z": 0}), json!(i)),
        1 => ("to_number(s)".to_string(), json!({"s": i.to_string()}), json!(i)),
        2 => (format!("to_number('{}.5')", i), json!({"z": 0}), json!(i as f64 + 0.5)),
        3 => (format!("`{}`", i), json!({"z": 0}), json!(i)),
        4 => (format!("`\"{}{:06}\"`", pad, i), json!({"z": 0}), json!(format!("{}{:06}", pad, i))),
        5 => (format!("'{}{}'", pad, i), json!({"z": 0}), json!(format!("{}{}", pad, i))),
        6 => (format!("f{}", i), json!({format!("f{}", i): i, format!("f{}", i + 1): -1}), json!(i)),
        7 => (format!("\"k {}\"", i), json!({format!("k {}", i): i, format!("k {}", i + 1): -1}), json!(i)),
        8 => (format!("abs(`-{}`)", i), json!({"z": 0}), json!(i)),
        9 => (format!("length('{}')", "x".repeat(i)), json!({"z": 0}), json!(i)),
        10 => (format!("[`{}`, '{}']", i, i), json!({"z": 0}), json!([i, i.to_string()])),
        11 => (format!("contains(`[{}]`, `{}`)", i, i), json!({"z": 0}), json!(true)),
        12 => (format!("join('-', [`\"a\"`, '{}'])", i), json!({"z": 0}), json!(format!("a-{}", i))),
        13 => (format!("xs[{}]", i % 50), json!({"xs": (0..50).collect::<Vec<i32>>()}), json!(i % 50)),
        14 => (format!("xs[{}:{}]", i % 49, i % 49 + 2), json!({"xs": (0..51).collect::<Vec<i32>>()}), json!([i % 49, i % 49 + 1])),
        15 => (format!("to_string(`{}`)", i), json!({"z": 0}), json!(i.to_string())),
        16 => (format!("starts_with('{}abc', '{}')", i, i), json!({"z": 0}), json!(true)),
        17 => ("type(@)".to_string(), types[i % 7].clone(), json!(names[i % 7])),
        18 => (format!("type(`{}`)", types[i % 7]), json!({"z": 0}), json!(names[i % 7])),
        19 => ("to_number(@)".to_string(), json!(format!("{}e1", i)), json!(i as f64 * 10.0)),
        20 => ("sort_by(@, &k)[0].id".to_string(), json!([{"id": i, "k": 1}, {"id": i + 1, "k": 1}, {"id": i + 2, "k": 0}]), json!(i + 2)),
        21 => ("max_by(@, &to_number(k)).id".to_string(), json!([{"id": 1, "k": i.to_string()}, {"id": 2, "k": (i + 1).to_string()}]), json!(2)),
        22 => (format!("{{a: `{}`, b: '{}'}}.b", i, i), json!({"z": 0}), json!(i.to_string())),
        23 => (format!("[?k == `{}`].id | [0]", i), json!([{"k": i + 1, "id": "no"}, {"k": i, "id": "yes"}]), json!("yes")),
        // integers that are distinct but share one double (compared as text below)
        24 => ("id".to_string(), json!({"id": 9007199254740992u64 + i as u64}), json!(9007199254740992u64 + i as u64)),
        25 => ("[0].v".to_string(), json!([{"v": -9007199254740992i64 - i as i64}, 1]), json!(-9007199254740992i64 - i as i64)),
        26 => ("n".to_string(), json!({"n": 18446744073709551615u64 - i as u64, "m": [9223372036854775807u64 + i as u64]}), json!(18446744073709551615u64 - i as u64)),
        27 => ("to_string(@)".to_string(), json!([9007199254740993u64 + 2 * (i as u64 % 50)]), json!(format!("[{}]", 9007199254740993u64 + 2 * (i as u64 % 50)))),
        _ => return None,
    })
}

fn check_member(rep: &mut Report, fam: usize, i: usize, phase: &str, rt: Option<&Runtime>) {
    let (text, doc, want) = match family_member(fam, i) {
        Some(m) => m,
        None => return,
    };
    rep.evaluations += 1;
    let input = rcvar_of(&doc);
    let r = guarded(|| match rt {
        Some(rt) => rt.compile(&text).and_then(|x| x.search(&input)),
        None => jmespath::compile(&text).and_then(|x| x.search(&input)),
    });
    let ok = match &r {
        Ok(Ok(v)) => {
            value_of(v).map_or(false, |g| refimpl::json::val_eq(&g, &want, 0.0))
                // integers also digit for digit (two integers beyond 2^53 can be "equal" as doubles)
                && (!(want.as_u64().map_or(false, |u| u >= 1 << 53) || want.as_i64().map_or(false, |i| i <= -(1 << 53))) || v.to_string() == want.to_string())
        }
        _ => false,
    };
    if ok {
        rep.count("family_member_ok");
        if i > 0 {
            rep.nontrivial(fnv(format!("fam|{}|{}", fam, i).as_bytes()));
        }
    } else {
        let got = match r {
            Ok(Ok(v)) => v.to_string(),
            Ok(Err(e)) => format!("error: {}", e),
            Err(p) => format!("panic: {}", p),
        };
        rep.violation(
            "C13/result-depends-on-history/numbered-family",
            json!({"expression": text, "document": doc, "known_by_construction": want, "observed": got, "family": fam, "member": i, "phase": phase}),
        );
    }
}

/// State with a capacity or a lossy key (memo tables, interning, caches keyed by a
/// hash or a sampled fingerprint) shows only after many *distinct* inputs of one
/// shape, or for two inputs that collide. Each family below has members whose
/// result is known by construction; every member is evaluated in ascending order,
/// then descending, then in a shuffled order with revisits, then round-robin
/// across families.
fn family_sweep(rep: &mut Report, args: &Args) {
    let n: usize = args.kv.get("family-n").and_then(|v| v.parse().ok()).unwrap_or(if args.tier == "thorough" { 5000 } else { 300 });
    let rt = make_runtime();
    let fams: Vec<usize> = (0..28).filter(|f| (*f as u64) % args.shards == args.shard).collect();
    for &fam in &fams {
        for i in 0..n {
            check_member(rep, fam, i, "ascending", None);
        }
        for i in (0..n).rev() {
            check_member(rep, fam, i, "descending", None);
        }
        let mut rng = Rng::derive(args.seed, 777, fam as u64);
        for _ in 0..n {
            let i = rng.below(n);
            check_member(rep, fam, i, "shuffled", if rng.chance(1, 4) { Some(&rt) } else { None });
        }
    }
    // round-robin across all families (every shard takes a different slice of members)
    let lo = (args.shard as usize * n) / args.shards as usize;
    let hi = ((args.shard as usize + 1) * n) / args.shards as usize;
    for i in lo..hi {
        for fam in 0..28 {
            check_member(rep, fam, i, "round-robin", None);
        }
    }
    rep.extra.insert("family_sweep".into(), json!({"families": 28, "members_per_family": n}));
}

/// Two inputs of the same length that differ in a single byte, at every position,
/// for several lengths: evaluate the base, then the variant, then the base again.
fn one_byte_variants(rep: &mut Report, args: &Args) {
    let lens = [6usize, 15, 16, 17, 31, 32, 33, 40, 48, 63, 64, 65, 100, 130];
    let mut case = 0u64;
    for &len in &lens {
        for p in 0..len {
            for form in 0..5 {
                case += 1;
                if case % args.shards != args.shard {
                    continue;
                }
                let base: String = (0..len).map(|k| (b'a' + (k % 23) as u8) as char).collect();
                let mut vb = base.clone().into_bytes();
                vb[p] = b'Z';
                let variant = String::from_utf8(vb).unwrap();
                let mk = |s: &str| -> (String, Value, Value) {
                    match form {
                        0 => (format!("`\"{}\"`", s), json!(null), json!(s)),
                        1 => (format!("'{}'", s), json!(null), json!(s)),
                        2 => (format!("\"{}\"", s), json!({base.clone(): "base", variant.clone(): "variant"}), json!(if s == base { "base" } else { "variant" })),
                        3 => (format!("{}", s), json!({base.clone(): "base", variant.clone(): "variant"}), json!(if s == base { "base" } else { "variant" })),
                        _ => {
                            // numeric strings through to_number: one digit differs
                            let digits: String = s.bytes().map(|b| if b == b'Z' { '7' } else { (b'1' + (b % 3)) as char }).collect();
                            let short = &digits[..digits.len().min(15)];
                            (format!("to_number('{}')", short), json!(null), json!(short.parse::<u64>().unwrap()))
                        }
                    }
                };
                for (which, s) in [("base", &base), ("variant", &variant), ("base-again", &base)] {
                    let (text, doc, want) = mk(s);
                    rep.evaluations += 1;
                    let input = rcvar_of(&doc);
                    let r = guarded(|| jmespath::compile(&text).and_then(|x| x.search(&input)));
                    let ok = match &r {
                        Ok(Ok(v)) => value_of(v).map_or(false, |g| refimpl::json::val_eq(&g, &want, 0.0)),
                        _ => false,
                    };
                    if ok {
                        rep.count("one_byte_variant_ok");
                        rep.nontrivial(fnv(format!("obv|{}|{}|{}|{}", len, p, form, which).as_bytes()));
                    } else {
                        let got = match r {
                            Ok(Ok(v)) => v.to_string(),
                            Ok(Err(e)) => format!("error: {}", e),
                            Err(pn) => format!("panic: {}", pn),
                        };
                        rep.violation(
                            "C13/result-depends-on-history/one-byte-variant",
                            json!({"expression": text, "document": doc, "known_by_construction": want, "observed": got, "length": len, "position": p, "step": which}),
                        );
                    }
                }
            }
        }
    }
}

/// Pairs of texts that differ only in blanks — where blanks matter (inside raw strings,
/// quoted identifiers and literals; between two identifiers; in front of the expression,
/// which moves every offset). Each pair is evaluated in both orders; the expected outcomes
/// are known by construction.
fn whitespace_pairs(rep: &mut Report, args: &Args) {
    if args.shard != 0 {
        return;
    }
    #[derive(Clone)]
    enum Want {
        Val(Value),
        CompileError,
        ErrorAt(usize),
    }
    let doc = json!({"foo bar": 1, "foobar": 2, "foo  bar": 3, "name": "ab", "s": "x", "foo": -4});
    let mut cases: Vec<(String, Want)> = vec![];
    for k in 0..4usize {
        let sp = " ".repeat(k);
        cases.push((format!("'a{}b'", sp), Want::Val(json!(format!("a{}b", sp)))));
        cases.push((format!("name == 'a{}b'", sp), Want::Val(json!(k == 0))));
        cases.push((format!("`\"a{}b\"`", sp), Want::Val(json!(format!("a{}b", sp)))));
        cases.push((format!("\"foo{}bar\"", sp), Want::Val([json!(2), json!(1), json!(3), json!(null)][k].clone())));
        cases.push((format!("foo{}bar", sp), if k == 0 { Want::Val(json!(2)) } else { Want::CompileError }));
        cases.push((format!("{}abs(s)", sp), Want::ErrorAt(k + 3)));
        cases.push((format!("{}abs(foo)", sp), Want::Val(json!(4))));
        cases.push((format!("abs({}s)", sp), Want::ErrorAt(3)));
        cases.push((format!("[`1`,{}'x']", sp), Want::Val(json!([1, "x"]))));
    }
    let input = rcvar_of(&doc);
    let mut check = |rep: &mut Report, text: &str, want: &Want, after: &str| {
        rep.evaluations += 1;
        let r = guarded(|| jmespath::compile(text).map_err(|e| (true, e)).and_then(|x| x.search(&input).map_err(|e| (false, e))));
        let ok = match (&r, want) {
            (Ok(Ok(v)), Want::Val(w)) => value_of(v).map_or(false, |g| refimpl::json::val_eq(&g, w, 0.0)),
            (Ok(Err((true, _))), Want::CompileError) => true,
            (Ok(Err((false, e))), Want::ErrorAt(o)) => e.offset == *o,
            _ => false,
        };
        if ok {
            rep.count("whitespace_pair_ok");
            rep.nontrivial(fnv(format!("ws|{}|{}", text, after).as_bytes()));
        } else {
            let got = match r {
                Ok(Ok(v)) => v.to_string(),
                Ok(Err((c, e))) => format!("{} error at offset {}: {}", if c { "compile" } else { "search" }, e.offset, e.reason),
                Err(p) => format!("panic: {}", p),
            };
            let w = match want {
                Want::Val(v) => v.to_string(),
                Want::CompileError => "compile error".to_string(),
                Want::ErrorAt(o) => format!("search error at offset {}", o),
            };
            rep.violation(
                "C13/result-depends-on-history/whitespace-variant",
                json!({"expression": text, "evaluated_after": after, "document": doc, "known_by_construction": w, "observed": got}),
            );
        }
    };
    for i in 0..cases.len() {
        for j in 0..cases.len() {
            if i == j {
                continue;
            }
            // only texts that are equal once blanks are removed are interesting as pairs
            let strip = |t: &str| t.chars().filter(|c| !c.is_whitespace()).collect::<String>();
            if strip(&cases[i].0) != strip(&cases[j].0) {
                continue;
            }
            check(rep, &cases[i].0, &cases[i].1, "(start of pair)");
            check(rep, &cases[j].0, &cases[j].1, &cases[i].0);
            check(rep, &cases[i].0, &cases[i].1, &cases[j].0);
        }
    }
}

/// A runtime on which nothing was registered resolves no function, whatever other runtimes
/// (the default one included) did before, on this thread or another.
fn bare_runtime_probe(rep: &mut Report, when: &str) {
    let bare = Runtime::new();
    let doc = rcvar_of(&json!([1, 2, 3]));
    for text in ["length(@)", "[0] | abs(@)", "@[*].to_string(@)", "sort_by(@, &@)", "type(`1`)"] {
        rep.evaluations += 1;
        match guarded(|| bare.compile(text).and_then(|e| e.search(&doc))) {
            Ok(Err(e)) if err_class(&e) == "unknown-function" => rep.count("bare_runtime_resolves_nothing"),
            other => rep.violation(
                "C13/result-depends-on-history/bare-runtime-resolves-a-function",
                json!({"expression": text, "when": when, "got": format!("{:?}", other.map(|r| r.map(|v| v.to_string()).map_err(|e| e.to_string())))}),
            ),
        }
    }
}

/// Where on the machine stack a call happens, and what other threads are doing at that moment,
/// are part of the "history" a pure function must not see. (a) One thread with a large stack
/// compiles and searches from a shallow frame, then from frames megabytes further down (and back
/// up): same outcomes. (b) Many threads search individually modest but nested expressions at the
/// same instant: same outcomes as each search alone. Expected values are known by construction.
fn stack_and_neighbours_probe(rep: &mut Report) {
    fn descend(levels: usize, f: &mut dyn FnMut()) {
        // each frame keeps 64 KiB alive
        let pad = [levels as u8; 65536];
        if levels == 0 {
            f();
        } else {
            descend(levels - 1, f);
        }
        std::hint::black_box(&pad);
    }
    let outcomes = std::thread::Builder::new()
        .stack_size(64 << 20)
        .spawn(|| {
            let doc = rcvar_of(&json!({"foo": {"bar": 7}, "xs": [3, 1, 2]}));
            let probe = |tag: &str, out: &mut Vec<(String, String)>| {
                for text in ["foo.bar", "sort(xs)[0]", "[[[[foo.bar]]]]", "xs[?@ > `1`] | length(@)", "abs(foo)"] {
                    let r = fingerprint(&jmespath::compile(text).and_then(|e| e.search(&doc)));
                    out.push((format!("{}:{}", tag, text), r));
                }
            };
            let mut out = vec![];
            probe("shallow", &mut out);
            for mib in [1usize, 2, 4, 8, 24] {
                let mut at_depth = vec![];
                descend(mib * 16, &mut || probe(&format!("{}MiB-down", mib), &mut at_depth));
                out.extend(at_depth);
                probe("shallow-again", &mut out);
            }
            out
        })
        .expect("spawn")
        .join();
    match outcomes {
        Ok(list) => {
            let want: std::collections::HashMap<&str, &str> =
                [("foo.bar", "ok:7"), ("sort(xs)[0]", "ok:1"), ("[[[[foo.bar]]]]", "ok:[[[[7]]]]"), ("xs[?@ > `1`] | length(@)", "ok:2")].iter().cloned().collect();
            for (tag, got) in list {
                rep.evaluations += 1;
                let text = tag.splitn(2, ':').nth(1).unwrap_or("");
                let ok = match want.get(text) {
                    Some(w) => got == *w,
                    None => got.starts_with("err:type:3:"),
                };
                if ok {
                    rep.count("stack_position_independent");
                } else {
                    rep.violation("C13/result-depends-on-history/position-on-the-stack", json!({"where_and_what": tag, "observed": got}));
                }
            }
        }
        Err(_) => rep.violation("C13/panic/stack-probe-thread", json!({})),
    }
    // (b0) searches HELD in flight: 48 threads are each parked inside a custom function 30 levels down
    // their expression while this thread searches; what it gets must not depend on their being there
    {
        use std::sync::atomic::{AtomicBool, AtomicUsize, Ordering};
        let arrived = std::sync::Arc::new(AtomicUsize::new(0));
        let release = std::sync::Arc::new(AtomicBool::new(false));
        let mut rt = Runtime::new();
        rt.register_builtin_functions();
        {
            let (arrived, release) = (arrived.clone(), release.clone());
            rt.register_function(
                "hold",
                Box::new(move |_: &[Rcvar], _: &mut Context<'_>| {
                    arrived.fetch_add(1, Ordering::SeqCst);
                    let t0 = std::time::Instant::now();
                    while !release.load(Ordering::SeqCst) && t0.elapsed().as_secs() < 20 {
                        std::thread::yield_now();
                    }
                    Ok(Rcvar::new(jmespath::Variable::Bool(true)))
                }),
            );
        }
        let rt: &'static Runtime = Box::leak(Box::new(rt));
        let parked = 48;
        let nest = 30;
        let text: &'static str = Box::leak(format!("{}hold(){}", "[".repeat(nest), "]".repeat(nest)).into_boxed_str());
        let hs: Vec<_> = (0..parked)
            .map(|_| {
                std::thread::spawn(move || {
                    let doc = rcvar_of(&json!({"z": 0}));
                    rt.compile(text).and_then(|e| e.search(&doc)).map(|v| v.to_string().len()).map_err(|e| e.to_string())
                })
            })
            .collect();
        let t0 = std::time::Instant::now();
        while arrived.load(Ordering::SeqCst) < parked && t0.elapsed().as_secs() < 15 {
            std::thread::yield_now();
        }
        let all_parked = arrived.load(Ordering::SeqCst) == parked;
        let doc = rcvar_of(&json!({"foo": {"bar": 7}, "people": [{"name": "amy", "age": 40}, {"name": "bob", "age": 20}, {"name": "cid", "age": 31}]}));
        let mut observed = vec![];
        for q in ["foo.bar", "people[?age > `30`].name | sort(@) | join(', ', @)", "[[[[foo.bar]]]]"] {
            observed.push((q, fingerprint(&jmespath::compile(q).and_then(|e| e.search(&doc))), fingerprint(&rt.compile(q).and_then(|e| e.search(&doc)))));
        }
        release.store(true, Ordering::SeqCst);
        let held_ok = hs.into_iter().map(|h| h.join()).filter(|r| matches!(r, Ok(Ok(_)))).count();
        let wants = ["ok:7", "ok:\"amy, cid\"", "ok:[[[[7]]]]"];
        for ((q, a, b), w) in observed.into_iter().zip(wants) {
            rep.evaluations += 2;
            if a == w && b == w {
                rep.count("search_next_to_parked_searches_ok");
            } else {
                rep.violation(
                    "C13/result-depends-on-history/what-other-threads-are-doing",
                    json!({"expression": q, "searches_parked_in_flight": parked, "their_nesting": nest, "expected": w, "default_runtime": a, "custom_runtime": b}),
                );
            }
        }
        if !all_parked {
            rep.count("parked_probe_incomplete(not all threads arrived in 15 s)");
        } else if held_ok != parked {
            rep.violation("C13/result-depends-on-history/what-other-threads-are-doing", json!({"parked_searches": parked, "completed_normally": held_ok, "their_nesting": nest}));
        }
    }
    // (b) simultaneous nested searches
    // (the innermost expression does real work, so that every thread is at full depth for a while)
    let threads = 32;
    let depth = 110;
    let text = format!("{}sort_by(big, &k)[0].k{}", "[".repeat(depth), "]".repeat(depth));
    let want = format!("ok:{}0{}", "[".repeat(depth), "]".repeat(depth));
    let barrier = std::sync::Arc::new(std::sync::Barrier::new(threads));
    let hs: Vec<_> = (0..threads)
        .map(|t| {
            let (text, want, barrier) = (text.clone(), want.clone(), barrier.clone());
            std::thread::spawn(move || {
                let doc = rcvar_of(&json!({"foo": {"bar": 7}, "big": (0..300).map(|i| json!({"k": (i * 7919) % 300})).collect::<Vec<_>>()}));
                let e = jmespath::compile(&text);
                let mut bad = vec![];
                for round in 0..60 {
                    barrier.wait();
                    let g = fingerprint(&e.clone().and_then(|x| x.search(&doc)));
                    let flat = fingerprint(&jmespath::compile("foo.bar").and_then(|x| x.search(&doc)));
                    if g != want || flat != "ok:7" {
                        bad.push(json!({"thread": t, "round": round, "nested": g.chars().take(120).collect::<String>(), "flat": flat}));
                    }
                }
                bad
            })
        })
        .collect();
    for h in hs {
        rep.evaluations += 120;
        match h.join() {
            Ok(bad) if bad.is_empty() => rep.count("simultaneous_nested_searches_ok"),
            Ok(bad) => rep.violation("C13/result-depends-on-history/what-other-threads-are-doing", json!({"threads": threads, "nesting": depth, "first": bad[0]})),
            Err(_) => rep.violation("C13/panic/neighbour-probe-thread", json!({})),
        }
    }
}

/// Failures of every kind leave nothing behind: a typed value whose conversion is refused half-way
/// (a refusing map key, a refusing element), a custom function that panics (caught by the caller) or
/// returns an error — after each, the same thread's next calls are what they would have been anyway.
fn after_failures_probe(rep: &mut Report) {
    use serde::Serialize;
    #[derive(PartialEq, Eq, PartialOrd, Ord)]
    struct RefusingKey(u8);
    impl Serialize for RefusingKey {
        fn serialize<S: serde::Serializer>(&self, _: S) -> Result<S::Ok, S::Error> {
            Err(serde::ser::Error::custom("refused"))
        }
    }
    struct Refuses;
    impl Serialize for Refuses {
        fn serialize<S: serde::Serializer>(&self, _: S) -> Result<S::Ok, S::Error> {
            Err(serde::ser::Error::custom("refused"))
        }
    }
    let mut rt = Runtime::new();
    rt.register_builtin_functions();
    rt.register_function(
        "isqrt",
        Box::new(jmespath::functions::CustomFunction::new(
            jmespath::functions::Signature::new(vec![jmespath::functions::ArgumentType::Number], None),
            Box::new(|a: &[Rcvar], _: &mut Context<'_>| {
                let n = a[0].as_number().unwrap_or(0.0);
                if n < 0.0 {
                    panic!("isqrt of a negative number");
                }
                Ok(Rcvar::new(jmespath::Variable::Number(serde_json::Number::from(n.sqrt() as u64))))
            }),
        )),
    );
    let probes: Vec<(&str, Value, &str)> = vec![
        ("max(@)", json!([3, 1, 2]), "ok:3"),
        ("[?@ > `1`]", json!([3, 1, 2]), "ok:[3,2]"),
        ("sum(@)", json!([3, 1, 2]), "ok:6.0"),
        ("@", json!(7), "ok:7"),
        ("{a: @[0], b: length(@)}", json!([3, 1, 2]), "ok:{\"a\":3,\"b\":3}"),
        ("isqrt(n)", json!({"n": 16}), "ok:4"),
        ("sort_by(@, &isqrt(n))[0].n", json!([{"n": 16}, {"n": 4}]), "ok:4"),
    ];
    let check = |rep: &mut Report, after: &str| {
        for (text, doc, want) in probes.iter() {
            rep.evaluations += 1;
            // typed inputs (serde path) and library values
            let got_typed = guarded(|| rt.compile(text).and_then(|e| e.search(doc.clone()))).map(|r| fingerprint(&r)).unwrap_or_else(|p| format!("panic:{}", p));
            let got_rc = guarded(|| rt.compile(text).and_then(|e| e.search(rcvar_of(doc)))).map(|r| fingerprint(&r)).unwrap_or_else(|p| format!("panic:{}", p));
            if got_typed == *want && got_rc == *want {
                rep.count("nothing_left_behind_by_failures");
            } else {
                rep.violation(
                    "C13/result-depends-on-history/after-a-failed-call",
                    json!({"expression": text, "document": doc, "evaluated_after": after, "expected": want, "typed_input": got_typed, "library_value_input": got_rc}),
                );
            }
        }
    };
    check(rep, "nothing (start of the probe)");
    let ident = rt.compile("@").unwrap();
    for round in 0..3 {
        let bad_key: std::collections::BTreeMap<RefusingKey, i32> = vec![(RefusingKey(1), 2)].into_iter().collect();
        let _ = guarded(|| ident.search(&bad_key).is_err());
        check(rep, "a search over a map whose key refuses to serialise");
        let _ = guarded(|| ident.search(vec![vec![(1, Refuses)]]).is_err());
        check(rep, "a search over a value that refuses three levels down");
        let r = guarded(|| rt.compile("isqrt(n)").and_then(|e| e.search(rcvar_of(&json!({"n": -16})))));
        if r.is_ok() {
            if round == 0 {
                rep.harness_error("the panicking custom function of the after-failures probe did not panic on its first call".to_string());
            } else {
                // it panicked in round 0 and no longer does: the same call behaves differently after the earlier one
                rep.violation(
                    "C13/result-depends-on-history/after-a-failed-call",
                    json!({"expression": "isqrt(n)", "document": {"n": -16}, "first_call": "panic inside the custom function", "later_call": r.as_ref().ok().map(fingerprint), "round": round}),
                );
            }
        }
        check(rep, "a custom function that panicked (caught by the caller)");
        let _ = guarded(|| rt.compile("sort_by(@, &isqrt(n))").and_then(|e| e.search(rcvar_of(&json!([{"n": 4}, {"n": -1}, {"n": 9}])))));
        check(rep, "a custom function that panicked inside sort_by");
        let _ = guarded(|| rt.compile("isqrt('x')").and_then(|e| e.search(rcvar_of(&json!(null)))));
        check(rep, "a custom function call rejected by its signature");
    }
}

/// Every way the API hands out a copy of a compiled expression — `clone`, `clone_from` over an expression
/// of the same / another text compiled through the same / another runtime, copies of copies, copies that
/// outlive their source — searches exactly like a fresh compile of the source's text through the source's
/// runtime. Two runtimes register the same function name with different behaviour, so a copy that kept
/// anything of its previous self (tree, text or runtime) answers differently.
fn copies_probe(rep: &mut Report) {
    let mk = |tag: &'static str| {
        let mut rt = Runtime::new();
        rt.register_builtin_functions();
        rt.register_function("tag", Box::new(move |_: &[Rcvar], _: &mut Context<'_>| Ok(Rcvar::new(jmespath::Variable::String(tag.to_string())))));
        rt
    };
    let (rt1, rt2) = (mk("one"), mk("two"));
    let mut plain = Runtime::new();
    plain.register_builtin_functions();
    let rts: [(&str, &Runtime); 3] = [("one", &rt1), ("two", &rt2), ("plain", &plain)];
    const TEXTS: [&str; 6] = ["[tag(), length(a)]", "tag()", "a | [tag(), @[0]]", "map(&tag(), a)", "length(a)", "a[?@ > `1`] | [tag(), @]"];
    let doc = rcvar_of(&json!({"a": [1, 2, 3]}));
    let fresh = |rt: &Runtime, text: &str| fingerprint(&rt.compile(text).and_then(|e| e.search(&doc)));
    for (na, ra) in rts.iter() {
        for (nb, rb) in rts.iter() {
            for ta in TEXTS.iter() {
                for tb in TEXTS.iter() {
                    if ta != tb && (na != nb) && TEXTS.iter().position(|x| x == ta).unwrap() % 2 == 1 {
                        continue; // keep the table at a few hundred cells
                    }
                    let (a, b) = match (ra.compile(ta), rb.compile(tb)) {
                        (Ok(a), Ok(b)) => (a, b),
                        _ => continue,
                    };
                    let want = fresh(rb, tb);
                    let want_a = fresh(ra, ta);
                    // searched or not before being overwritten
                    for searched_before in [false, true] {
                        let mut target = a.clone();
                        if searched_before {
                            let _ = guarded(|| target.search(&doc).is_ok());
                        }
                        rep.evaluations += 1;
                        let outcome = guarded(|| {
                            target.clone_from(&b);
                            let first = fingerprint(&target.search(&doc));
                            let copy_of_copy = target.clone();
                            let second = fingerprint(&copy_of_copy.search(&doc));
                            (first, second, target.as_str().to_string())
                        });
                        match outcome {
                            Ok((first, second, text)) if first == want && second == want && text == *tb => rep.count("copies_answer_like_their_source"),
                            other => rep.violation(
                                "C13/copy-does-not-answer-like-its-source",
                                json!({"operation": "target.clone_from(&source)", "target_before": {"text": ta, "runtime": na, "searched_before": searched_before}, "source": {"text": tb, "runtime": nb},
                                       "fresh_compile_of_the_source": want, "got(first search, search of a clone of it, text)": format!("{:?}", other)}),
                            ),
                        }
                    }
                    // the source is untouched, and a clone outlives it
                    rep.evaluations += 1;
                    let kept = a.clone();
                    drop(a);
                    let g = guarded(|| fingerprint(&kept.search(&doc)));
                    if g.as_deref() != Ok(want_a.as_str()) {
                        rep.violation("C13/copy-does-not-answer-like-its-source", json!({"operation": "clone, then drop the original", "text": ta, "runtime": na, "fresh_compile": want_a, "got": format!("{:?}", g)}));
                    }
                    let gb = guarded(|| fingerprint(&b.search(&doc)));
                    if gb.as_deref() != Ok(want.as_str()) {
                        rep.violation("C13/copy-does-not-answer-like-its-source", json!({"operation": "source after having been copied from", "text": tb, "runtime": nb, "fresh_compile": want, "got": format!("{:?}", gb)}));
                    }
                }
            }
        }
    }
}

/// Searches started INSIDE a search (a custom function that compiles and searches through `ctx.runtime`, or calls
/// a built-in with a context of its own) while the outer search is in the middle of a by-function, a map, a filter:
/// the outer search continues as if nothing had happened. And the very first searches of a brand-new thread, whose
/// only non-ASCII text comes from `\u` escapes in an all-ASCII expression or out of a custom function: results are
/// known by construction and are the same before and after the thread has seen non-ASCII documents.
fn nested_and_first_searches_probe(rep: &mut Report) {
    let mut rt = Runtime::new();
    rt.register_builtin_functions();
    rt.register_function("weight", Box::new(|a: &[Rcvar], ctx: &mut Context<'_>| ctx.runtime.compile("length(tags)")?.search(a[0].clone())));
    rt.register_function("weight2", Box::new(|a: &[Rcvar], ctx: &mut Context<'_>| {
        let inner = ctx.runtime.compile("sort_by(@, &@)[-1]")?;
        let tags = a[0].get_field("tags");
        let top = inner.search(tags)?;
        let mut own = Context::new("length(@)", ctx.runtime);
        let f = ctx.runtime.get_function("not_null").expect("built-in");
        f.evaluate(&[top, Rcvar::new(jmespath::Variable::Number(serde_json::Number::from(0)))], &mut own)
    }));
    rt.register_function("mk", Box::new(|a: &[Rcvar], _: &mut Context<'_>| Ok(Rcvar::new(jmespath::Variable::String(if a.is_empty() { "a\u{e9}".to_string() } else { "\u{e9}t\u{e9}".to_string() })))));
    let rt: &'static Runtime = Box::leak(Box::new(rt));
    let doc = json!({"items": [{"name": "a", "tags": [1]}, {"name": "b", "tags": []}, {"name": "c", "tags": [1, 2, 3]}, {"name": "d", "tags": [5, 2]}]});
    let nested: Vec<(&str, &str)> = vec![
        ("sort_by(items, &weight(@))[*].name", "ok:[\"b\",\"a\",\"d\",\"c\"]"),
        ("max_by(items, &weight(@)).name", "ok:\"c\""),
        ("min_by(items, &weight(@)).name", "ok:\"b\""),
        ("map(&weight(@), items)", "ok:[1,0,3,2]"),
        ("items[?weight(@) > `1`].name", "ok:[\"c\",\"d\"]"),
        ("sort_by(items, &weight2(@))[*].name", "ok:[\"b\",\"a\",\"c\",\"d\"]"),
        ("sort_by(items, &weight(@))[*].weight(@)", "ok:[0,1,2,3]"),
        ("items[*].[name, weight(@), weight2(@)] | [2]", "ok:[\"c\",3,3]"),
        ("sort_by(items, &sum([weight(@), weight2(@)]))[-1].name", "ok:\"d\""),
        ("join('', sort_by(items, &weight(@))[*].name) == join('', sort_by(items, &length(tags))[*].name)", "ok:true"),
    ];
    for (text, want) in nested.iter() {
        for input_kind in 0..2 {
            rep.evaluations += 1;
            let got = guarded(|| rt.compile(text).and_then(|e| if input_kind == 0 { e.search(rcvar_of(&doc)) } else { e.search(doc.clone()) })).map(|r| fingerprint(&r)).unwrap_or_else(|p| format!("panic:{}", p));
            if got == *want {
                rep.count("search_inside_a_search_leaves_the_outer_one_alone");
            } else {
                rep.violation("C13/result-depends-on-history/search-started-inside-a-search", json!({"expression": text, "document": doc, "known_by_construction": want, "got": got,
                    "custom_functions": "weight(x) = a nested compile+search of length(tags) through ctx.runtime; weight2(x) = nested sort_by search plus a built-in called with a context of its own"}));
            }
        }
    }
    // first searches of a new thread
    let firsts: Vec<(&'static str, Value, &'static str)> = vec![
        ("length(`\"\\u00e9t\\u00e9\"`)", json!(1), "ok:3"),
        ("reverse(`\"a\\u00e9\"`)", json!(1), "ok:\"\u{e9}a\""),
        ("length(mk(`1`))", json!(1), "ok:3"),
        ("reverse(mk())", json!(1), "ok:\"\u{e9}a\""),
        ("length(\"k\\u00e9\")", json!({"k": 1}), "err:type"),
        ("[length(`\"\\u00e9\"`), length('abc'), length(`\"\\ud83d\\ude00\"`)]", json!(null), "ok:null"),
        ("[length(`\"\\u00e9\"`), length('abc'), length(`\"\\ud83d\\ude00\"`)]", json!(0), "ok:[1,3,1]"),
        ("ends_with(`\"x\\u00e9\"`, mk())", json!(1), "ok:false"),
        ("contains(mk(`1`), `\"\\u00e9\"`)", json!(1), "ok:true"),
        ("sort([mk(), `\"a\\u00e8\"`, 'az'])", json!(1), "ok:[\"az\",\"a\u{e8}\",\"a\u{e9}\"]"),
    ];
    for order in 0..3 {
        let firsts = firsts.clone();
        let h = std::thread::spawn(move || {
            let mut out = vec![];
            let run_all = |out: &mut Vec<(String, String, String, &'static str)>, phase: &'static str| {
                for (text, d, want) in firsts.iter() {
                    let got = guarded(|| rt.compile(text).and_then(|e| e.search(rcvar_of(d)))).map(|r| match &r { Err(e) => format!("err:{}", err_class(e)), _ => fingerprint(&r) }).unwrap_or_else(|p| format!("panic:{}", p));
                    out.push((text.to_string(), got, want.to_string(), phase));
                }
            };
            if order == 1 {
                let _ = rt.compile("city").map(|e| e.search(rcvar_of(&json!({"city": "Z\u{fc}rich"}))).is_ok());
            }
            if order == 2 {
                let _ = rt.compile("'\u{e9}'").map(|e| e.search(rcvar_of(&json!(1))).is_ok());
            }
            run_all(&mut out, ["first searches of a new thread", "after a document with non-ASCII text on this thread", "after an expression with non-ASCII text on this thread"][order]);
            let _ = rt.compile("city").map(|e| e.search(json!({"city": "Z\u{fc}rich"})).is_ok());
            run_all(&mut out, "again, after a typed document with non-ASCII text");
            out
        });
        match h.join() {
            Ok(out) => {
                for (text, got, want, phase) in out {
                    rep.evaluations += 1;
                    if got == want {
                        rep.count("first_searches_of_a_thread_ok");
                    } else {
                        rep.violation("C13/result-depends-on-history/first-searches-of-a-thread", json!({"expression": text, "evaluated": phase, "known_by_construction": want, "got": got}));
                    }
                }
            }
            Err(_) => rep.harness_error("the first-searches thread died".to_string()),
        }
    }
}

pub fn run(args: &Args) {
    let mut rep = Report::new("C13");
    // first library use of this process: nothing has touched any runtime yet
    bare_runtime_probe(&mut rep, "first library use of the process");
    let other = std::thread::spawn(|| {
        let _ = jmespath::compile("foo.bar").map(|e| e.search(()).map(|v| v.to_string()));
    });
    let _ = other.join();
    bare_runtime_probe(&mut rep, "after another thread used the default runtime");
    if args.shard == 0 {
        stack_and_neighbours_probe(&mut rep);
    }
    if args.shard == 2 % args.shards {
        copies_probe(&mut rep);
    }
    if args.shard == 3 % args.shards {
        nested_and_first_searches_probe(&mut rep);
    }
    if args.shard == 1 % args.shards {
        after_failures_probe(&mut rep);
    }
    gap_sweep(&mut rep, args);
    family_sweep(&mut rep, args);
    one_byte_variants(&mut rep, args);
    whitespace_pairs(&mut rep, args);
    let rt = make_runtime();
    let histories = args.n;
    let ops_per_history: usize = args.kv.get("ops").and_then(|v| v.parse().ok()).unwrap_or(2000);
    for h in 0..histories {
        let npools: u64 = args.kv.get("pools").and_then(|v| v.parse().ok()).unwrap_or(8);
        let pool_seed = (args.seed * 1000 + h % npools) as u64; // a few pools, many histories each
        let (exprs, docs) = pool(pool_seed);
        let truth = truth_table(&exprs, &docs, None);
        let th: Vec<Vec<u64>> = truth.iter().map(|row| row.iter().map(|s| fnv(s.as_bytes())).collect()).collect();
        rep.extra.insert(format!("truth_table/{}", pool_seed), json!(th));
        let inputs: Vec<Rcvar> = docs.iter().map(rcvar_of).collect();
        let doc_prints: Vec<String> = inputs.iter().map(|v| v.to_string()).collect();
        let ast_prints: Vec<Option<String>> = exprs.iter().map(|e| jmespath::parse(e).ok().map(|a| format!("{:?}", a))).collect();
        let mut rng = Rng::derive(args.seed, args.shard + 10000, h);
        let mut handles: Vec<Handle> = vec![];
        let mut last_touch: Vec<u8> = vec![0; exprs.len()]; // 0 none, 1 success, 2 failure
        let mut steps_seen: std::collections::HashMap<(usize, usize), u64> = Default::default();
        let mut step_variation = 0u64;
        for _ in 0..ops_per_history {
            let op = rng.below(10);
            let hot = h % 4 == 3;
            let cap = if hot { 4 } else { 60 };
            if handles.is_empty() || (op <= 1 && handles.len() < cap) {
                let e = rng.below(exprs.len());
                let custom = rng.chance(1, 4);
                rep.evaluations += 1;
                let c = guarded(|| if custom { rt.compile(&exprs[e]) } else { jmespath::compile(&exprs[e]) });
                match c {
                    Ok(Ok(x)) => {
                        // the same string always yields the same tree
                        // the handle reports the text it was compiled from
                        if x.as_str() != exprs[e] || format!("{}", x) != exprs[e] || format!("{:?}", x) != exprs[e] || x != x.clone() {
                            rep.violation("C13/expression-text-accessors-disagree", json!({"expression": exprs[e], "as_str": x.as_str(), "display": format!("{}", x)}));
                        }
                        let a = format!("{:?}", x.as_ast());
                        if ast_prints[e].as_ref() != Some(&a) {
                            rep.violation("C13/compile-yields-different-tree", json!({"expression": exprs[e], "history": h}));
                        }
                        handles.push(Handle { expr: x, e, origin: if custom { "custom-runtime" } else { "fresh" }, uses: 0 });
                    }
                    Ok(Err(_)) => {
                        if ast_prints[e].is_some() {
                            rep.violation("C13/compile-nondeterministic", json!({"expression": exprs[e], "history": h}));
                        }
                    }
                    Err(p) => rep.violation(&format!("C13/panic/{}", panic_site(&p)), json!({"expression": exprs[e], "panic": p})),
                }
                continue;
            }
            let hi = rng.below(handles.len());
            match op {
                2 => {
                    let c = handles[hi].expr.clone();
                    let e = handles[hi].e;
                    if handles.len() < cap {
                        handles.push(Handle { expr: c, e, origin: "clone", uses: 0 });
                    }
                }
                3 => {
                    // hot histories keep their handles alive for hundreds of searches
                    if !hot || rng.chance(1, 40) {
                        handles.swap_remove(hi);
                    }
                }
                _ => {
                    let d = rng.below(docs.len());
                    let e = handles[hi].e;
                    rep.evaluations += 1;
                    jmespath::verif::reset();
                    let r = guarded(|| handles[hi].expr.search(&inputs[d]));
                    let steps = jmespath::verif::counters().interp_steps;
                    let got = match r {
                        Ok(r) => fingerprint(&r),
                        Err(p) => format!("panic:{}", p),
                    };
                    handles[hi].uses += 1;
                    let pred = last_touch[e];
                    last_touch[e] = if got.starts_with("ok:") { 1 } else { 2 };
                    if got != truth[e][d] {
                        rep.violation(
                            "C13/result-depends-on-history",
                            json!({"expression": exprs[e], "document": docs[d], "single_shot": truth[e][d], "in_history": got,
                                   "handle": handles[hi].origin, "uses_before": handles[hi].uses - 1, "history": h, "seed": args.seed, "shard": args.shard}),
                        );
                    } else {
                        rep.count(&format!("search_matches_single_shot/{}", handles[hi].origin));
                        rep.max("max/uses_of_one_handle", handles[hi].uses as u64);
                        if handles[hi].uses > 1 || pred == 2 {
                            rep.nontrivial(fnv(format!("{}|{}|{}|{}", pool_seed, e, d, pred).as_bytes()));
                        }
                    }
                    // the tree behind a handle never changes
                    let a = format!("{:?}", handles[hi].expr.as_ast());
                    if ast_prints[e].as_ref() != Some(&a) {
                        rep.violation("C13/ast-changed-by-search", json!({"expression": exprs[e], "history": h}));
                    }
                    // searching never changes the document it is given
                    if inputs[d].to_string() != doc_prints[d] {
                        rep.violation("C13/search-mutated-its-input", json!({"expression": exprs[e], "document_before": doc_prints[d], "document_after": inputs[d].to_string()}));
                    }
                    match steps_seen.get(&(e, d)) {
                        Some(&s0) if s0 != steps => step_variation += 1,
                        None => {
                            steps_seen.insert((e, d), steps);
                        }
                        _ => {}
                    }
                }
            }
        }
        rep.add("hidden_state_indicator/step_count_variations(evidence only)", step_variation);
        rep.count("histories");
        if h == 0 {
            rep.sample(json!({"history": h, "pool_seed": pool_seed, "expressions": exprs.iter().take(6).collect::<Vec<_>>(), "operations": ops_per_history}));
        }
    }
    bare_runtime_probe(&mut rep, "after all histories of this process");
    emit_report(args, &rep);
}
