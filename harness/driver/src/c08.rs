//! C08 — JSON passes through unchanged. The driver generates hostile JSON
//! texts, pushes them through from_json -> search('@') -> to_string and the
//! serde_json::Value bridges, and records (input, output | error). CPython
//! (py/check_json.py) is the independent JSON reader that decides; exact
//! in-process round trips are checked here.

use crate::common::*;
use jmespath::Variable;
use refimpl::json::{val_close, val_identical};
use refimpl::rng::{fnv, Rng};
use serde_json::{json, Value};
use std::convert::TryFrom;
use std::io::Write;

fn digits_r(rng: &mut Rng, lo: usize, span: usize, first_nonzero: bool) -> String {
    let n = lo + if span > 0 { rng.below(span) } else { 0 };
    digits(rng, n, first_nonzero)
}

fn digits(rng: &mut Rng, n: usize, first_nonzero: bool) -> String {
    let mut s = String::new();
    for i in 0..n {
        let d = if i == 0 && first_nonzero { rng.range(1, 9) } else { rng.range(0, 9) };
        s.push((b'0' + d as u8) as char);
    }
    s
}

fn numeral(rng: &mut Rng) -> String {
    const EDGE: [&str; 40] = [
        "0", "-0", "0.0", "-0.0", "0e0", "1", "-1", "2147483647", "2147483648", "-2147483648", "-2147483649", "4294967295", "4294967296",
        "9007199254740991", "9007199254740992", "9007199254740993", "-9007199254740993", "9223372036854775806", "9223372036854775807",
        "9223372036854775808", "-9223372036854775807", "-9223372036854775808", "-9223372036854775809", "18446744073709551614",
        "18446744073709551615", "18446744073709551616", "123456789012345678901234567890", "1E400", "-1e400", "1e308", "1.7976931348623157e308",
        "1.7976931348623159e308", "4.9e-324", "5e-324", "2.2250738585072014e-308", "2.2250738585072011e-308", "1e-400", "0.1", "1e22", "1e23",
    ];
    match rng.below(10) {
        0 | 1 => EDGE[rng.below(EDGE.len())].to_string(),
        2 => format!("{}{}", if rng.chance(1, 2) { "-" } else { "" }, digits_r(rng, 1, 20, true)),
        3 => format!("{}{}", if rng.chance(1, 3) { "-" } else { "" }, digits_r(rng, 18, 8, true)),
        4 | 5 => {
            // d.ddd with 1..25 significant digits and an exponent
            let n = 1 + rng.below(25);
            let ds = digits(rng, n, true);
            let e = rng.range(-330, 310);
            let es = match rng.below(4) {
                0 => format!("e{}", e),
                1 => format!("E{}", e),
                2 => format!("e{}{}", if e >= 0 { "+" } else { "" }, e),
                _ => format!("E{}{}", if e >= 0 { "+" } else { "" }, e),
            };
            if n > 1 && rng.chance(2, 3) {
                format!("{}{}.{}{}", if rng.chance(1, 3) { "-" } else { "" }, &ds[..1], &ds[1..], es)
            } else {
                format!("{}{}{}", if rng.chance(1, 3) { "-" } else { "" }, ds, es)
            }
        }
        6 => {
            // <= 15 significant digits, |exponent| <= 22: the exactness domain
            let n = 1 + rng.below(15);
            let ds = digits(rng, n, true);
            let e = rng.range(-22, 22);
            format!("{}{}e{}", if rng.chance(1, 3) { "-" } else { "" }, ds, e)
        }
        7 => {
            // plain decimals
            let a = digits_r(rng, 1, 6, true);
            let b = digits_r(rng, 1, 12, false);
            format!("{}{}.{}", if rng.chance(1, 3) { "-" } else { "" }, a, b)
        }
        8 => { let z = rng.below(20); format!("0.{}{}", "0".repeat(z), digits_r(rng, 1, 17, true)) }
        _ => rng.range(-100000, 100000).to_string(),
    }
}

fn jstring(rng: &mut Rng) -> String {
    const CH: [char; 30] = [
        'a', 'Z', '0', ' ', '"', '\\', '/', '\u{8}', '\u{c}', '\n', '\r', '\t', '\u{0}', '\u{1f}', '\u{7f}', 'é', 'ß', '日', '\u{FFFF}', '\u{FFFD}',
        '\u{1F600}', '\u{10FFFF}', '\u{10000}', '\u{D7FF}', '\u{E000}', 'e', '\u{301}', '`', '\'', 'u',
    ];
    let n = rng.below(12);
    let mut s = String::from("\"");
    for _ in 0..n {
        let c = CH[rng.below(CH.len())];
        let cp = c as u32;
        let mode = rng.below(4);
        let must_escape = cp < 0x20 || c == '"' || c == '\\';
        if mode == 0 || (must_escape && mode == 1 && !matches!(c, '"' | '\\' | '\u{8}' | '\u{c}' | '\n' | '\r' | '\t')) {
            // \uXXXX (upper or lower hex), surrogate pair for astral
            let up = rng.chance(1, 2);
            let mut push = |v: u32| {
                if up {
                    s.push_str(&format!("\\u{:04X}", v))
                } else {
                    s.push_str(&format!("\\u{:04x}", v))
                }
            };
            if cp >= 0x10000 {
                let v = cp - 0x10000;
                push(0xD800 + (v >> 10));
                push(0xDC00 + (v & 0x3FF));
            } else {
                push(cp);
            }
        } else if must_escape || (mode == 1 && c == '/') {
            s.push('\\');
            s.push(match c {
                '"' => '"',
                '\\' => '\\',
                '/' => '/',
                '\u{8}' => 'b',
                '\u{c}' => 'f',
                '\n' => 'n',
                '\r' => 'r',
                '\t' => 't',
                _ => {
                    s.pop();
                    s.push_str(&format!("\\u{:04x}", cp));
                    continue;
                }
            });
        } else {
            s.push(c);
        }
    }
    if rng.chance(1, 60) {
        // lone surrogate escape: the one string the parser is allowed to refuse
        s.push_str(["\\ud800", "\\uDC00", "\\ud83d x"][rng.below(3)]);
    }
    s.push('"');
    s
}

fn ws(rng: &mut Rng) -> &'static str {
    ["", "", "", " ", "\n", "\t", "\r\n", "  "][rng.below(8)]
}

fn jtext(rng: &mut Rng, depth: usize) -> String {
    if depth == 0 || rng.chance(2, 5) {
        return match rng.below(8) {
            0 => "null".into(),
            1 => "true".into(),
            2 => "false".into(),
            3 | 4 | 5 => numeral(rng),
            _ => jstring(rng),
        };
    }
    if rng.chance(1, 2) {
        let n = rng.below(5);
        let items: Vec<String> = (0..n).map(|_| format!("{}{}{}", ws(rng), jtext(rng, depth - 1), ws(rng))).collect();
        format!("[{}{}]", items.join(","), if n == 0 { ws(rng) } else { "" })
    } else {
        let n = rng.below(5);
        let mut keys: Vec<String> = (0..n).map(|_| jstring(rng)).collect();
        if n >= 2 && rng.chance(1, 3) {
            keys[n - 1] = keys[0].clone(); // duplicate key: last wins
        }
        let items: Vec<String> = keys
            .into_iter()
            .map(|k| format!("{}{}{}:{}{}{}", ws(rng), k, ws(rng), ws(rng), jtext(rng, depth - 1), ws(rng)))
            .collect();
        format!("{{{}{}}}", items.join(","), if n == 0 { ws(rng) } else { "" })
    }
}

fn deep(rng: &mut Rng, d: usize) -> String {
    let mut open = String::new();
    let mut close = String::new();
    for _ in 0..d {
        if rng.chance(1, 2) {
            open.push('[');
            close.insert(0, ']');
        } else {
            open.push_str("{\"a\":");
            close.insert(0, '}');
        }
    }
    // the innermost value is a container with several members (order and count are visible), and
    // some levels carry a sibling next to the nested child
    let inner = match rng.below(4) {
        0 => numeral(rng),
        1 => format!("[{},{},{}]", numeral(rng), jstring(rng), numeral(rng)),
        2 => "[1,2,3,[4,5],{\"k\":[6,7]}]".to_string(),
        _ => format!("{{\"a\":[1,2,3],\"b\":{},\"\":[true,false]}}", jstring(rng)),
    };
    format!("{}{}{}", open, inner, close)
}

/// Wide documents: long arrays, objects with many members, long strings (sizes around the
/// usual thresholds), so that size-dependent paths of reader, value model and printer are
/// crossed as well.
/// A value whose `Serialize` impl refuses.
struct Refuses;
impl serde::Serialize for Refuses {
    fn serialize<S: serde::Serializer>(&self, _: S) -> Result<S::Ok, S::Error> {
        Err(serde::ser::Error::custom("refused"))
    }
}

fn wide(rng: &mut Rng) -> String {
    let n = [33usize, 64, 65, 129, 257, 1000, 1025, 4097][rng.below(8)] + rng.below(3);
    match rng.below(10) {
        7 | 8 | 9 => {
            // data that looks like the private spellings libraries use for their own bookkeeping
            // (serde_json's number / raw-value tokens, debug renderings, tag keys): it is just data
            const MAGIC_KEYS: [&str; 8] = ["$serde_json::private::Number", "$serde_json::private::RawValue", "$__toml_private_datetime", "__proto__", "$ref", "@type", "", "<expression: k>"];
            const MAGIC_VALS: [&str; 10] = ["\"12\"", "\"-1.5e3\"", "\"1e999\"", "\"<expression: a + b>\"", "\"<expression: >\"", "\"null\"", "12", "\"{\\\"a\\\":1}\"", "\"NaN\"", "[\"12\"]"];
            let k = MAGIC_KEYS[rng.below(MAGIC_KEYS.len())];
            let v = MAGIC_VALS[rng.below(MAGIC_VALS.len())];
            match rng.below(4) {
                0 => format!("{{\"{}\":{}}}", k, v),
                1 => format!("[{{\"{}\":{}}}, {{\"{}\":{}, \"x\":1}}]", k, v, k, v),
                2 => format!("{{\"doc\":{}, \"id\":7, \"o\":{{\"{}\":{}}}}}", v, k, v),
                _ => format!("[{}, {}]", v, v),
            }
        }
        5 => {
            // strings that look like structure: brackets, braces, quotes and backslashes in bulk, after a
            // string that ends in an escaped backslash (a scanner that tracks "inside a string" by looking
            // at the previous byte gets out of step here)
            let k = 100 + rng.below(80);
            let piece = ["[", "{", "[[", "]", "}", "[{", "\\\\", "\\\"", ":", ","];
            let body: String = (0..k)
                .map(|_| {
                    let span = 3 + rng.below(8);
                    piece[rng.below(span)]
                })
                .collect();
            format!("{{\"dir\":\"C:\\\\tmp\\\\\",\"pattern\":\"{}\",\"n\":[1,{{\"q\":\"\\\\\"}},\"{}\"]}}", body, body)
        }
        6 => {
            // very many small nested arrays: more pending elements than any fixed scratch capacity
            // (a handful per run: each is ~0.5 MB)
            let rows = if rng.chance(1, 10) { [70_000usize, 66_000, 131_100][rng.below(3)] } else { [64usize, 1000, 4097][rng.below(3)] };
            let mut t = String::with_capacity(rows * 8);
            t.push_str("{\"rows\":[");
            for r in 0..rows {
                if r > 0 {
                    t.push(',');
                }
                t.push_str(&format!("[{},{}]", r % 10, (r + 1) % 10));
            }
            t.push_str("],\"tail\":[0,0,0,[1],5]}");
            t
        }
        4 => {
            // octets and near-octets, negatives included (what a byte-string shortcut would mangle)
            let (lo, hi) = [(-3i64, 255i64), (0, 255), (-128, 127), (-1, 256), (250, 260)][rng.below(5)];
            format!("[{}]", (0..n).map(|_| rng.range(lo, hi).to_string()).collect::<Vec<_>>().join(","))
        }
        0 => format!("[{}]", (0..n).map(|_| numeral(rng)).collect::<Vec<_>>().join(",")),
        1 => format!("[{}]", (0..n).map(|_| jtext(rng, 1)).collect::<Vec<_>>().join(", ")),
        2 => {
            let items: Vec<String> = (0..n).map(|i| format!("\"k{}{}\": {}", (i * 7919) % 10007, if i % 50 == 0 { "\\u00e9" } else { "" }, jtext(rng, 1))).collect();
            format!("{{{}}}", items.join(","))
        }
        _ => {
            let mut s = String::from("\"");
            for _ in 0..(n * 20 / 12 + 1) {
                let part = jstring(rng);
                s.push_str(&part[1..part.len() - 1]);
            }
            s.push('"');
            s
        }
    }
}

/// Deterministic documents, one per index: (a) a multi-byte character straddling every byte offset around
/// 4096·2^k of the PRINTED text (anything that prints through a fixed-size buffer cuts it there), alone and
/// inside arrays / objects; (b) objects with a repeated member name — the later member wins, as in every JSON
/// reader here — at every width from 2 to 1000 members, the two occurrences adjacent, far apart, first/last,
/// spelled differently, three times.
const SWEEP_CASES: u64 = 6 * 13 * 3 * 2 + 16 * 8 + 4352 + 24;

fn sweep_text(j: u64) -> Option<String> {
    let boundary = 6 * 13 * 3 * 2;
    if j < boundary {
        let total = [4096usize, 8192, 16384, 32768, 65536, 24576][(j % 6) as usize];
        let delta = ((j / 6) % 13) as i64 - 6;
        let ch = ["é", "日", "😀"][((j / 78) % 3) as usize];
        let framed = (j / 234) % 2 == 1;
        let k = (total as i64 + delta) as usize;
        return Some(if framed {
            // the character lands near the boundary inside an object inside an array
            let head = "[1,{\"k\":\"";
            format!("[1, {{\"k\": \"{}{} tail {}\"}}, \"{}\"]", "a".repeat(k.saturating_sub(head.len())), ch, ch, ch.repeat(5))
        } else {
            format!("\"{}{} and more {}\"", "a".repeat(k.saturating_sub(1)), ch, ch.repeat(3))
        });
    }
    let j = j - boundary;
    if j >= 16 * 8 {
        // (c) every Unicode scalar value, 256 per document, as a member name and as a value (spelled by serde_json:
        // control characters escaped, everything else raw); (d) every escape sequence next to every ASCII character
        let k = j - 16 * 8;
        if k < 4352 {
            let text: String = (k as u32 * 256..k as u32 * 256 + 256).filter_map(char::from_u32).collect();
            if text.is_empty() {
                return Some("[]".to_string());
            }
            let enc = serde_json::to_string(&text).unwrap();
            return Some(format!("{{{}: [{}, 1]}}", enc, enc));
        }
        let k = k - 4352;
        if k >= 24 {
            return None;
        }
        const ESCAPES: [&str; 12] = ["\\\\", "\\\"", "\\/", "\\b", "\\f", "\\n", "\\r", "\\t", "\\u0041", "\\u00e9", "\\ud83d\\ude00", "\\u2029"];
        let esc = ESCAPES[(k % 12) as usize];
        let items: Vec<String> = (0x20u8..0x7f).filter(|c| *c != b'"' && *c != b'\\').map(|c| if k < 12 { format!("\"{}{}x\"", esc, c as char) } else { format!("\"x{}{}\"", c as char, esc) }).collect();
        return Some(format!("{{\"k{}{}\": [{}]}}", esc, if k < 12 { "`" } else { "" }, items.join(", ")));
    }
    let n = [2usize, 3, 5, 10, 20, 30, 31, 40, 41, 48, 64, 100, 200, 500, 1000, 33][(j % 16) as usize];
    let variant = j / 16;
    let (p, q) = match variant % 4 {
        0 => (0, n - 1),
        1 => (0, (2).min(n - 1)),
        2 => (n / 2, (n / 2 + 1).min(n - 1)),
        _ => (n - 2, n - 1),
    };
    let respell = variant >= 4;
    let mut members = vec![];
    for i in 0..n {
        if i == p {
            members.push("\"dup\": \"first\"".to_string());
        } else if i == q {
            members.push(format!("\"{}\": \"last\"", if respell { "\\u0064up" } else { "dup" }));
        } else if variant % 4 == 2 && i == 0 && n > 4 {
            members.push("\"dup\": \"zeroth\"".to_string());
        } else {
            members.push(format!("\"k{:03}\": {}", (i * 37) % 1000, i));
        }
    }
    Some(format!("{{{}}}", members.join(", ")))
}

pub fn run(args: &Args) {
    let mut rep = Report::new("C08");
    let path = args.kv.get("records").cloned().expect("--records");
    let mut file = std::io::BufWriter::new(std::fs::File::create(&path).expect("records file"));
    let ident = jmespath::compile("@").unwrap();
    for i in 0..args.n {
        let mut rng = Rng::derive(args.seed, args.shard + 7000, i);
        let swept = if i * args.shards + args.shard < SWEEP_CASES { sweep_text(i * args.shards + args.shard) } else { None };
        let is_sweep = swept.is_some();
        let text = if let Some(t) = swept { t } else { match rng.below(40) {
            0 => { let d = 120 + rng.below(12); deep(&mut rng, d) }
            1 => format!("{}{}{}", ws(&mut rng), numeral(&mut rng), ws(&mut rng)),
            2 if i % 8 == 0 => wide(&mut rng),
            _ => format!("{}{}{}", ws(&mut rng), jtext(&mut rng, 4), ws(&mut rng)),
        } };
        rep.evaluations += 1;
        let parsed = guarded(|| Variable::from_json(&text));
        let var = match parsed {
            Ok(Ok(v)) => v,
            Ok(Err(e)) => {
                rep.count("from_json_rejected");
                let _ = writeln!(file, "{}", json!({"i": i, "in": text, "err": e}));
                continue;
            }
            Err(p) => {
                rep.violation(&format!("C08/panic-in-from_json/{}", panic_site(&p)), json!({"text": text, "panic": p}));
                continue;
            }
        };
        let rc = jmespath::Rcvar::new(var.clone());
        let out = guarded(|| ident.search(&rc).map(|r| r.to_string()));
        let out = match out {
            Ok(Ok(o)) => o,
            other => {
                rep.violation("C08/identity-search-failed", json!({"text": text, "got": format!("{:?}", other)}));
                continue;
            }
        };
        let _ = writeln!(file, "{}", json!({"i": i, "in": text, "out": out}));
        rep.count("from_json_accepted");
        // in-process: print -> reparse is the identity (exact comparison)
        let v1 = match value_of(&var) {
            Ok(v) => v,
            Err(w) => {
                rep.violation("C08/parsed-value-not-json", json!({"text": text, "why": w}));
                continue;
            }
        };
        if is_sweep {
            // these texts hold only strings and small integers: the value is exactly what serde_json reads from the text
            match serde_json::from_str::<Value>(&text) {
                Ok(direct) if val_identical(&direct, &v1) => rep.count("sweep_document_read_as_serde_json_reads_it"),
                other => rep.violation(
                    "C08/document-read-differently-from-serde_json",
                    json!({"text": text.chars().take(300).collect::<String>(), "bytes": text.len(), "serde_json": format!("{:?}", other.map(|v| v.to_string().chars().take(200).collect::<String>())),
                           "from_json": v1.to_string().chars().take(200).collect::<String>()}),
                ),
            }
        }
        match guarded(|| Variable::from_json(&out)) {
            Ok(Ok(v2)) => match value_of(&v2) {
                Ok(v2j) if val_identical(&v1, &v2j) => rep.count("print_reparse_identical"),
                // the JSON reader's documented accuracy is 2 ulp, so a printed double may
                // re-parse to a neighbour: "equal" cannot mean bit-identical for those
                Ok(v2j) if val_close(&v1, &v2j, 2) => rep.count("print_reparse_within_2ulp"),
                other => rep.violation("C08/print-reparse-changes-value", json!({"text": text, "printed": out, "reparsed": format!("{:?}", other)})),
            },
            other => rep.violation("C08/printed-text-does-not-reparse", json!({"text": text, "printed": out, "got": format!("{:?}", other.map(|r| r.map(|_| ())))})),
        }
        // in-process: Variable -> serde_json::Value -> Variable (owned and borrowed) is lossless
        match guarded(|| serde_json::to_value(&var)) {
            Ok(Ok(val)) => {
                if !val_identical(&val, &v1) {
                    rep.violation("C08/to_value-differs", json!({"text": text, "to_value": val, "walked": v1}));
                }
                let owned = guarded(|| Variable::try_from(val.clone()));
                let borrowed = guarded(|| Variable::try_from(&val));
                for (name, r) in [("owned", owned), ("borrowed", borrowed)] {
                    match r {
                        Ok(Ok(back)) => match value_of(&back) {
                            Ok(b) if val_identical(&b, &v1) => rep.count("value_bridge_lossless"),
                            other => rep.violation(&format!("C08/value-bridge-lossy/{}", name), json!({"text": text, "back": format!("{:?}", other)})),
                        },
                        other => rep.violation(&format!("C08/value-bridge-failed/{}", name), json!({"text": text, "got": format!("{:?}", other.map(|r| r.map(|_| ())))})),
                    }
                }
            }
            other => rep.violation("C08/to_value-failed", json!({"text": text, "got": format!("{:?}", other.map(|r| r.map(|_| ())))})),
        }
        // out again through the value's own serde Deserializer (`T::deserialize(variable)`) into a serde_json Value
        if i % 4 == 1 {
            use serde::Deserialize;
            match guarded(|| serde_json::Value::deserialize(var.clone())) {
                Ok(Ok(back)) if val_identical(&back, &v1) => rep.count("deserializer_bridge_lossless"),
                other => rep.violation("C08/value-bridge-lossy/deserializer", json!({"text": text, "back": format!("{:?}", other.map(|r| r.map(|v| v.to_string()).map_err(|e| e.to_string())))})),
            }
        }
        // the same JSON value through the generic serde path (Variable::from_serializable), now and
        // then right after a conversion that fails half-way down: a failure must leave nothing behind
        if i % 3 == 0 {
            if i % 12 == 0 {
                let refused = guarded(|| Variable::from_serializable(&vec![vec![vec![Refuses]]]).is_err());
                if refused != Ok(true) {
                    rep.violation("C08/refusing-value-converted", json!({"got": format!("{:?}", refused)}));
                }
            }
            match guarded(|| Variable::from_serializable(&v1)) {
                Ok(Ok(back)) => match value_of(&back) {
                    Ok(b) if val_identical(&b, &v1) => rep.count("generic_serializer_lossless"),
                    other => rep.violation("C08/value-bridge-lossy/generic-serializer", json!({"text": text, "back": format!("{:?}", other)})),
                },
                other => rep.violation("C08/value-bridge-failed/generic-serializer", json!({"text": text, "got": format!("{:?}", other.map(|r| r.map(|_| ()).map_err(|e| e.to_string())))})),
            }
        }
        if text.len() > 8 {
            rep.nontrivial(fnv(text.as_bytes()));
        }
        if i % 4001 == 0 {
            rep.sample(json!({"input": text, "output": out}));
        }
    }
    let _ = file.flush();
    emit_report(args, &rep);
}
