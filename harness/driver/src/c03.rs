//! C03 — compile accepts exactly the JMESPath language.
//! Oracle: strict token-level recognizer (refimpl::parse) with relaxation
//! attribution for recorded deviation classes.

use crate::common::*;
use refimpl::parse::{parse, Opts, ParseErr};
use refimpl::rng::{fnv, Rng};
use refimpl::sentence::*;
use serde_json::json;

pub struct Verdict {
    pub reference_accepts: Option<bool>, // None = unconstrained / too deep
    pub crate_accepts: bool,
}

fn relax_name(bits: u8) -> String {
    let mut v = vec![];
    if bits & 1 != 0 {
        v.push("paren-fn");
    }
    if bits & 2 != 0 {
        v.push("ms-after-proj");
    }
    if bits & 4 != 0 {
        v.push("expref-anywhere");
    }
    v.join("+")
}

/// Smallest set of *listed* relaxations under which the reference accepts `s`.
pub fn explain_acceptance(s: &str) -> Option<String> {
    let mut order: Vec<u8> = (1..8).collect();
    order.sort_by_key(|b| b.count_ones());
    for bits in order {
        let o = Opts {
            relax_paren_fn: bits & 1 != 0,
            relax_ms_after_proj: bits & 2 != 0,
            relax_expref_anywhere: bits & 4 != 0,
            ..Opts::strict()
        };
        if parse(s, &o).is_ok() {
            return Some(relax_name(bits));
        }
    }
    None
}

pub fn check_one(rep: &mut Report, s: &str, family: &str, strict: &Opts, must_be_sentence: bool) -> Verdict {
    rep.evaluations += 1;
    let r = parse(s, strict);
    let ref_ok = match &r {
        Ok(_) => Some(true),
        Err(ParseErr::TooDeep) => None,
        Err(ParseErr::Lex(l)) if l.only_i32_min => None,
        Err(_) => Some(false),
    };
    if must_be_sentence && ref_ok == Some(false) {
        rep.harness_error(format!("oracle self-check: ABNF sentence rejected by the strict recognizer: {:?} ({:?})", s, r.as_ref().err()));
    }
    let c = guarded(|| jmespath::parse(s));
    let crate_ok = match &c {
        Ok(Ok(_)) => true,
        Ok(Err(e)) => {
            if err_class(e) != "parse" {
                rep.violation("C03/compile-failure-not-a-parse-error", json!({"expression": s, "error": err_json(e), "family": family}));
            }
            false
        }
        Err(p) => {
            rep.violation(&format!("C03/panic-in-compile/{}", panic_site(p)), json!({"expression": s, "panic": p, "family": family}));
            return Verdict {
                reference_accepts: ref_ok,
                crate_accepts: false,
            };
        }
    };
    // compile and parse must agree with each other
    if let Ok(r2) = guarded(|| jmespath::compile(s).is_ok()) {
        if r2 != crate_ok {
            rep.violation("C03/compile-and-parse-disagree", json!({"expression": s, "family": family}));
        }
    }
    match (ref_ok, crate_ok) {
        (None, _) => rep.count("unconstrained_skipped"),
        (Some(true), true) => rep.count(&format!("agree_accept/{}", family)),
        (Some(false), false) => rep.count(&format!("agree_reject/{}", family)),
        (Some(true), false) => {
            let e = c.ok().and_then(|x| x.err()).map(|e| err_json(&e));
            rep.violation("C03/rejects-sentence", json!({"expression": s, "error": e, "family": family}));
        }
        (Some(false), true) => match explain_acceptance(s) {
            Some(rel) => rep.violation(&format!("C03/accepts-nonsentence/relax={}", rel), json!({"expression": s, "family": family})),
            None => rep.violation(
                "C03/accepts-nonsentence/unexplained",
                json!({"expression": s, "family": family, "reference_error": format!("{:?}", r.err())}),
            ),
        },
    }
    Verdict {
        reference_accepts: ref_ok,
        crate_accepts: crate_ok,
    }
}

fn note_distinct(rep: &mut Report, s: &str) {
    if let Ok(ts) = refimpl::lex::lex(s) {
        if ts.len() >= 4 {
            let kinds: Vec<u8> = ts.iter().map(|t| t.tok.kind()).collect();
            rep.nontrivial(fnv(&kinds));
        }
    }
}

pub fn run(args: &Args) {
    let mut rep = Report::new("C03");
    let strict = Opts::strict();
    // (1) exhaustive enumeration of short token sequences
    let maxlen: u32 = args.kv.get("enum-len").and_then(|v| v.parse().ok()).unwrap_or(3);
    let total = enumeration_size(maxlen);
    let mut i = args.shard;
    let mut enumerated = 0u64;
    while i < total {
        let seq = enumerate_pool(i, maxlen).unwrap();
        let s = render_pool(&seq);
        let v = check_one(&mut rep, &s, "enum", &strict, false);
        enumerated += 1;
        // the same tokens with a blank (or a line break) between every two of them: where tokens may not be
        // separated (`[ ?`, `| |`) this is a different sequence, where they may it must be the same sentence
        if seq.len() >= 2 && i % 2 == 0 {
            let sep = if i % 6 == 0 { "\n" } else { " " };
            let spaced = seq.join(sep);
            if spaced != s {
                check_one(&mut rep, &spaced, "enum-spaced", &strict, false);
            }
        }
        if seq.len() >= 3 {
            note_distinct(&mut rep, &s);
        }
        if v.crate_accepts && v.reference_accepts == Some(true) && seq.len() == 3 && i % 97 == 0 {
            rep.sample_family("enumerated-accepted", 2, json!(s));
        }
        i += args.shards;
    }
    rep.add("enumerated_sequences", enumerated);
    rep.extra.insert("enumeration_maxlen".into(), json!(maxlen));
    rep.extra.insert("enumeration_total".into(), json!(total));

    // (1b) every two-character operator with its second half replaced by a look-alike modulo 256 / 65536,
    // and such a character next to every significant character
    if args.shard == 0 {
        for s in refimpl::sentence::operator_twins() {
            check_one(&mut rep, &s, "truncation-twin", &strict, false);
        }
    }
    // (1c) sentences nested a few hundred levels deep (well below the depth of the known stack finding): every
    // bracket kind, around every power of two
    if args.shard == 1 % args.shards {
        for d in [100usize, 126, 127, 128, 129, 130, 200, 254, 255, 256, 257, 258, 300] {
            let fams: [(&str, String); 8] = [
                ("groups", format!("{}a{}", "(".repeat(d), ")".repeat(d))),
                ("lists", format!("{}a{}", "[".repeat(d), "]".repeat(d))),
                ("hashes", format!("{}a{}", "{k: ".repeat(d), "}".repeat(d))),
                ("nots", format!("{}a", "!".repeat(d))),
                ("calls", format!("{}a{}", "abs(".repeat(d), ")".repeat(d))),
                ("filters", format!("a{}{}", "[?a".repeat(d), "]".repeat(d))),
                ("group-or", format!("{}a{}", "(a || ".repeat(d), ")".repeat(d))),
                ("refs", format!("{}a{}", "map(&".repeat(d), ", @)".repeat(d))),
            ];
            for (_, text) in fams.iter() {
                check_one(&mut rep, text, "deep-nesting", &strict, false);
            }
        }
    }
    // (2) random families
    for k in 0..args.n {
        let mut rng = Rng::derive(args.seed, args.shard + 1000, k);
        let fam = rng.below(100);
        if fam < 30 {
            // ABNF sentence: must compile
            let mut parts = vec![];
            let budget = 3 + rng.below(14) as i32;
            SentenceGen::new(&mut rng, budget).expression(&mut parts);
            let s = join_tokens(&parts, &mut rng);
            let v = check_one(&mut rep, &s, "abnf-sentence", &strict, true);
            note_distinct(&mut rep, &s);
            if v.crate_accepts {
                rep.sample_family("abnf-sentence", 3, json!(s));
            }
            // truncations of the sentence (family f)
            if k % 8 == 0 {
                for t in truncations(&s) {
                    check_one(&mut rep, t, "truncation", &strict, false);
                }
            }
        } else if fam < 65 {
            let mut parts = vec![];
            let budget = 3 + rng.below(10) as i32;
            SentenceGen::new(&mut rng, budget).expression(&mut parts);
            let s = join_tokens(&parts, &mut rng);
            if let Some(m) = mutate_tokens(&s, &mut rng) {
                // every third mutant gets a second, independent edit (near-misses two tokens away)
                if k % 3 == 0 {
                    if let Some(m2) = mutate_tokens(&m, &mut rng) {
                        check_one(&mut rep, &m2, "two-token-mutant", &strict, false);
                        note_distinct(&mut rep, &m2);
                    }
                }
                let v = check_one(&mut rep, &m, "one-token-mutant", &strict, false);
                note_distinct(&mut rep, &m);
                if !v.crate_accepts {
                    rep.sample_family("one-token-mutant-rejected", 2, json!({"sentence": s, "mutant": m}));
                }
            }
        } else if fam < 66 {
            let s = refimpl::sentence::bracket_text_case(&mut rng);
            check_one(&mut rep, &s, "bracket-text", &strict, false);
            note_distinct(&mut rep, &s);
            rep.sample_family("bracket-text", 2, json!(s));
        } else if fam < 68 {
            // many small expressions side by side in one expression
            let s = refimpl::sentence::wide_case(&mut rng);
            check_one(&mut rep, &s, "wide", &strict, false);
            if k % 64 == 0 {
                note_distinct(&mut rep, &s);
            }
        } else if fam < 71 {
            // a sentence with one ASCII character replaced / followed by a character equal to it modulo 256 or 65536
            let mut parts = vec![];
            let budget = 2 + rng.below(8) as i32;
            SentenceGen::new(&mut rng, budget).expression(&mut parts);
            let s = join_tokens(&parts, &mut rng);
            if let Some(m) = refimpl::sentence::truncation_twin(&s, &mut rng) {
                check_one(&mut rep, &m, "truncation-twin", &strict, false);
                note_distinct(&mut rep, &m);
                rep.sample_family("truncation-twin", 2, json!(m));
            }
        } else if fam < 80 {
            let s = token_soup(&mut rng, 12);
            check_one(&mut rep, &s, "token-soup", &strict, false);
            note_distinct(&mut rep, &s);
            rep.sample_family("token-soup", 2, json!(s));
        } else if fam < 86 {
            let s = hostile_quoted_sentence(&mut rng);
            check_one(&mut rep, &s, "hostile-quoted-token", &strict, false);
            note_distinct(&mut rep, &s);
            rep.sample_family("hostile-quoted-token", 2, json!(s));
        } else if fam < 89 {
            let s = if rng.chance(1, 2) { refimpl::sentence::long_token_case(&mut rng) } else { refimpl::sentence::malformed_literal_case(&mut rng) };
            check_one(&mut rep, &s, "long-token", &strict, false);
            note_distinct(&mut rep, &s);
        } else if fam < 92 {
            let s = if rng.chance(2, 3) { refimpl::sentence::lookalike_case(&mut rng) } else { refimpl::sentence::surrogate_case(&mut rng) };
            check_one(&mut rep, &s, "unicode-lookalike", &strict, false);
            note_distinct(&mut rep, &s);
            rep.sample_family("unicode-lookalike", 2, json!(s));
        } else if fam < 96 {
            let s = char_soup(&mut rng, 40);
            check_one(&mut rep, &s, "char-soup", &strict, false);
            rep.sample_family("char-soup", 2, json!(s));
        } else {
            let s = numeric_edge(&mut rng);
            check_one(&mut rep, &s, "numeric-edge", &strict, false);
            rep.sample_family("numeric-edge", 2, json!(s));
        }
    }
    emit_report(args, &rep);
}
