//! C04 — operators bind by the documented precedence; projections extend as specified.
//! Oracle: (1) reference Pratt tree vs the public Ast, both in pipeline normal
//! form; (2) metamorphic: explicit parentheses never change tree or results.

use crate::common::*;
use refimpl::gen::{gen_doc, mutate_doc, GenCfg, TreeGen};
use refimpl::nf::{canon, walk, Step};
use refimpl::parse::{parse, Opts};
use refimpl::print::{minimize_parens, respace, Printer};
use refimpl::rng::{fnv, Rng};
use refimpl::sentence::{join_tokens, SentenceGen};
use serde_json::{json, Value};

#[derive(PartialEq, Debug)]
pub enum Outcome {
    Agree,
    TieSensitive,
    KnownDotList,
    Mismatch,
    NotComparable,
}

const SYMS: [&str; 21] = [
    "!=", ">", "<=", "|", "||", "&&", "==", "<", ">=", ".", "!", "[0]", "[*]", "[]", "[?x]", ".*", "[1:]", "[::-1]", ".f(@)", ".[y]", ".{k:y}",
];
const OPERANDS: [&str; 8] = ["a", "b", "c", "d", "e", "g", "h", "i"];

/// Operands that do not start with an identifier: bare bracket forms (a projection / index /
/// flatten / filter applied to the current node), `*`, `@`, literals, groups, multi-selects, calls.
const STARTS: [&str; 14] = ["[]", "[?x]", "[*]", "[0]", "[1:]", "*", "@", "`1`", "'s'", "(b)", "[c]", "{k:d}", "f(e)", "a"];

/// Build the expression for a sequence of operator symbols.
pub fn soup(seq: &[usize]) -> String {
    soup_with(seq, None)
}

/// As `soup`, but operands that stand at the start of an operand position (the first one and
/// those after a binary operator, not those after a dot) are taken from `STARTS`, rotated by `rot`.
pub fn soup_with(seq: &[usize], rot: Option<usize>) -> String {
    let mut s = String::new();
    let mut lead_nots = 0;
    let mut pending = 0;
    let mut next_operand = 1;
    let start = |k: usize| -> &'static str {
        match rot {
            Some(r) => STARTS[(r + 5 * k) % STARTS.len()],
            None => OPERANDS[k % OPERANDS.len()],
        }
    };
    let mut body = String::from(start(0));
    for &k in seq {
        let sym = SYMS[k];
        match sym {
            "!" => pending += 1,
            "|" | "||" | "&&" | "==" | "<" | ">=" | "!=" | ">" | "<=" => {
                body.push(' ');
                body.push_str(sym);
                body.push(' ');
                for _ in 0..pending {
                    body.push('!');
                }
                pending = 0;
                body.push_str(start(next_operand));
                next_operand += 1;
            }
            "." => {
                lead_nots += pending;
                pending = 0;
                body.push('.');
                body.push_str(OPERANDS[next_operand % OPERANDS.len()]);
                next_operand += 1;
            }
            post => {
                body.push_str(post);
            }
        }
    }
    lead_nots += pending;
    for _ in 0..lead_nots {
        s.push('!');
    }
    s.push_str(&body);
    s
}

fn variants() -> Vec<(Opts, bool, bool)> {
    // (opts, is_canonical_tie, dot_list_stops)
    let mut v = vec![];
    for dls in [false, true] {
        for (sb, fb) in [(20u32, 21u32), (20, 20)] {
            let o = Opts {
                dot_list_stops: dls,
                ..Opts::with_tie(sb, fb)
            };
            v.push((o, sb == 20 && fb == 21, dls));
        }
    }
    v
}

/// Compare the crate's tree of `text` with the reference tree(s).
pub fn compare_tree(rep: &mut Report, text: &str, family: &str) -> (Outcome, Option<String>) {
    rep.evaluations += 1;
    let strict = Opts::strict();
    let r = parse(text, &strict);
    let c = guarded(|| jmespath::parse(text));
    let ast = match c {
        Ok(Ok(a)) => a,
        Ok(Err(e)) => {
            // A sentence the precedence rules give a tree to, refused: an operator was attached to
            // the wrong operand (e.g. a call applied to `a.f` instead of `f`) and the result no longer
            // fits the grammar. That is a binding error even though it surfaces as a rejection.
            if r.is_ok() && !text.contains("2147483648") {
                rep.violation("C04/expression-with-a-defined-tree-rejected", json!({"expression": text, "family": family, "error": err_json(&e)}));
                return (Outcome::Mismatch, None);
            }
            return (Outcome::NotComparable, None);
        }
        Err(p) => {
            rep.violation(&format!("C04/panic-in-parse/{}", panic_site(&p)), json!({"expression": text, "panic": p}));
            return (Outcome::NotComparable, None);
        }
    };
    let want = match r {
        Ok(t) => t,
        Err(_) => {
            rep.count("compiles_only_by_a_C03_deviation_skipped");
            return (Outcome::NotComparable, None);
        }
    };
    let got = match lift(&ast) {
        Ok(p) => canon(&p),
        Err(u) => {
            rep.violation("C04/unliftable-ast-shape", json!({"expression": text, "shape": u.0, "family": family}));
            return (Outcome::Mismatch, None);
        }
    };
    // as_ast() of a compiled expression must be the same tree as parse()
    if let Ok(Ok(e)) = guarded(|| jmespath::compile(text)) {
        if e.as_ast() != &ast {
            rep.violation("C04/as_ast-differs-from-parse", json!({"expression": text}));
        }
    }
    // the Display of a tree is its pretty Debug form (what `jp --ast` prints)
    if ast.to_string() != format!("{:#?}", ast) {
        rep.violation("C04/ast-display-is-not-pretty-debug", json!({"expression": text}));
    }
    if got == canon(&want) {
        rep.count(&format!("agree/{}", family));
        return (Outcome::Agree, Some(got));
    }
    for (o, canonical, dls) in variants() {
        if canonical && !dls {
            continue;
        }
        if let Ok(t) = parse(text, &o) {
            if canon(&t) == got {
                if dls {
                    rep.violation(
                        "C04/projection-rhs-ends-after-dot-multiselect-list",
                        json!({"expression": text, "crate_tree": got, "reference_tree": canon(&want), "family": family}),
                    );
                    return (Outcome::KnownDotList, Some(got));
                } else {
                    rep.count("tie_sensitive_inputs");
                    return (Outcome::TieSensitive, Some(got));
                }
            }
        }
    }
    rep.violation(
        "C04/tree-mismatch",
        json!({"expression": text, "crate_tree": got, "reference_tree": canon(&want), "family": family}),
    );
    (Outcome::Mismatch, Some(got))
}

fn op_kinds(text: &str) -> usize {
    // number of distinct binding powers among the operator tokens
    use refimpl::lex::Tok::*;
    let mut set = std::collections::BTreeSet::new();
    if let Ok(ts) = refimpl::lex::lex(text) {
        for t in ts {
            let bp = match t.tok {
                Pipe => 1,
                Or => 2,
                And => 3,
                Eq | Ne | Lt | Lte | Gt | Gte => 5,
                Flatten => 9,
                Star => 20,
                Filter => 21,
                Dot => 40,
                Not => 45,
                LBracket => 55,
                LParen => 60,
                _ => 0,
            };
            if bp > 0 {
                set.insert(bp);
            }
        }
    }
    set.len()
}

fn search_json(text: &str, doc: &Value) -> Result<String, String> {
    let e = jmespath::compile(text).map_err(|e| format!("compile:{}", err_class(&e)))?;
    match e.search(rcvar_of(doc)) {
        Ok(v) => Ok(v.to_string()),
        Err(e) => Err(format!("search:{}", err_class(&e))),
    }
}

pub fn run(args: &Args) {
    let mut rep = Report::new("C04");
    // (A) exhaustive operator soups
    let maxlen: u32 = args.kv.get("enum-len").and_then(|v| v.parse().ok()).unwrap_or(3);
    let k = SYMS.len() as u64;
    let total: u64 = (1..=maxlen).map(|l| k.pow(l)).sum();
    let mut i = args.shard;
    let mut enumerated = 0u64;
    while i < total {
        let mut j = i;
        let mut seq = vec![];
        for len in 1..=maxlen {
            let c = k.pow(len);
            if j < c {
                for _ in 0..len {
                    seq.push((j % k) as usize);
                    j /= k;
                }
                break;
            }
            j -= c;
        }
        let text = soup(&seq);
        let (o, tree) = compare_tree(&mut rep, &text, "enum-soup");
        enumerated += 1;
        // the same operator sequence in the places where an expression ends at a delimiter of its
        // own: the body of an expression reference, a call argument, members of multi-selects, a
        // filter predicate, a parenthesis that is itself continued
        {
            let text2 = soup_with(&seq, Some((i % 14) as usize));
            let (o2, _) = compare_tree(&mut rep, &text2, "enum-soup-bracket-operands");
            if o2 != Outcome::NotComparable && i % 3 == 0 {
                let ctx2 = match (i / 3) % 4 {
                    0 => format!("[{}, z]", text2),
                    1 => format!("[z, {}]", text2),
                    2 => format!("{{k: {}}}", text2),
                    _ => format!("f({}, z)", text2),
                };
                compare_tree(&mut rep, &ctx2, "enum-soup-bracket-operands-in-context");
            }
        }
        if o != Outcome::NotComparable {
            let ctx = match i % 9 {
                7 => format!("[{}, z]", text),
                8 => format!("f({})[{}]", text, text),
                0 => format!("f(&{}, z)", text),
                1 => format!("f(z, &{})", text),
                2 => format!("f({}, z)", text),
                3 => format!("[z, {}]", text),
                4 => format!("{{k: {}, j: z}}", text),
                5 => format!("z[?{}].y", text),
                _ => format!("({}).y[0]", text),
            };
            compare_tree(&mut rep, &ctx, "enum-soup-in-context");
        }
        if o != Outcome::NotComparable && op_kinds(&text) >= 2 {
            rep.nontrivial(fnv(text.as_bytes()));
            if i % 1009 == 0 {
                rep.sample_family("operator-soup", 4, json!({"expression": text, "normal_form": tree}));
            }
        }
        i += args.shards;
    }
    rep.add("enumerated_operator_sequences", enumerated);
    rep.extra.insert("enumeration_maxlen".into(), json!(maxlen));
    rep.extra.insert("enumeration_total".into(), json!(total));

    // (B) random ABNF sentences, (C) metamorphic parenthesisation of generated trees
    let strict = Opts::strict();
    let mut wide_done = 0u32; // (a tree several hundred operands wide costs about a second to compare: at most 150 per shard)
    for n in 0..args.n {
        let mut rng = Rng::derive(args.seed, args.shard + 2000, n);
        if n % 32 == 7 {
            // delimiter characters as text inside groups, multi-selects, filters and calls
            let text = refimpl::sentence::bracket_text_case(&mut rng);
            let (o, _) = compare_tree(&mut rep, &text, "bracket-text");
            if o != Outcome::NotComparable && n % 128 == 7 {
                rep.nontrivial(fnv(text.as_bytes()));
            }
        } else if n % 512 == 6 && wide_done < 150 {
            wide_done += 1;
            // many small expressions side by side (nothing deep): the tree is the reference's, whatever the count
            // (comparing trees several hundred operands wide costs about a second each: a few dozen per shard)
            let text = refimpl::sentence::wide_case_upto(&mut rng, 260);
            let (o, _) = compare_tree(&mut rep, &text, "wide");
            if o != Outcome::NotComparable {
                rep.nontrivial(fnv(text.as_bytes()));
            }
        } else if n % 2 == 0 {
            let mut parts = vec![];
            let budget = 4 + rng.below(16) as i32;
            SentenceGen::new(&mut rng, budget).expression(&mut parts);
            let text = join_tokens(&parts, &mut rng);
            let (o, _) = compare_tree(&mut rep, &text, "abnf-sentence");
            if o != Outcome::NotComparable && op_kinds(&text) >= 2 {
                rep.nontrivial(fnv(text.as_bytes()));
                rep.sample_family("abnf-sentence", 2, json!(text));
            }
        } else {
            let base = gen_doc(&mut rng, 4);
            let tree = {
                let mut g = TreeGen {
                    rng: &mut rng,
                    cfg: GenCfg { calls: true, depth: 3 },
                };
                g.pipeline(&base, 3, 5)
            };
            let full = match Printer::new(&mut rng).emit(&tree) {
                Ok(t) => t,
                Err(_) => {
                    rep.count("unprintable_tree_skipped");
                    continue;
                }
            };
            let want = canon(&tree);
            match parse(&full, &strict) {
                Ok(q) if canon(&q) == want => {}
                _ => {
                    rep.harness_error(format!("printer/parser self-check failed for {:?}", full));
                    continue;
                }
            }
            let minimal = respace(&minimize_parens(&full, &mut rng, 100, &strict), &mut rng);
            let (o1, t1) = compare_tree(&mut rep, &full, "generated-full-parens");
            let (o2, t2) = compare_tree(&mut rep, &minimal, "generated-minimal-parens");
            let comparable = |o: &Outcome| matches!(o, Outcome::Agree);
            if comparable(&o1) && comparable(&o2) {
                if t1 != t2 {
                    rep.violation(
                        "C04/parentheses-change-tree",
                        json!({"minimal": minimal, "parenthesised": full, "tree_minimal": t2, "tree_parenthesised": t1}),
                    );
                }
                let mut ops = 0;
                walk(&tree, &mut |s| {
                    if !matches!(s, Step::Field(_) | Step::Literal(_)) {
                        ops += 1;
                    }
                });
                if ops >= 2 && minimal.matches('(').count() < full.matches('(').count() {
                    rep.nontrivial(fnv(minimal.as_bytes()));
                    rep.sample_family("parenthesised-twin", 3, json!({"minimal": minimal, "parenthesised": full}));
                }
                // results on 4 documents
                let mut docs = vec![base.clone()];
                for _ in 0..2 {
                    docs.push(mutate_doc(&mut rng, &base));
                }
                docs.push(gen_doc(&mut rng, 3));
                for d in &docs {
                    rep.evaluations += 1;
                    let a = guarded(|| search_json(&minimal, d));
                    let b = guarded(|| search_json(&full, d));
                    match (a, b) {
                        (Ok(x), Ok(y)) => {
                            if x == y {
                                rep.count("metamorphic_results_equal");
                            } else {
                                rep.violation(
                                    "C04/parentheses-change-result",
                                    json!({"minimal": minimal, "parenthesised": full, "document": d, "result_minimal": format!("{:?}", x), "result_parenthesised": format!("{:?}", y)}),
                                );
                            }
                        }
                        (a, b) => rep.violation(
                            "C04/panic-in-search",
                            json!({"minimal": minimal, "parenthesised": full, "document": d, "a": format!("{:?}", a), "b": format!("{:?}", b)}),
                        ),
                    }
                }
            }
        }
    }
    emit_report(args, &rep);
}
