//! C14 — serde bridge: typed values are searched as their JSON image and decode
//! back. Oracle: serde_json itself on the same value / the same JSON.

use crate::common::*;
use jmespath::{ToJmespath, Variable};
use refimpl::json::val_identical;
use refimpl::rng::{fnv, Rng};
use serde::de::DeserializeOwned;
use serde::Serialize;
use serde_derive::{Deserialize, Serialize};
use serde_json::{json, Value};
use std::collections::{BTreeMap, HashMap};
use std::convert::TryFrom;
use std::fmt::Debug;

#[derive(Serialize, Deserialize, PartialEq, Debug, Clone)]
struct Named {
    a: i32,
    b: String,
    c: Option<f64>,
    d: Vec<u8>,
}

#[derive(Serialize, Deserialize, PartialEq, Debug, Clone)]
struct TupleS(i32, String);

#[derive(Serialize, Deserialize, PartialEq, Debug, Clone)]
struct Newtype(u64);

#[derive(Serialize, Deserialize, PartialEq, Debug, Clone)]
struct UnitS;

#[derive(Serialize, Deserialize, PartialEq, Debug, Clone)]
enum Ext {
    Unit,
    Newtype(i32),
    Tuple(i32, String),
    Struct { a: i32, b: bool },
}

/// Newtype variants whose payload legitimately serialises to null.
#[derive(Serialize, Deserialize, PartialEq, Debug, Clone)]
enum Nullable {
    Opt(Option<u32>),
    Unit(()),
    UnitStruct(UnitS),
    OptOpt(Option<Option<bool>>),
    Plain,
    Seq(Vec<Option<i8>>),
}

#[derive(Serialize, Deserialize, PartialEq, Debug, Clone)]
#[serde(tag = "t")]
enum Internal {
    A { x: i32 },
    B { y: String },
    C,
}

#[derive(Serialize, Deserialize, PartialEq, Debug, Clone)]
#[serde(tag = "t", content = "c")]
enum Adjacent {
    A(i32),
    B { y: String },
    C,
    D(i32, i32),
}

#[derive(Serialize, Deserialize, PartialEq, Debug, Clone)]
#[serde(untagged)]
enum Untagged {
    I(i64),
    S(String),
    V(Vec<i32>),
    M { a: i32 },
}

#[derive(Serialize, Deserialize, PartialEq, Debug, Clone)]
struct Inner {
    #[serde(rename = "renamed-key")]
    x: i16,
    y: Option<Box<Inner>>,
}

#[derive(Serialize, Deserialize, PartialEq, Debug, Clone)]
struct Flat {
    id: u32,
    #[serde(flatten)]
    rest: BTreeMap<String, i32>,
}

#[derive(Serialize, Deserialize, PartialEq, Debug, Clone)]
struct Deep {
    e: Ext,
    n: Named,
    t: (u8, i8, String),
    o: Option<Option<i32>>,
    m: BTreeMap<String, Vec<Ext>>,
    u: UnitS,
    inner: Inner,
}

// Shapes whose Serialize impl emits the SAME key twice into one map: serde_json keeps the last.
#[derive(Serialize, PartialEq, Debug, Clone)]
struct DupInner {
    kind: String,
    v: i32,
}

#[derive(Serialize, PartialEq, Debug, Clone)]
struct DupFlatten {
    kind: String,
    #[serde(flatten)]
    inner: DupInner,
    #[serde(flatten)]
    more: BTreeMap<String, String>,
}

#[derive(Serialize, PartialEq, Debug, Clone)]
struct Blob {
    #[serde(rename = "type")]
    ty: String,
    n: u8,
}

#[derive(Serialize, PartialEq, Debug, Clone)]
#[serde(tag = "type")]
enum DupTag {
    Data(Blob),
    Other { n: u8 },
}

/// A hand-written map serializer that repeats a key.
#[derive(PartialEq, Debug, Clone)]
struct DupMap(Vec<(String, i32)>);
impl Serialize for DupMap {
    fn serialize<S: serde::Serializer>(&self, s: S) -> Result<S::Ok, S::Error> {
        use serde::ser::SerializeMap;
        let mut m = s.serialize_map(Some(self.0.len()))?;
        for (k, v) in &self.0 {
            m.serialize_entry(k, v)?;
        }
        m.end()
    }
}

/// Calls serialize_bytes.
#[derive(PartialEq, Debug, Clone)]
struct Bytes(Vec<u8>);
impl Serialize for Bytes {
    fn serialize<S: serde::Serializer>(&self, s: S) -> Result<S::Ok, S::Error> {
        s.serialize_bytes(&self.0)
    }
}

// ---- second zoo: map-key kinds, container attributes, std impls --------------------
#[derive(Serialize, Deserialize, PartialEq, Eq, PartialOrd, Ord, Hash, Debug, Clone)]
struct UserId(String);

#[derive(Serialize, Deserialize, PartialEq, Eq, PartialOrd, Ord, Hash, Debug, Clone, Copy)]
enum Color {
    Red,
    Green,
    #[serde(rename = "b l u e")]
    Blue,
}

/// Trailing fields may be missing from a short array.
#[derive(Serialize, Deserialize, PartialEq, Debug, Clone)]
struct Version(u32, #[serde(default)] u32, #[serde(default)] u32);

#[derive(Serialize, Deserialize, PartialEq, Debug, Clone)]
#[serde(rename_all = "camelCase", deny_unknown_fields)]
struct Strict {
    first_name: String,
    #[serde(default)]
    age_years: u8,
    #[serde(alias = "nick", skip_serializing_if = "Option::is_none", default)]
    nick_name: Option<String>,
}

#[derive(Serialize, Deserialize, PartialEq, Debug, Clone)]
#[serde(default)]
struct AllDefault {
    a: i32,
    b: String,
    c: Vec<u8>,
}
impl Default for AllDefault {
    fn default() -> Self {
        AllDefault { a: 7, b: "dflt".into(), c: vec![1] }
    }
}

#[derive(Serialize, Deserialize, PartialEq, Debug, Clone)]
enum WithOther {
    A,
    B,
    #[serde(other)]
    Unknown,
}

#[derive(Serialize, Deserialize, PartialEq, Debug, Clone)]
#[serde(rename_all = "SCREAMING_SNAKE_CASE")]
enum Shout {
    FirstOne,
    SecondOne { inner_field: i8 },
}

#[derive(Serialize, Deserialize, PartialEq, Debug, Clone)]
struct StdZoo {
    d: std::time::Duration,
    ip: std::net::IpAddr,
    nz: std::num::NonZeroU8,
    r: Result<i32, String>,
    rg: std::ops::Range<i32>,
    set: std::collections::BTreeSet<u8>,
    dq: std::collections::VecDeque<i8>,
    one: (i32,),
    cow: std::borrow::Cow<'static, str>,
    bx: Box<Option<i16>>,
    ph: std::marker::PhantomData<u8>,
    bound: std::ops::Bound<u8>,
    wrap: std::num::Wrapping<u8>,
    path: std::path::PathBuf,
    arr0: [u8; 0],
    nested: Option<Vec<Option<(bool, char)>>>,
}

#[derive(Serialize, Deserialize, PartialEq, Debug, Clone)]
// (Integer-keyed maps are outside C14's quantifier — "string-keyed maps": serde_json
// spells integer keys as strings, this crate refuses them with KeyMustBeAString.)
struct Keyed {
    by_id: BTreeMap<UserId, u32>,
    by_char: BTreeMap<char, u8>,
    by_color: BTreeMap<Color, i8>,
}

/// Enums that serde decodes through its buffered `Content` (internally tagged / untagged), holding maps
/// whose keys look like numbers.
#[derive(Serialize, Deserialize, PartialEq, Debug, Clone)]
#[serde(tag = "type")]
enum ScoreReport {
    Scores { by_player: BTreeMap<String, i32> },
    Note { text: String },
}

#[derive(Serialize, Deserialize, PartialEq, Debug, Clone)]
#[serde(untagged)]
enum Shape {
    Point { x: i32, y: i32 },
    Named(BTreeMap<String, i32>),
}

/// Names that are empty, blank or look like numbers — for variants (of data-carrying variants too) and fields.
#[derive(Serialize, Deserialize, PartialEq, Debug, Clone)]
enum OddNames {
    #[serde(rename = "")]
    Cells(u8, u8),
    #[serde(rename = " ")]
    Line { from: u8, #[serde(rename = "")] to: u8 },
    #[serde(rename = "0")]
    Zero(i8),
    #[serde(rename = "null")]
    Null,
    #[serde(rename = "\u{0}")]
    Nul(Vec<u8>),
}

#[derive(Serialize, Deserialize, PartialEq, Debug, Clone)]
struct OddFields {
    #[serde(rename = "")]
    anon: i32,
    #[serde(rename = " ")]
    blank: String,
    #[serde(rename = "0")]
    zero: Option<OddNames>,
    row: Vec<OddNames>,
}

/// Tuple variants whose trailing fields may be missing: arrays shorter than the variant (one element, none).
#[derive(Serialize, Deserialize, PartialEq, Debug, Clone)]
enum Loose {
    Ver(u32, #[serde(default)] u32),
    Pair(#[serde(default)] u8, #[serde(default)] u8),
    Three(String, #[serde(default)] Option<i8>, #[serde(default)] Vec<u8>),
}

/// Refuses members it does not know, however many of them there are.
#[derive(Serialize, Deserialize, PartialEq, Debug, Clone)]
#[serde(deny_unknown_fields)]
struct Point2 {
    x: i32,
    y: i32,
}

/// Hand-written impls: the `fields` list handed to `deserialize_struct` is only a hint — the visitor decides
/// which members it understands (a legacy spelling here; every member there).
#[derive(PartialEq, Debug, Clone)]
struct Paint {
    color: Option<String>,
}
impl<'de> serde::Deserialize<'de> for Paint {
    fn deserialize<D: serde::Deserializer<'de>>(d: D) -> Result<Self, D::Error> {
        struct V;
        impl<'de> serde::de::Visitor<'de> for V {
            type Value = Paint;
            fn expecting(&self, f: &mut std::fmt::Formatter) -> std::fmt::Result {
                f.write_str("a paint")
            }
            fn visit_map<A: serde::de::MapAccess<'de>>(self, mut m: A) -> Result<Paint, A::Error> {
                let mut color = None;
                while let Some(k) = m.next_key::<String>()? {
                    if k == "color" || k == "colour" {
                        color = Some(m.next_value::<String>()?);
                    } else {
                        m.next_value::<serde::de::IgnoredAny>()?;
                    }
                }
                Ok(Paint { color })
            }
        }
        d.deserialize_struct("Paint", &["color"], V)
    }
}

#[derive(PartialEq, Debug, Clone)]
struct KeysSeen(Vec<String>);
impl<'de> serde::Deserialize<'de> for KeysSeen {
    fn deserialize<D: serde::Deserializer<'de>>(d: D) -> Result<Self, D::Error> {
        struct V;
        impl<'de> serde::de::Visitor<'de> for V {
            type Value = KeysSeen;
            fn expecting(&self, f: &mut std::fmt::Formatter) -> std::fmt::Result {
                f.write_str("a map")
            }
            fn visit_map<A: serde::de::MapAccess<'de>>(self, mut m: A) -> Result<KeysSeen, A::Error> {
                let mut seen = vec![];
                while let Some(k) = m.next_key::<String>()? {
                    m.next_value::<serde::de::IgnoredAny>()?;
                    seen.push(k);
                }
                Ok(KeysSeen(seen))
            }
            fn visit_seq<A: serde::de::SeqAccess<'de>>(self, mut q: A) -> Result<KeysSeen, A::Error> {
                let mut n = 0;
                while q.next_element::<serde::de::IgnoredAny>()?.is_some() {
                    n += 1;
                }
                Ok(KeysSeen(vec![format!("<{} elements>", n)]))
            }
        }
        d.deserialize_struct("KeysSeen", &[], V)
    }
}

/// The same through `deserialize_tuple_struct` / `deserialize_tuple` / `deserialize_enum` hints that say less than the data.
#[derive(PartialEq, Debug, Clone)]
struct AnyLen(usize);
impl<'de> serde::Deserialize<'de> for AnyLen {
    fn deserialize<D: serde::Deserializer<'de>>(d: D) -> Result<Self, D::Error> {
        struct V;
        impl<'de> serde::de::Visitor<'de> for V {
            type Value = AnyLen;
            fn expecting(&self, f: &mut std::fmt::Formatter) -> std::fmt::Result {
                f.write_str("a sequence")
            }
            fn visit_seq<A: serde::de::SeqAccess<'de>>(self, mut q: A) -> Result<AnyLen, A::Error> {
                let mut n = 0;
                while q.next_element::<serde::de::IgnoredAny>()?.is_some() {
                    n += 1;
                }
                Ok(AnyLen(n))
            }
        }
        d.deserialize_tuple(1, V)
    }
}

/// A map key whose own `Serialize` refuses.
#[derive(Debug, Clone, PartialEq, Eq, PartialOrd, Ord)]
struct RefusingKey(u8);
impl Serialize for RefusingKey {
    fn serialize<S: serde::Serializer>(&self, _: S) -> Result<S::Ok, S::Error> {
        Err(serde::ser::Error::custom("this key refuses to be serialised"))
    }
}

/// Struct variants whose payload may legitimately be the empty map.
#[derive(Serialize, Deserialize, PartialEq, Debug, Clone)]
enum Cmd {
    Flush {},
    Open {
        #[serde(default)]
        path: Option<String>,
        #[serde(default)]
        mode: u8,
    },
    Retry {
        #[serde(default, skip_serializing_if = "Option::is_none")]
        n: Option<u32>,
    },
    Close,
}

/// Asks the deserializer for bytes and takes whatever it is handed: bytes, a string, or a sequence.
#[derive(Debug, PartialEq, Clone)]
struct Blobish(Vec<u8>);
impl<'de> serde::Deserialize<'de> for Blobish {
    fn deserialize<D: serde::Deserializer<'de>>(d: D) -> Result<Self, D::Error> {
        struct V;
        impl<'de> serde::de::Visitor<'de> for V {
            type Value = Blobish;
            fn expecting(&self, f: &mut std::fmt::Formatter) -> std::fmt::Result {
                f.write_str("bytes, a string or a sequence of bytes")
            }
            fn visit_bytes<E: serde::de::Error>(self, v: &[u8]) -> Result<Blobish, E> {
                Ok(Blobish(v.to_vec()))
            }
            fn visit_str<E: serde::de::Error>(self, v: &str) -> Result<Blobish, E> {
                Ok(Blobish(v.as_bytes().to_vec()))
            }
            fn visit_seq<A: serde::de::SeqAccess<'de>>(self, mut a: A) -> Result<Blobish, A::Error> {
                let mut out = vec![];
                while let Some(b) = a.next_element::<u8>()? {
                    out.push(b);
                }
                Ok(Blobish(out))
            }
        }
        if std::env::var_os("C14_BLOBISH_BUF").is_some() { d.deserialize_byte_buf(V) } else { d.deserialize_bytes(V) }
    }
}

/// Rows that differ only in numbers the crate's tolerant `==` calls equal.
#[derive(Serialize, Deserialize, PartialEq, Debug, Clone)]
struct Sample {
    sensor: String,
    t_ns: u64,
    v: f64,
    tags: Vec<i64>,
}

/// A value whose own `Serialize` refuses, however deep it sits.
#[derive(Debug, Clone, PartialEq)]
struct Refuses;
impl Serialize for Refuses {
    fn serialize<S: serde::Serializer>(&self, _: S) -> Result<S::Ok, S::Error> {
        Err(serde::ser::Error::custom("this value refuses to be serialised"))
    }
}

/// `depth` arrays (or single-member objects) around a leaf.
fn nested_value(depth: usize, objects: bool) -> Value {
    let mut v = json!(7);
    for d in 0..depth {
        v = if objects && d % 2 == 0 { json!({ "k": v }) } else { Value::Array(vec![v]) };
    }
    v
}

fn gstdzoo(r: &mut Rng) -> StdZoo {
    StdZoo {
        d: std::time::Duration::new(r.below(5) as u64, r.below(1000) as u32),
        ip: ["127.0.0.1", "::1", "10.0.0.255", "fe80::1"][r.below(4)].parse().unwrap(),
        nz: std::num::NonZeroU8::new(1 + r.below(255) as u8).unwrap(),
        r: if r.chance(1, 2) { Ok(gi(r, -9, 9)) } else { Err(gstr(r)) },
        rg: gi(r, -9, 9)..gi(r, -9, 9),
        set: (0..r.below(4)).map(|_| gi::<u8>(r, 0, 9)).collect(),
        dq: (0..r.below(4)).map(|_| gi::<i8>(r, -9, 9)).collect(),
        one: (gi(r, -9, 9),),
        cow: std::borrow::Cow::Owned(gstr(r)),
        bx: Box::new(if r.chance(1, 2) { None } else { Some(gi(r, -9, 9)) }),
        ph: std::marker::PhantomData,
        bound: [std::ops::Bound::Unbounded, std::ops::Bound::Included(3), std::ops::Bound::Excluded(gi(r, 0, 9))][r.below(3)],
        wrap: std::num::Wrapping(gi(r, 0, 255)),
        path: std::path::PathBuf::from(["", "/a/b", "c.txt", "é"][r.below(4)]),
        arr0: [],
        nested: [None, Some(vec![]), Some(vec![None, Some((true, 'x'))])][r.below(3)].clone(),
    }
}

fn gkeyed(r: &mut Rng) -> Keyed {
    Keyed {
        by_id: (0..r.below(3)).map(|_| (UserId(gstr(r)), gi(r, 0, 9))).collect(),
        by_char: (0..r.below(3)).map(|_| (['a', 'é', '1', '"'][r.below(4)], gi(r, 0, 9))).collect(),
        by_color: (0..r.below(3)).map(|_| ([Color::Red, Color::Green, Color::Blue][r.below(3)], gi(r, -9, 9))).collect(),
    }
}

fn gstr(rng: &mut Rng) -> String {
    ["", "a", "Unit", "é日", "\u{1F600}", "a b", "t", "x\"y\\"][rng.below(8)].to_string()
}

fn gf64(rng: &mut Rng) -> f64 {
    [0.0, -0.0, 1.5, -2.25, 1e300, 5e-324, f64::NAN, f64::INFINITY, f64::NEG_INFINITY, 3.0, 0.1][rng.below(11)]
}

fn gi<T: TryFrom<i128>>(rng: &mut Rng, min: i128, max: i128) -> T
where
    <T as TryFrom<i128>>::Error: Debug,
{
    let v = match rng.below(6) {
        0 => min,
        1 => max,
        2 => 0.max(min),
        3 => 1.min(max),
        4 => (-1i128).max(min),
        _ => min + (rng.next_u64() as i128).rem_euclid(max - min + 1),
    };
    T::try_from(v).unwrap()
}

fn gnamed(rng: &mut Rng) -> Named {
    Named {
        a: gi(rng, i32::MIN as i128, i32::MAX as i128),
        b: gstr(rng),
        c: if rng.chance(1, 3) { None } else { Some(gf64(rng)) },
        d: (0..rng.below(4)).map(|_| gi(rng, 0, 255)).collect(),
    }
}

fn gext(rng: &mut Rng) -> Ext {
    match rng.below(4) {
        0 => Ext::Unit,
        1 => Ext::Newtype(gi(rng, i32::MIN as i128, i32::MAX as i128)),
        2 => Ext::Tuple(gi(rng, -5, 5), gstr(rng)),
        _ => Ext::Struct { a: gi(rng, -5, 5), b: rng.chance(1, 2) },
    }
}

fn ginner(rng: &mut Rng, d: usize) -> Inner {
    Inner {
        x: gi(rng, i16::MIN as i128, i16::MAX as i128),
        y: if d == 0 || rng.chance(1, 2) { None } else { Some(Box::new(ginner(rng, d - 1))) },
    }
}

/// Serialisation: the crate's image of `v` must be exactly serde_json's.
fn check_ser<T: Serialize + Debug>(rep: &mut Report, v: &T, tname: &str) -> Option<Value> {
    rep.evaluations += 1;
    let want = serde_json::to_value(v);
    let got = guarded(|| Variable::from_serializable(v));
    let got2 = guarded(|| v.to_jmespath());
    let w = |why: &str, g: String| json!({"type": tname, "value": format!("{:?}", v), "serde_json": format!("{:?}", want), "crate": g, "why": why});
    match (&want, got) {
        (Ok(j), Ok(Ok(var))) => match value_of(&var) {
            Ok(gv) if val_identical(&gv, j) => {
                // to_jmespath and searching the typed value must agree as well
                match got2 {
                    Ok(Ok(rc)) if value_of(&rc).map_or(false, |x| val_identical(&x, j)) => {}
                    other => {
                        rep.violation(&format!("C14/to_jmespath-differs/{}", tname), w("to_jmespath", format!("{:?}", other.map(|r| r.map(|v| v.to_string())))));
                        return None;
                    }
                }
                rep.count(&format!("ser_agree/{}", tname));
                Some(j.clone())
            }
            other => {
                rep.violation(&format!("C14/serialised-image-differs/{}", tname), w("from_serializable", format!("{:?}", other)));
                None
            }
        },
        (Err(_), Ok(Err(_))) => {
            rep.count("ser_both_fail");
            None
        }
        (_, Ok(g)) => {
            rep.violation(&format!("C14/serialisation-success-differs/{}", tname), w("one side failed", format!("{:?}", g.map(|v| v.to_string()))));
            None
        }
        (_, Err(p)) => {
            rep.violation(&format!("C14/panic/{}", panic_site(&p)), w("panic", p));
            None
        }
    }
}

/// Deserialisation: T from the library value vs T from the same JSON via serde_json.
fn check_de<T: DeserializeOwned + PartialEq + Debug>(rep: &mut Report, j: &Value, tname: &str, own: bool) {
    rep.evaluations += 1;
    let want = serde_json::from_value::<T>(j.clone());
    let var = var_of(j);
    let got = guarded(|| T::deserialize(var));
    let w = |g: String| json!({"type": tname, "json": j, "serde_json": format!("{:?}", want), "crate": g});
    match (&want, got) {
        (Ok(a), Ok(Ok(b))) => {
            if a == &b || format!("{:?}", a) == format!("{:?}", b) {
                rep.count(if own { "de_agree_ok/own" } else { "de_agree_ok/foreign" });
                rep.nontrivial(fnv(tname.as_bytes()) ^ fnv(j.to_string().as_bytes()));
            } else {
                rep.violation(&format!("C14/deserialised-value-differs/{}", tname), w(format!("{:?}", b)));
            }
        }
        (Err(_), Ok(Err(_))) => rep.count(if own { "de_agree_err/own" } else { "de_agree_err/foreign" }),
        (Ok(_), Ok(Err(e))) => rep.violation(&format!("C14/rejects-what-serde_json-accepts/{}", tname), w(format!("Err({})", e))),
        (Err(_), Ok(Ok(b))) => rep.violation(&format!("C14/accepts-what-serde_json-rejects/{}", tname), w(format!("Ok({:?})", b))),
        (_, Err(p)) => rep.violation(&format!("C14/panic/{}", panic_site(&p)), w(p)),
    }
}

fn both<T: Serialize + DeserializeOwned + PartialEq + Debug>(rep: &mut Report, v: &T, tname: &str, ident: &jmespath::Expression<'_>) {
    if let Some(j) = check_ser(rep, v, tname) {
        check_de::<T>(rep, &j, tname, true);
        // searching the typed value equals searching its JSON text
        rep.evaluations += 1;
        match guarded(|| ident.search(v)) {
            Ok(Ok(r)) if value_of(&r).map_or(false, |x| val_identical(&x, &j)) => rep.count("search_typed_value_ok"),
            other => rep.violation(
                &format!("C14/search-of-typed-value-differs/{}", tname),
                json!({"type": tname, "value": format!("{:?}", v), "got": format!("{:?}", other.map(|r| r.map(|v| v.to_string())))}),
            ),
        }
    }
}

fn foreign_pool() -> Vec<Value> {
    vec![
        json!({"x": 1, "y": 2, "z": 3, "label": "p", "visible": true}), json!({"x": 1, "y": 2, "z": 3}), json!({"x": 1, "y": 2}), json!({"x": 1, "y": 2, "a": 0, "b": 0, "c": 0, "d": 0, "e": 0, "f": 0, "g": 0}),
        json!({"firstName": "a", "k1": 1, "k2": 2, "k3": 3, "k4": 4, "k5": 5, "k6": 6, "k7": 7, "k8": 8}), json!({"firstName": "a", "nick": "n", "extra": 1}),
        json!({"kind": "k", "size": 1, "colour": "teal", "weight": 2, "finish": "matt"}), json!({"colour": "teal"}), json!({"color": "red", "colour": "teal", "a": 1, "b": 2}), json!({"a": 1, "b": 2, "c": 3}),
        json!([1, 2.5, 3]), json!([104, 105.0]), json!([0.0]), json!([255.0, 256.0]), json!([104.5]), json!([1e2, 2]), json!({"a": [104, 105.0]}), json!([[104, 105.0], [1]]), json!([-0.0]), json!([1, true]),
        json!({"Unit": {"until": "2027"}}), json!({"Unit": []}), json!({"Unit": 0}), json!({"Unit": "x"}), json!({"Close": 1}), json!({"Close": [1]}), json!({"A": {"k": 1}}), json!({"A": 2}), json!({"FIRST_ONE": {"x": 1}}), json!({"Red": [1]}),
        json!({"Ver": [7]}), json!({"Ver": [7, 8]}), json!({"Ver": []}), json!({"Pair": []}), json!({"Pair": [1]}), json!({"Pair": [1, 2, 3]}), json!({"Three": ["s"]}), json!({"Three": ["s", null]}), json!({"Three": [1]}), json!({"Ver": 7}),
        json!({"": [3, 4]}), json!({" ": {"from": 1, "": 2}}), json!({"0": -1}), json!("null"), json!({"\u{0}": [1, 2]}), json!([3, 4]), json!({"Cells": [3, 4]}), json!({"": 5, " ": "b", "0": null, "row": [{"": [1, 2]}, "null"]}),
        json!({"": 5, " ": "b", "0": {"0": 7}, "row": []}), json!([1, 2, 3, 4, 5, 6, 7, 8, 9]),
        json!(null), json!(true), json!(false), json!(0), json!(1), json!(-1), json!(1.5), json!(1.0), json!(127), json!(128), json!(255), json!(256), json!(-129),
        json!(300), json!(70000), json!(5000000000u64), json!(-5000000000i64), json!(9223372036854775808u64), json!(18446744073709551615u64), json!(1e40),
        json!(""), json!("a"), json!("ab"), json!("Unit"), json!("Newtype"), json!("C"), json!("é"), json!("\u{1F600}"),
        json!([]), json!([1]), json!([1, 2]), json!([1, 2, 3]), json!([1, "a"]), json!([1, "a", 2]), json!([null]), json!(["a", 1]), json!([[1, 2], [3]]),
        json!([1, 2, 3, 4, 5, 6]), json!([1, 2, 3, 4, 5, 6, 7]), json!([1, -1, "s"]), json!([1, -1, "s", 0]),
        json!({}), json!({"a": 1}), json!({"a": 1, "b": "x"}), json!({"a": 1, "b": "x", "c": null, "d": [1, 2]}), json!({"a": 1, "b": "x", "c": 1.5, "d": [1, 2], "extra": 0}),
        json!({"a": 1, "b": "x", "d": [300]}), json!({"a": "1", "b": "x", "d": []}),
        json!({"Unit": null}), json!({"Newtype": 1}), json!({"Newtype": [1]}), json!({"Tuple": [1, "a"]}), json!({"Tuple": [1, "a", 2]}), json!({"Tuple": [1]}),
        json!({"Struct": {"a": 1, "b": true}}), json!({"Struct": {"a": 1}}), json!({"Struct": [1, true]}), json!({"Struct": [1, true, 3]}), json!({"Newtype": 1, "Unit": null}), json!({"Nope": 1}),
        json!({"t": "A", "x": 1}), json!({"t": "B", "y": "s"}), json!({"t": "C"}), json!({"t": "A"}), json!({"t": "Z"}), json!({"x": 1}),
        json!({"t": "A", "c": 1}), json!({"t": "B", "c": {"y": "s"}}), json!({"t": "C", "c": null}), json!({"t": "D", "c": [1, 2]}), json!({"t": "D", "c": [1, 2, 3]}), json!({"c": 1, "t": "A"}),
        json!({"Opt": null}), json!({"Opt": 3}), json!({"Unit": null}), json!({"UnitStruct": null}), json!({"OptOpt": null}), json!({"Plain": null}), json!("Plain"), json!("Opt"),
        json!({"Seq": [null, 1]}), json!({"Seq": null}), json!({"Opt": [1]}), json!({"Unit": 1}),
        json!("Tuple"), json!("Struct"), json!({"Tuple": 1}), json!({"Tuple": "x"}), json!({"Tuple": {}}), json!({"Tuple": []}), json!({"Struct": 1}), json!({"Struct": "x"}),
        json!({"Unit": 1}), json!({"Unit": []}), json!({"Newtype": null}), json!({"Newtype": "1"}), json!([]), json!([[]]), json!({"t": "D", "c": []}), json!({"t": "A", "c": null}),
        // second zoo
        json!([1]), json!([1, 2]), json!([1, 2, 3]), json!([1, 2, 3, 4]), json!(["1"]), json!([1, null]),
        json!({"firstName": "a"}), json!({"firstName": "a", "ageYears": 3, "nick": "n"}), json!({"firstName": "a", "nickName": "m", "nick": "n"}), json!({"firstName": "a", "extra": 1}),
        json!({"first_name": "a"}), json!({"firstName": "a", "ageYears": 300}), json!({"firstName": "a", "nickName": null}),
        json!({"a": 1}), json!({"b": "x", "c": []}), json!({"a": null}), json!({"zzz": 1}),
        json!("A"), json!("B"), json!("Red"), json!("b l u e"), json!("Blue"), json!("Purple"), json!("Unknown"), json!({"A": null}), json!({"Purple": null}), json!({"Purple": 1}),
        json!("FIRST_ONE"), json!({"SECOND_ONE": {"INNER_FIELD": 1}}), json!({"SECOND_ONE": {"inner_field": 1}}), json!("FirstOne"),
        json!({"1": "a", "2": "b"}), json!({"-1": true, "5": false}), json!({"01": "a"}), json!({"1.0": "a"}), json!({" 1": "a"}), json!({"4294967296": "a"}), json!({"9223372036854775808": true}),
        json!({"a": 1, "b": 2}), json!({"ab": 1}), json!({"": 1}), json!({"é": 1}), json!({"Red": 1, "b l u e": 2}), json!({"Blue": 1}), json!({"true": 1}),
        json!({"secs": 1, "nanos": 2}), json!({"secs": 1}), json!([1, 2]), json!({"secs": -1, "nanos": 0}), json!({"secs": 1, "nanos": 2, "x": 0}),
        json!("127.0.0.1"), json!("::1"), json!("x"), json!({"V4": [127, 0, 0, 1]}),
        json!({"Ok": 1}), json!({"Err": "e"}), json!({"Ok": "e"}), json!({"ok": 1}), json!({"Ok": 1, "Err": "e"}),
        json!({"start": 1, "end": 5}), json!({"start": 1}), json!([1, 5]), json!("Unbounded"), json!({"Included": 3}), json!({"Excluded": 300}),
        json!({"type": "Scores", "by_player": {"7": 31, "23": 18}}), json!({"by_player": {"-1": 0, "1e3": 2}, "type": "Scores"}), json!({"x": 1, "1": 7}), json!({"x": 1, "y": 2}), json!({"7": 1, "08": 2}),
        json!({"type": "Note", "text": "t", "7": 1}),
        json!("edge-7"), json!([101, 100, 103, 101]), json!([0, 1]), json!("with\u{0}nul"), json!({"a": "s", "b": [1, 2]}), json!(["s", [1]]), json!([256]), json!([-1]), json!({"Unix": [1, 2]}),
        json!({"Flush": {}}), json!({"Open": {}}), json!({"Retry": {}}), json!({"Flush": null}), json!({"Flush": []}), json!("Flush"), json!("Close"), json!({"Close": {}}), json!({"Close": null}),
        json!({"Open": {"mode": 3}}), json!({"Open": {"path": null}}), json!({"Open": []}), json!({"Open": [null, 1]}), json!({"Retry": {"n": 1, "x": 0}}), json!({"Flush": {"x": 1}}),
        json!({"id": 1, "k": 2, "j": 3}), json!({"id": 1}), json!({"id": "x"}), json!({"renamed-key": 5, "y": null}), json!({"renamed-key": 5, "y": {"renamed-key": 6, "y": null}}), json!({"x": 5}),
    ]
}

macro_rules! de_all {
    ($rep:expr, $j:expr, $($t:ty => $n:expr),* $(,)?) => {
        $( check_de::<$t>($rep, $j, $n, false); )*
    };
}

pub fn run(args: &Args) {
    let mut rep = Report::new("C14");
    let ident = jmespath::compile("@").unwrap();
    // (1) every type against the foreign pool: the Ok/Err decision and the value must match serde_json
    if args.shard == 0 {
        for j in foreign_pool().iter() {
            de_all!(&mut rep, j,
                bool => "bool", i8 => "i8", i16 => "i16", i32 => "i32", i64 => "i64", u8 => "u8", u16 => "u16", u32 => "u32", u64 => "u64",
                f32 => "f32", f64 => "f64", char => "char", String => "String", () => "unit",
                Option<i32> => "Option<i32>", Option<Option<i32>> => "Option<Option<i32>>", Vec<i32> => "Vec<i32>", Vec<String> => "Vec<String>",
                (u8, u8) => "(u8,u8)", (i32, String) => "(i32,String)", (u8, i8, String) => "(u8,i8,String)", (i8, i8, i8, i8, i8, i8) => "tuple6", [u8; 3] => "[u8;3]",
                BTreeMap<String, i32> => "BTreeMap<String,i32>", HashMap<String, Vec<i32>> => "HashMap<String,Vec<i32>>",
                Named => "Named", TupleS => "TupleS", Newtype => "Newtype", UnitS => "UnitS", Ext => "Ext", Internal => "Internal", Adjacent => "Adjacent",
                Untagged => "Untagged", Nullable => "Nullable", Vec<Nullable> => "Vec<Nullable>", Option<()> => "Option<()>", Inner => "Inner", Flat => "Flat", Vec<Ext> => "Vec<Ext>", Option<Named> => "Option<Named>", Value => "Value",
                UserId => "UserId", Color => "Color", Version => "Version", Strict => "Strict", AllDefault => "AllDefault", WithOther => "WithOther", Shout => "Shout",
                BTreeMap<UserId, u32> => "BTreeMap<UserId,u32>", BTreeMap<char, u8> => "BTreeMap<char,u8>",
                BTreeMap<Color, i8> => "BTreeMap<Color,i8>",
                std::time::Duration => "Duration", std::net::IpAddr => "IpAddr", std::num::NonZeroU8 => "NonZeroU8", Result<i32, String> => "Result<i32,String>",
                std::ops::Range<i32> => "Range<i32>", std::collections::BTreeSet<u8> => "BTreeSet<u8>", (i32,) => "(i32,)", std::ops::Bound<u8> => "Bound<u8>",
                [u8; 0] => "[u8;0]", std::path::PathBuf => "PathBuf", Box<Option<i16>> => "Box<Option<i16>>", std::num::Wrapping<u8> => "Wrapping<u8>",
                Option<Vec<Option<(bool, char)>>> => "Option<Vec<Option<(bool,char)>>>", (Version, Color) => "(Version,Color)", Vec<Version> => "Vec<Version>", Cmd => "Cmd", Vec<Cmd> => "Vec<Cmd>", Option<Cmd> => "Option<Cmd>", ScoreReport => "ScoreReport", Shape => "Shape", Vec<Shape> => "Vec<Shape>",
                std::ffi::CString => "CString", Box<std::ffi::CStr> => "Box<CStr>", Blobish => "Blobish", Vec<Blobish> => "Vec<Blobish>", BTreeMap<String, Blobish> => "BTreeMap<String,Blobish>",
                Loose => "Loose", Vec<Loose> => "Vec<Loose>", OddNames => "OddNames", OddFields => "OddFields", Vec<OddNames> => "Vec<OddNames>", Point2 => "Point2", Paint => "Paint", KeysSeen => "KeysSeen", AnyLen => "AnyLen", Vec<Point2> => "Vec<Point2>",
                std::ffi::OsString => "OsString", Box<str> => "Box<str>", std::rc::Rc<str> => "Rc<str>", std::borrow::Cow<'static, [u8]> => "Cow<[u8]>",
            );
        }
    }
    // (2) generated values of every shape
    for i in 0..args.n {
        let mut rng = Rng::derive(args.seed, args.shard + 12000, i);
        let r = &mut rng;
        match i % 53 {
            34 => {
                let v = DupFlatten {
                    kind: "outer".into(),
                    inner: DupInner { kind: gstr(r), v: gi(r, -9, 9) },
                    more: (0..r.below(3)).map(|_| (["kind", "v", "z"][r.below(3)].to_string(), gstr(r))).collect(),
                };
                check_ser(&mut rep, &v, "DupFlatten(duplicate keys)");
            }
            35 => {
                let v = if r.chance(2, 3) { DupTag::Data(Blob { ty: gstr(r), n: gi(r, 0, 9) }) } else { DupTag::Other { n: 1 } };
                check_ser(&mut rep, &v, "DupTag(duplicate keys)");
            }
            36 => {
                let v = DupMap((0..r.below(5) + 1).map(|_| (["a", "b", "a"][r.below(3)].to_string(), gi::<i32>(r, -9, 9))).collect());
                check_ser(&mut rep, &v, "DupMap(duplicate keys)");
            }
            48 if i % 2 == 0 => {
                let pick = |r: &mut Rng| [OddNames::Cells(gi(r, 0, 9), gi(r, 0, 9)), OddNames::Line { from: gi(r, 0, 9), to: gi(r, 0, 9) }, OddNames::Zero(gi(r, -9, 9)), OddNames::Null, OddNames::Nul(vec![gi(r, 0, 255)])][r.below(5)].clone();
                let v = pick(r);
                both(&mut rep, &v, "OddNames", &ident);
                let f = OddFields { anon: gi(r, -9, 9), blank: gstr(r), zero: if r.chance(1, 2) { Some(pick(r)) } else { None }, row: (0..r.below(4)).map(|_| pick(r)).collect() };
                both(&mut rep, &f, "OddFields", &ident);
                // reached through an expression: the member named "" of the typed value, as of its JSON text
                let row = json!({"span": serde_json::to_value(&v).unwrap()});
                #[derive(Serialize)]
                struct Row<'a> { span: &'a OddNames }
                for text in ["span.\"\"", "span.\"\"[1]", "span.\" \".\"\"", "span.\"0\"", "keys(span)", "span"] {
                    rep.evaluations += 1;
                    let want = jmespath::compile(text).and_then(|e| e.search(rcvar_of(&row))).map(|x| x.to_string());
                    let got = guarded(|| jmespath::compile(text).and_then(|e| e.search(&Row { span: &v })).map(|x| x.to_string()));
                    match (&want, &got) {
                        (Ok(a), Ok(Ok(b))) if a == b => rep.count("search_typed_value_ok"),
                        (Err(_), Ok(Err(_))) => rep.count("search_typed_value_ok"),
                        _ => rep.violation("C14/search-of-typed-value-differs/OddNames", json!({"expression": text, "json": row, "on_the_json": format!("{:?}", want), "on_the_typed_value": format!("{:?}", got)})),
                    }
                }
            }
            46 => both(
                &mut rep,
                &[Cmd::Flush {}, Cmd::Open { path: None, mode: 0 }, Cmd::Open { path: Some(gstr(r)), mode: gi(r, 0, 255) }, Cmd::Retry { n: None }, Cmd::Retry { n: Some(3) }, Cmd::Close][r.below(6)].clone(),
                "Cmd",
                &ident,
            ),
            47 => {
                // refused conversions, at several depths: both sides must refuse, and nothing may be left behind
                let v = vec![vec![vec![Refuses]]];
                check_ser(&mut rep, &v, "Vec<Vec<Vec<Refuses>>>");
                let m: BTreeMap<String, Vec<Option<Refuses>>> = vec![("a".to_string(), vec![None, Some(Refuses)])].into_iter().collect();
                check_ser(&mut rep, &m, "BTreeMap<String,Vec<Option<Refuses>>>");
                let rk: BTreeMap<RefusingKey, i32> = vec![(RefusingKey(1), 2)].into_iter().collect();
                check_ser(&mut rep, &vec![vec![rk]], "Vec<Vec<BTreeMap<RefusingKey,i32>>>");
                // … and what comes next on this thread is unaffected (plain integers, a map with integer values)
                both(&mut rep, &vec![3i32, 1, 2], "Vec<i32>(after a refused key)", &ident);
                both(&mut rep, &7u64, "u64(after a refused key)", &ident);
                // integer-keyed maps are refused by this crate only (outside the statement): not compared, just exercised
                let ik: Vec<Vec<BTreeMap<i32, i32>>> = vec![vec![vec![(1, 2)].into_iter().collect()]];
                let _ = guarded(|| Variable::from_serializable(&ik).is_ok());
                rep.count("integer_keyed_map_exercised_not_compared");
            }
            52 => {
                let v = [ScoreReport::Scores { by_player: vec![("7".to_string(), 31), ("23".to_string(), 18), (gstr(r), 1)].into_iter().collect() }, ScoreReport::Note { text: gstr(r) }][r.below(2)].clone();
                both(&mut rep, &v, "ScoreReport", &ident);
                let sh = [Shape::Point { x: gi(r, -9, 9), y: 2 }, Shape::Named(vec![("1".to_string(), 7), ("x".to_string(), 1)].into_iter().collect())][r.below(2)].clone();
                both(&mut rep, &sh, "Shape", &ident);
            }
            50 => {
                // adjacent rows that are identical except for loosely-equal numbers: integers beyond 2^53
                // one apart, doubles one ulp apart, an integer next to the same-valued float
                let base_t = 1_700_000_000_000_000_001u64 + r.below(5) as u64;
                let v0 = [0.3f64, 1e15, 1.0, -2.5][r.below(4)];
                let rows: Vec<Sample> = (0..2 + r.below(4))
                    .map(|k| Sample { sensor: "door".into(), t_ns: base_t + k as u64, v: f64::from_bits(v0.to_bits() + (k as u64 % 3)), tags: vec![9007199254740993 + k as i64, 1] })
                    .collect();
                both(&mut rep, &rows, "Vec<Sample>(loosely equal rows)", &ident);
                let t: (Vec<i64>, Vec<i64>, (u64, u64)) = (vec![9007199254740992, 1], vec![9007199254740993, 1], (18446744073709551614, 18446744073709551615));
                both(&mut rep, &t, "tuple(loosely equal rows)", &ident);
                let mixed: Vec<Value> = vec![json!([1, 2]), json!([1.0, 2]), json!({"a": 1}), json!({"a": 1.0}), json!([1e15, 0]), json!([1000000000000000u64, 0])];
                check_ser(&mut rep, &mixed, "Vec<Value>(int next to same-valued float)");
            }
            51 => {
                // long strings with multi-byte characters where a type mismatch is worded (error texts quote the value)
                let n = [100usize, 127, 128, 200, 255, 256, 257, 300, 1000][r.below(9)];
                let sv = format!("{}{}", "x".repeat(r.below(3)), "é".repeat(n));
                for j in [json!(sv.clone()), json!({"Tuple": sv.clone()}), json!({"Struct": sv.clone()}), json!({"Newtype": sv.clone()}), json!([sv.clone()]), json!({"a": sv.clone()}), json!({sv.clone(): 1}),
                          json!({"t": sv.clone()}), json!({"Open": sv.clone()})] {
                    de_all!(&mut rep, &j, i32 => "i32", bool => "bool", Vec<i32> => "Vec<i32>", Ext => "Ext", Named => "Named", Internal => "Internal", Untagged => "Untagged", Cmd => "Cmd",
                            (u8, u8) => "(u8,u8)", Option<Named> => "Option<Named>", BTreeMap<String, i32> => "BTreeMap<String,i32>", Color => "Color", char => "char", UnitS => "UnitS", () => "unit");
                }
            }
            48 | 49 => {
                // deeply nested native values (serialising has no depth limit in serde_json)
                let d = [60usize, 100, 120, 125, 126, 127, 128, 129, 130, 200, 400][r.below(11)];
                let v = nested_value(d, i % 50 == 49);
                if let Some(j) = check_ser(&mut rep, &v, "Value(nested)") {
                    rep.max("max/nested_native_depth", d as u64);
                    let _ = j;
                }
            }
            38 => both(&mut rep, &gstdzoo(r), "StdZoo", &ident),
            39 => both(&mut rep, &gkeyed(r), "Keyed", &ident),
            40 => both(&mut rep, &Version(gi(r, 0, 9), gi(r, 0, 2), gi(r, 0, 2)), "Version", &ident),
            41 => both(
                &mut rep,
                &Strict { first_name: gstr(r), age_years: gi(r, 0, 255), nick_name: if r.chance(1, 2) { None } else { Some(gstr(r)) } },
                "Strict",
                &ident,
            ),
            42 => both(&mut rep, &AllDefault { a: gi(r, -9, 9), b: gstr(r), c: vec![] }, "AllDefault", &ident),
            43 => both(&mut rep, &[Shout::FirstOne, Shout::SecondOne { inner_field: gi(r, -9, 9) }][r.below(2)].clone(), "Shout", &ident),
            44 => both(&mut rep, &(0..r.below(4)).map(|_| (UserId(gstr(r)), gi::<u32>(r, 0, 9))).collect::<BTreeMap<UserId, u32>>(), "BTreeMap<UserId,u32>", &ident),
            45 => both(&mut rep, &[WithOther::A, WithOther::B][r.below(2)].clone(), "WithOther", &ident),
            0 => both(&mut rep, &r.chance(1, 2), "bool", &ident),
            1 => both(&mut rep, &gi::<i8>(r, i8::MIN as i128, i8::MAX as i128), "i8", &ident),
            2 => both(&mut rep, &gi::<i16>(r, i16::MIN as i128, i16::MAX as i128), "i16", &ident),
            3 => both(&mut rep, &gi::<i32>(r, i32::MIN as i128, i32::MAX as i128), "i32", &ident),
            4 => both(&mut rep, &gi::<i64>(r, i64::MIN as i128, i64::MAX as i128), "i64", &ident),
            5 => both(&mut rep, &gi::<u8>(r, 0, u8::MAX as i128), "u8", &ident),
            6 => both(&mut rep, &gi::<u16>(r, 0, u16::MAX as i128), "u16", &ident),
            7 => both(&mut rep, &gi::<u32>(r, 0, u32::MAX as i128), "u32", &ident),
            8 => both(&mut rep, &gi::<u64>(r, 0, u64::MAX as i128), "u64", &ident),
            9 => {
                let f = gf64(r) as f32;
                if let Some(j) = check_ser(&mut rep, &f, "f32") {
                    check_de::<f32>(&mut rep, &j, "f32", true);
                }
            }
            10 => {
                let f = gf64(r);
                if let Some(j) = check_ser(&mut rep, &f, "f64") {
                    check_de::<f64>(&mut rep, &j, "f64", true);
                }
            }
            11 => both(&mut rep, &['a', 'é', '日', '\u{1F600}', '\u{0}', '"'][r.below(6)], "char", &ident),
            12 => both(&mut rep, &gstr(r), "String", &ident),
            13 => both(&mut rep, &(), "unit", &ident),
            14 => both(&mut rep, &(if r.chance(1, 3) { None } else { Some(gi::<i32>(r, -9, 9)) }), "Option<i32>", &ident),
            15 => {
                let v: Option<Option<i32>> = [None, Some(None), Some(Some(3))][r.below(3)];
                if let Some(j) = check_ser(&mut rep, &v, "Option<Option<i32>>") {
                    check_de::<Option<Option<i32>>>(&mut rep, &j, "Option<Option<i32>>", true);
                }
            }
            16 => both(&mut rep, &(0..r.below(5)).map(|_| gi::<i32>(r, -99, 99)).collect::<Vec<i32>>(), "Vec<i32>", &ident),
            17 => both(&mut rep, &(gi::<u8>(r, 0, 255), gi::<u8>(r, 0, 255)), "(u8,u8)", &ident),
            18 => both(&mut rep, &(gi::<u8>(r, 0, 255), gi::<i8>(r, -128, 127), gstr(r)), "(u8,i8,String)", &ident),
            19 => both(&mut rep, &(1i8, 2i8, 3i8, 4i8, 5i8, gi::<i8>(r, -128, 127)), "tuple6", &ident),
            20 => both(&mut rep, &(0..r.below(4)).map(|_| (gstr(r), gi::<i32>(r, -9, 9))).collect::<BTreeMap<String, i32>>(), "BTreeMap<String,i32>", &ident),
            21 => both(&mut rep, &(0..r.below(4)).map(|_| (gstr(r), vec![gi::<i32>(r, -9, 9)])).collect::<HashMap<String, Vec<i32>>>(), "HashMap<String,Vec<i32>>", &ident),
            22 => {
                let v = gnamed(r);
                if let Some(j) = check_ser(&mut rep, &v, "Named") {
                    check_de::<Named>(&mut rep, &j, "Named", true);
                }
            }
            23 => both(&mut rep, &TupleS(gi(r, -9, 9), gstr(r)), "TupleS", &ident),
            24 => both(&mut rep, &Newtype(gi(r, 0, u64::MAX as i128)), "Newtype", &ident),
            25 => both(&mut rep, &UnitS, "UnitS", &ident),
            26 => both(&mut rep, &gext(r), "Ext", &ident),
            27 => both(&mut rep, &[Internal::A { x: gi(r, -9, 9) }, Internal::B { y: gstr(r) }, Internal::C][r.below(3)].clone(), "Internal", &ident),
            28 => both(&mut rep, &[Adjacent::A(gi(r, -9, 9)), Adjacent::B { y: gstr(r) }, Adjacent::C, Adjacent::D(1, gi(r, -9, 9))][r.below(4)].clone(), "Adjacent", &ident),
            29 => both(&mut rep, &[Untagged::I(gi(r, -9, 9)), Untagged::S(gstr(r)), Untagged::V(vec![1, gi(r, -9, 9)]), Untagged::M { a: gi(r, -9, 9) }][r.below(4)].clone(), "Untagged", &ident),
            30 => both(&mut rep, &ginner(r, 4), "Inner", &ident),
            31 => both(&mut rep, &Flat { id: gi(r, 0, 99), rest: (0..r.below(3)).map(|_| (["k", "j", "z"][r.below(3)].to_string(), gi::<i32>(r, -9, 9))).collect() }, "Flat", &ident),
            32 => {
                let v = Deep {
                    e: gext(r),
                    n: gnamed(r),
                    t: (gi(r, 0, 255), gi(r, -128, 127), gstr(r)),
                    o: [None, Some(None), Some(Some(3))][r.below(3)],
                    m: (0..r.below(3)).map(|_| (gstr(r), vec![gext(r), gext(r)])).collect(),
                    u: UnitS,
                    inner: ginner(r, 5),
                };
                if let Some(j) = check_ser(&mut rep, &v, "Deep") {
                    check_de::<Deep>(&mut rep, &j, "Deep", true);
                    if i % 3400 == 32 {
                        rep.sample(json!({"type": "Deep", "json_image": j}));
                    }
                }
            }
            33 => {
                let v = [
                    Nullable::Opt(None),
                    Nullable::Opt(Some(gi(r, 0, 9))),
                    Nullable::Unit(()),
                    Nullable::UnitStruct(UnitS),
                    Nullable::OptOpt(None),
                    Nullable::OptOpt(Some(None)),
                    Nullable::OptOpt(Some(Some(true))),
                    Nullable::Plain,
                    Nullable::Seq(vec![None, Some(gi(r, -9, 9))]),
                ][r.below(9)]
                .clone();
                if let Some(j) = check_ser(&mut rep, &v, "Nullable") {
                    check_de::<Nullable>(&mut rep, &j, "Nullable", true);
                }
            }
            _ => {
                let _ = 37;
                // short, and long enough to cross any table / chunk size, with every byte value
                let n = [r.below(5), 255, 256, 257, 300, 1024, 70_000][r.below(7)];
                let b = Bytes((0..n).map(|k| if r.chance(1, 2) { (k * 7 + 3) as u8 } else { gi::<u8>(r, 0, 255) }).collect());
                check_ser(&mut rep, &b, "Bytes(serialize_bytes)");
            }
        }
    }
    emit_report(args, &rep);
}
