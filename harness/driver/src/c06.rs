//! C06 — built-ins enforce their signatures (arity, argument types, unknown
//! names) and return their declared result type. Exhaustive decision table.

use crate::common::*;
use refimpl::eval::{signature, Arg, Builtins, ErrKind, Evaluator, BUILTIN_NAMES};
use refimpl::json::type_name;
use refimpl::lex::spell_literal;
use refimpl::parse::{parse, Opts};
use refimpl::rng::{fnv, Rng};
use serde_json::{json, Map, Value};

const CLASSES: [&str; 10] = ["null", "boolean", "number", "string", "empty-array", "array-number", "array-string", "array-mixed", "object", "expref"];

fn representative(class: usize, rng: &mut Rng) -> Result<Value, String> {
    // Ok(value) or Err(expref source text)
    Ok(match class {
        0 => Value::Null,
        1 => Value::Bool(rng.chance(1, 2)),
        2 => [json!(0), json!(-1.5), json!(42), json!(1000.0), json!(-7), json!(0.25)][rng.below(6)].clone(),
        3 => [json!(""), json!("a"), json!("é日"), json!("12"), json!("abc"), json!("\"abc\""), json!("[1]"), json!("true"), json!("null"), json!("{\"a\": 1}"), json!("-1.5e2"), json!("0x10")][rng.below(12)].clone(),
        4 => json!([]),
        5 => [json!([1]), json!([3, 1, 2]), json!([0.5, -1]), json!([2, 2, 1]), json!([1e308, 1e308]), json!([-1e308, -1e308, -1e308])][rng.below(6)].clone(),
        6 => [json!(["a"]), json!(["b", "a"]), json!(["", "é", "a"])][rng.below(3)].clone(),
        7 => [json!([1, "a"]), json!([null]), json!([[1]]), json!([{"a": 1}, {"a": "x"}]), json!([true, false]), json!(["a", 1])][rng.below(6)].clone(),
        8 => [json!({}), json!({"a": 1}), json!({"a": "x", "b": [1]})][rng.below(3)].clone(),
        _ => return Err(["&@", "&a", "&'s'", "&`1`", "&[0]", "&length(@)"][rng.below(6)].to_string()),
    })
}

fn declared_result_ok(name: &str, arg0: Option<&Value>, r: &Value) -> bool {
    let t = type_name(r);
    match name {
        "abs" | "ceil" | "floor" | "length" | "sum" => t == "number",
        "avg" | "to_number" => t == "number" || t == "null",
        "max" | "min" => t == "number" || t == "string" || t == "null",
        "contains" | "starts_with" | "ends_with" => t == "boolean",
        "join" | "to_string" | "type" => t == "string",
        "keys" | "values" | "map" | "sort" | "sort_by" | "to_array" => t == "array",
        "reverse" => arg0.map_or(false, |a| type_name(a) == t),
        "merge" => t == "object",
        "not_null" | "max_by" | "min_by" => true,
        _ => false,
    }
}

pub fn run(args: &Args) {
    let mut rep = Report::new("C06");
    let ev = Evaluator::new(&Builtins);
    let strict = Opts::strict();
    let reps: u64 = args.kv.get("reps").and_then(|v| v.parse().ok()).unwrap_or(3);
    let mut names: Vec<&str> = BUILTIN_NAMES.to_vec();
    names.extend_from_slice(&["nofn", "Length", "sortby"]);
    // enumerate all cells; shard by running cell index
    let mut cell_index: u64 = 0;
    let mut cells_done: u64 = 0;
    for name in &names {
        let declared = signature(name).map(|s| s.params.len()).unwrap_or(1);
        for k in 0..=(declared + 2) {
            let ncells = 10u64.pow(k as u32);
            for c in 0..ncells {
                cell_index += 1;
                if cell_index % args.shards != args.shard {
                    continue;
                }
                cells_done += 1;
                let mut classes = vec![];
                let mut x = c;
                for _ in 0..k {
                    classes.push((x % 10) as usize);
                    x /= 10;
                }
                let arity_ok = match signature(name) {
                    Some(sg) => k == sg.params.len() || (sg.variadic.is_some() && k > sg.params.len()),
                    None => true,
                };
                for r in 0..(if arity_ok { reps * 6 } else { reps }) {
                    let mut rng = Rng::derive(args.seed ^ fnv(name.as_bytes()), c * 16 + k as u64, r);
                    one_cell(&mut rep, &ev, &strict, name, &classes, &mut rng, r);
                }
            }
        }
    }
    rep.add("cells", cells_done);
    expref_return_table(&mut rep, args);
    error_propagation_table(&mut rep, args);
    deregistration_table(&mut rep, args);
    nested_call_table(&mut rep, args, &ev);
    same_body_different_delimiters(&mut rep, args, &ev, &strict);
    // unknown inner call is reported, not the outer: arguments are evaluated first
    if args.shard == 0 {
        for (text, inner) in [("length(nofn(@))", "nofn"), ("nofn(nofn2(@))", "nofn2"), ("abs(x, nofn3(`1`))", "nofn3")] {
            rep.evaluations += 1;
            match jmespath::compile(text).and_then(|e| e.search(rcvar_of(&json!([1])))) {
                Err(e) if e.reason.to_string().contains(inner) && err_class(&e) == "unknown-function" => rep.count("inner_unknown_reported_first"),
                other => rep.violation(
                    "C06/arguments-not-evaluated-before-call",
                    json!({"expression": text, "got": format!("{:?}", other.map(|v| v.to_string()))}),
                ),
            }
        }
    }
    emit_report(args, &rep);
}

/// The second half of the *_by signatures: the expression reference must yield a number for
/// every element or a string for every element. Exhaustive over key-type sequences.
fn expref_return_table(rep: &mut Report, args: &Args) {
    let reps: [[Value; 2]; 6] = [
        [json!(null), json!(null)],
        [json!(true), json!(false)],
        [json!(3), json!(-0.5)],
        [json!("a"), json!("")],
        [json!([1]), json!([])],
        [json!({"a": 1}), json!({})],
    ];
    let tn = ["null", "boolean", "number", "string", "array", "object"];
    let mut idx: u64 = 0;
    for name in ["sort_by", "max_by", "min_by"] {
        for len in 0..=4usize {
            for code in 0..6u64.pow(len as u32) {
                idx += 1;
                if idx % args.shards != args.shard {
                    continue;
                }
                let mut classes = vec![];
                let mut x = code;
                for _ in 0..len {
                    classes.push((x % 6) as usize);
                    x /= 6;
                }
                for variant in 0..2usize {
                    let arr: Vec<Value> = classes.iter().enumerate().map(|(i, c)| json!({"id": i, "k": reps[*c][(i + variant) % 2].clone()})).collect();
                    let doc = Value::Array(arr);
                    let uniform = classes.iter().all(|c| *c == 2) || classes.iter().all(|c| *c == 3);
                    for text in [format!("{}(@, &k)", name), format!("{}(@, &not_null(k, k))", name)] {
                        rep.evaluations += 1;
                        let got = guarded(|| jmespath::compile(&text).and_then(|e| e.search(rcvar_of(&doc))));
                        let cell = format!("{}/keys:{}", name, classes.iter().map(|c| tn[*c]).collect::<Vec<_>>().join(","));
                        let w = |exp: &str, got: String| json!({"expression": text, "document": doc, "cell": cell, "expected": exp, "got": got});
                        match got {
                            Err(p) => rep.violation(&format!("C06/panic/{}", panic_site(&p)), w("no panic", p)),
                            Ok(Ok(v)) if uniform => {
                                let t = v.get_type().to_string();
                                let ok = if name == "sort_by" { v.is_array() } else if len == 0 { v.is_null() } else { v.is_object() };
                                if ok {
                                    rep.count("expref_return_table/accepted");
                                    rep.nontrivial(fnv(cell.as_bytes()));
                                } else {
                                    rep.violation(&format!("C06/undeclared-result-type/fn={}", name), w("array / element / null", t));
                                }
                            }
                            Ok(Ok(v)) => rep.violation(&format!("C06/ill-formed-call-accepted/fn={}", name), w("invalid-type: keys must be all numbers or all strings", v.to_string())),
                            Ok(Err(e)) if !uniform && err_class(&e) == "type" => {
                                rep.count("expref_return_table/rejected");
                                rep.nontrivial(fnv(cell.as_bytes()));
                            }
                            Ok(Err(e)) if uniform => rep.violation(&format!("C06/well-typed-call-rejected/fn={}", name), w("accepted", e.to_string())),
                            Ok(Err(e)) => rep.violation(&format!("C06/wrong-error-kind/fn={}", name), w("type", err_class(&e).into())),
                        }
                    }
                }
            }
        }
    }
    rep.add("expref_return_table_cells", idx / args.shards);
}

/// An ill-formed call fails wherever it sits: inside the key expression of a *_by function or
/// of `map` (for whichever element it is ill-formed), as either operand of a comparison
/// (whatever the other operand is), as the evaluated operand of `&&` / `||`, inside
/// multi-selects, filters and pipes. Nothing may swallow the error or skip the call.
fn error_propagation_table(rep: &mut Report, args: &Args) {
    if args.shard != 0 {
        return;
    }
    let bad_calls: [(&str, &str); 5] = [("abs(@)", "type"), ("nofn(@)", "unknown-function"), ("abs()", "arity"), ("abs(@, @)", "arity"), ("length(`1`)", "type")];
    // (a) inside expression references: the element at position j makes the body fail
    for name in ["sort_by", "max_by", "min_by", "map"] {
        for len in 1..=5usize {
            for j in 0..len {
                for (body, class) in bad_calls.iter() {
                    let arr: Vec<Value> = (0..len).map(|i| if i == j { json!("x") } else { json!(i as i64 + 1) }).collect();
                    let doc = Value::Array(arr);
                    let text = if name == "map" { format!("map(&{}, @)", body) } else { format!("{}(@, &{})", name, body) };
                    check_fails(rep, &text, &doc, class, &format!("{}/expref-body/{}", name, body));
                }
            }
        }
    }
    // (a') no element, no call: over an empty array the body of the reference is never evaluated, whatever it
    // contains; and constant-looking arguments are evaluated per element (a multi-select is null on a null element)
    for (body, _) in bad_calls.iter() {
        for text in [format!("map(&{}, `[]`)", body), format!("sort_by(`[]`, &{})", body), format!("`[]`[*].{}", body), format!("`[]`[?{}]", body), format!("max_by(`[]`, &{}) || `[]`", body)] {
            check_succeeds(rep, &text, &json!({"a": 1}), "empty-array/body-never-evaluated");
        }
    }
    let mixed = json!({"xs": [1, null, 2], "os": [{"v": [1]}, null]});
    for (text, class) in [
        ("xs[?contains([`1`, `2`], @)]", "type"), ("xs[?length([`1`]) == `1`]", "type"), ("map(&sum([`1`, `2`]), xs)", "type"), ("map(&length({a: `1`}), os)", "type"),
        ("xs[?starts_with(['a'][0], 'a')]", "type"),
    ] {
        check_fails(rep, text, &mixed, class, "constant-looking-argument/per-element");
    }
    for text in ["map(&a | b, recs)", "map(&a || b, recs)", "sort_by(recs, &a | b)", "max_by(recs, &(a | b))", "map(&a.b | [0], recs)", "map(&!a, recs)", "sort_by(recs, &b || `0`)"] {
        check_succeeds(rep, text, &json!({"recs": [{"a": {"b": 2}, "b": 1}, {"a": {"b": 1}, "b": 2}]}), "operator-body-in-reference");
    }
    // (a'') every member of a multi-select hash is evaluated, also one whose key is written again later;
    // the error of a long map is that of the FIRST failing element; `@` inside a nested call behind a pipe is
    // the piped value
    for (body, class) in bad_calls.iter() {
        let body = body.replace("@", "name");
        for text in [format!("{{a: {}, a: n}}", body), format!("{{a: n, b: {}, b: n, a: name}}", body), format!("{{\"a\": {}, a: `1`}}", body)] {
            check_fails(rep, &text, &json!({"name": "bob", "n": -3}), class, "multi-select-hash/repeated-key");
        }
    }
    {
        let mut items: Vec<Value> = (0..8192).map(|i| json!({"v": i})).collect();
        items[4095] = json!({"v": "n/a"});
        for it in items.iter_mut().skip(4096) {
            *it = json!({"v": true});
        }
        let big = json!({"items": items});
        for text in ["map(&abs(v), items)", "items[*].abs(v)", "sort_by(items, &abs(v))"] {
            rep.evaluations += 1;
            match guarded(|| jmespath::compile(text).and_then(|e| e.search(rcvar_of(&big)))) {
                Ok(Err(e)) if err_class(&e) == "type" && e.reason.to_string().contains("string") && !e.reason.to_string().contains("boolean") => rep.count("first_failing_element_reported"),
                other => rep.violation(
                    "C06/error-is-not-that-of-the-first-ill-typed-element",
                    json!({"expression": text, "elements": 8192, "first_ill_typed": "element 4095 (a string); elements 4096.. are booleans", "got": format!("{:?}", other.map(|r| r.map(|v| v.to_string().len()).map_err(|e| e.to_string())))}),
                ),
            }
        }
    }
    for (text, want) in [
        ("name | ends_with(@, reverse(@))", json!(true)), ("name | contains(@, to_string(@))", json!(true)), ("name | join('-', [@, reverse(@)])", json!("bob-bob")),
        ("n | [abs(@), abs(abs(@))]", json!([3, 3])), ("name | starts_with(@, not_null(nope, @))", json!(true)), ("name | length(to_array(@))", json!(1)),
    ] {
        rep.evaluations += 1;
        match guarded(|| jmespath::compile(text).and_then(|e| e.search(rcvar_of(&json!({"name": "bob", "n": -3}))))) {
            Ok(Ok(v)) if value_of(&v).map_or(false, |g| refimpl::json::val_eq(&g, &want, 0.0)) => rep.count("nested_current_node_behind_pipe_ok"),
            other => rep.violation(
                "C06/well-typed-call-rejected/nested-current-node-behind-a-pipe",
                json!({"expression": text, "expected": want, "got": format!("{:?}", other.map(|r| r.map(|v| v.to_string()).map_err(|e| e.to_string())))}),
            ),
        }
    }
    // (b) operands
    let lefts = ["name", "`null`", "`1`", "`false`", "`[]`", "'s'", "missing"];
    let truthy = [true, false, true, false, false, true, false];
    let doc = json!({"name": "bob", "n": 1});
    for (li, l) in lefts.iter().enumerate() {
        for (call, class) in [("abs('x')", "type"), ("nofn(n)", "unknown-function"), ("abs()", "arity")] {
            for op in ["==", "!=", "<", "<=", ">", ">="] {
                check_fails(rep, &format!("{} {} {}", l, op, call), &doc, class, "comparison/right-operand");
                check_fails(rep, &format!("{} {} {}", call, op, l), &doc, class, "comparison/left-operand");
                check_fails(rep, &format!("[`1`, `2`][?{} {} {}]", l, op, call), &doc, class, "filter/right-operand");
            }
            // short-circuit operators: the right operand is evaluated exactly when it decides the result
            let and_text = format!("{} && {}", l, call);
            let or_text = format!("{} || {}", l, call);
            if truthy[li] {
                check_fails(rep, &and_text, &doc, class, "and/evaluated-right-operand");
                check_succeeds(rep, &or_text, &doc, "or/skipped-right-operand");
            } else {
                check_succeeds(rep, &and_text, &doc, "and/skipped-right-operand");
                check_fails(rep, &or_text, &doc, class, "or/evaluated-right-operand");
            }
            check_fails(rep, &format!("{} && {}", call, l), &doc, class, "and/left-operand");
            check_fails(rep, &format!("[{}, {}]", l, call), &doc, class, "multi-select-list");
            check_fails(rep, &format!("{{a: {}, b: {}}}", l, call), &doc, class, "multi-select-hash");
            check_fails(rep, &format!("{} | {}", l, call), &doc, class, "pipe");
            // … and at the end of a chain whose earlier links yield null
            check_fails(rep, &format!("{} | zz.{}", l, call), &doc, class, "pipe-into-chain");
            check_fails(rep, &format!("{} | zz[0].{}", l, call), &doc, class, "pipe-into-chain");
            check_fails(rep, &format!("({}).zz.yy.{}", l, call), &doc, class, "chain");
            check_fails(rep, &format!("{} | (@ | {})", l, call), &doc, class, "nested-pipe");
            check_fails(rep, &format!("!{}", call), &doc, class, "not");
            check_fails(rep, &format!("not_null({}, {})", l, call), &doc, class, "argument");
        }
    }
}

fn check_fails(rep: &mut Report, text: &str, doc: &Value, class: &str, cell: &str) {
    rep.evaluations += 1;
    match guarded(|| jmespath::compile(text).and_then(|e| e.search(rcvar_of(doc)))) {
        Ok(Err(e)) if err_class(&e) == class => {
            rep.count("error_propagation/failed_as_required");
            rep.nontrivial(fnv(format!("{}|{}", cell, text).as_bytes()));
        }
        other => rep.violation(
            &format!("C06/ill-formed-call-did-not-fail/{}", cell.split('/').next().unwrap_or("")),
            json!({"expression": text, "document": doc, "cell": cell, "expected": class, "got": format!("{:?}", other.map(|r| r.map(|v| v.to_string()).map_err(|e| e.to_string())))}),
        ),
    }
}

fn check_succeeds(rep: &mut Report, text: &str, doc: &Value, cell: &str) {
    rep.evaluations += 1;
    match guarded(|| jmespath::compile(text).and_then(|e| e.search(rcvar_of(doc)))) {
        Ok(Ok(_)) => rep.count("error_propagation/skipped_operand_not_evaluated"),
        other => rep.violation(
            "C06/call-evaluated-although-short-circuited",
            json!({"expression": text, "document": doc, "cell": cell, "got": format!("{:?}", other.map(|r| r.map(|v| v.to_string()).map_err(|e| e.to_string())))}),
        ),
    }
}

/// The same characters between different delimiters in one expression — a raw string `'1'`, a literal `` `1` ``, a quoted
/// identifier `"1"` — are three different things (a string, a JSON value, a member name); each argument keeps its own
/// type however often and in whatever order the same body occurs.
fn same_body_different_delimiters(rep: &mut Report, args: &Args, ev: &Evaluator, strict: &Opts) {
    if args.shard != 0 {
        return;
    }
    const BODIES: [&str; 12] = ["1", "12", "-1", "1.5", "true", "false", "null", "[]", "{}", "\"a\"", "[1]", "0"];
    const FORMS: [&str; 14] = [
        "starts_with('{X}', `{X}`)", "starts_with(`{X}`, '{X}')", "contains('{X}', `{X}`)", "[length('{X}'), abs(`{X}`)]", "[abs(`{X}`), length('{X}')]", "join('{X}', [`{X}`, '{X}'])",
        "[`{X}`, '{X}', `{X}`, '{X}'] | [type(@[0]), type(@[1]), type(@[2]), type(@[3])]", "'{X}' == `{X}`", "not_null(`{X}`, '{X}') | type(@)", "to_number('{X}') == to_number(`{X}`)",
        "[type(`{X}`), type('{X}'), type(\"{Q}\")]", "length(`{X}`) || length('{X}')", "merge(`{X}`, {k: '{X}'})", "['{X}', `{X}`][?type(@) == 'string']",
    ];
    let doc = json!({"1": "member-one", "true": "member-true", "a": 5});
    for b in BODIES.iter() {
        for f in FORMS.iter() {
            let text = f.replace("{X}", b).replace("{Q}", &b.replace('"', ""));
            let tree = match parse(&text, strict) {
                Ok(t) => t,
                Err(_) => continue,
            };
            rep.evaluations += 1;
            let want = ev.eval(&tree, &doc);
            let got = guarded(|| jmespath::compile(&text).and_then(|e| e.search(rcvar_of(&doc))));
            let ok = match (&want, &got) {
                (Err(e), _) if matches!(e.kind, ErrKind::Unconstrained(_)) => true,
                (Ok(x), Ok(Ok(g))) => value_of(g).map_or(false, |g| refimpl::json::val_eq(x, &g, 1e-12)),
                (Err(e), Ok(Err(g))) => e.class() == err_class(g),
                _ => false,
            };
            if ok {
                rep.count("same_body_different_delimiters_ok");
                rep.nontrivial(fnv(text.as_bytes()));
            } else {
                rep.violation(
                    "C06/argument-took-the-type-of-another-token-with-the-same-text",
                    json!({"expression": text, "document": doc, "expected": format!("{:?}", want.as_ref().map(|v| v.to_string()).map_err(|e| e.class())),
                           "got": format!("{:?}", got.map(|r| r.map(|v| v.to_string()).map_err(|e| e.to_string())))}),
                );
            }
        }
    }
}

/// A call whose argument is a call: `f(g(x))` is `f` applied to whatever `g(x)` returned — it fails when
/// `g(x)` fails (with that failure), fails when the result of `g` is not what `f` accepts, and otherwise
/// returns a value of `f`'s declared type. Every pair of one-argument built-ins over every class of subject
/// (and three-deep for a third of them): no pair may be fused into something with a different signature.
fn nested_call_table(rep: &mut Report, args: &Args, ev: &Evaluator) {
    const ONE: [&str; 17] = ["abs", "avg", "ceil", "floor", "keys", "length", "max", "min", "reverse", "sort", "sum", "to_array", "to_number", "to_string", "type", "values", "not_null"];
    let mut cell = 0u64;
    for f in ONE.iter() {
        for g in ONE.iter() {
            for class in 0..9usize {
                cell += 1;
                if cell % args.shards != args.shard {
                    continue;
                }
                for r in 0..3u64 {
                    let mut rng = Rng::derive(args.seed ^ fnv(f.as_bytes()) ^ fnv(g.as_bytes()).rotate_left(7), class as u64, r);
                    let v = representative(class, &mut rng).expect("a value class");
                    let h = ONE[rng.below(ONE.len())];
                    let three = r == 2;
                    let (text, docv) = if r % 2 == 1 {
                        (if three { format!("{}({}({}(p0)))", h, f, g) } else { format!("{}({}(p0))", f, g) }, json!({"p0": v}))
                    } else {
                        (if three { format!("{}({}({}({})))", h, f, g, spell_literal(&v, 0)) } else { format!("{}({}({}))", f, g, spell_literal(&v, 0)) }, json!({}))
                    };
                    let step = |name: &str, x: Result<Value, ErrKind>| -> Result<Value, ErrKind> { x.and_then(|y| ev.call_builtin(name, &[Arg::Val(y)], 0).map_err(|e| e.kind)) };
                    let mut expected = step(f, step(g, Ok(v.clone())));
                    if three {
                        expected = step(h, expected);
                    }
                    rep.evaluations += 1;
                    let got = guarded(|| jmespath::compile(&text).and_then(|e| e.search(rcvar_of(&docv))));
                    let label = format!("{}({}({}))", f, g, CLASSES[class]);
                    let witness = |exp: String, got: String| json!({"expression": text, "document": docv, "cell": label, "expected_from_the_parts": exp, "got": got});
                    let got = match got {
                        Ok(x) => x,
                        Err(p) => {
                            rep.violation(&format!("C06/panic/{}", panic_site(&p)), witness("no panic".into(), p));
                            continue;
                        }
                    };
                    let outer = if three { h } else { *f };
                    match (expected, got) {
                        (Err(ErrKind::Unconstrained(_)), _) => rep.count("nested_call/unconstrained"),
                        (Err(k), Err(e)) => {
                            let want = match k { ErrKind::Arity => "arity", ErrKind::Type => "type", ErrKind::UnknownFunction(_) => "unknown-function", _ => "?" };
                            if err_class(&e) == want {
                                rep.count("nested_call/failed_as_the_parts_fail");
                                rep.nontrivial(fnv(label.as_bytes()));
                            } else {
                                rep.violation("C06/wrong-error-kind/nested-call", witness(want.into(), err_class(&e).into()));
                            }
                        }
                        (Err(k), Ok(x)) => rep.violation("C06/ill-formed-call-accepted/nested-call", witness(format!("{:?}", k), x.to_string())),
                        (Ok(x), Err(e)) => rep.violation("C06/well-typed-call-rejected/nested-call", witness(x.to_string(), err_class(&e).into())),
                        (Ok(x), Ok(y)) => match value_of(&y) {
                            Ok(gv) if type_name(&gv) == type_name(&x) && (outer == "not_null" || outer == "reverse" || declared_result_ok(outer, None, &gv)) => {
                                rep.count("nested_call/agree_ok");
                                rep.nontrivial(fnv(label.as_bytes()));
                            }
                            Ok(gv) => rep.violation("C06/undeclared-result-type/nested-call", witness(x.to_string(), gv.to_string())),
                            Err(w) => rep.violation("C06/undeclared-result-type/nested-call", witness(x.to_string(), w.into())),
                        },
                    }
                }
            }
        }
    }
}

/// Removing one built-in from a runtime removes exactly that one: it is then an unknown function,
/// and each of the other 25 still answers a well-typed call with a value of its declared type.
fn deregistration_table(rep: &mut Report, args: &Args) {
    const VALID: [(&str, &str); 26] = [
        ("abs", "abs(`-1`)"), ("avg", "avg(`[1, 2, 3]`)"), ("ceil", "ceil(`1.5`)"), ("contains", "contains('abc', 'b')"), ("ends_with", "ends_with('abc', 'c')"), ("floor", "floor(`1.5`)"),
        ("join", "join('-', `[\"a\", \"b\"]`)"), ("keys", "keys(`{\"a\": 1}`)"), ("length", "length('abc')"), ("map", "map(&@, `[1]`)"), ("max", "max(`[1, 3, 2]`)"),
        ("max_by", "max_by(`[{\"k\": 1}, {\"k\": 2}]`, &k)"), ("merge", "merge(`{\"a\": 1}`, `{\"b\": 2}`)"), ("min", "min(`[1, 3, 2]`)"), ("min_by", "min_by(`[{\"k\": 1}, {\"k\": 2}]`, &k)"),
        ("not_null", "not_null(`null`, `1`)"), ("reverse", "reverse('abc')"), ("sort", "sort(`[3, 1, 2]`)"), ("sort_by", "sort_by(`[{\"k\": 2}, {\"k\": 1}]`, &k)"),
        ("starts_with", "starts_with('abc', 'a')"), ("sum", "sum(`[1, 2]`)"), ("to_array", "to_array(`1`)"), ("to_number", "to_number('1')"), ("to_string", "to_string(`1`)"), ("type", "type(`1`)"),
        ("values", "values(`{\"a\": 1}`)"),
    ];
    let fresh = jmespath::Runtime::new();
    let mut full = jmespath::Runtime::new();
    full.register_builtin_functions();
    let truth: Vec<String> = VALID.iter().map(|(_, t)| format!("{:?}", full.compile(t).and_then(|e| e.search(())).map(|v| v.to_string()).map_err(|e| err_class(&e)))).collect();
    for (vi, (victim, _)) in VALID.iter().enumerate() {
        if vi as u64 % args.shards != args.shard {
            continue;
        }
        for two in [false, true] {
            let mut rt = jmespath::Runtime::new();
            rt.register_builtin_functions();
            let second = VALID[(vi * 7 + 3) % 26].0;
            let removed = rt.deregister_function(victim).is_some();
            let removed2 = if two && second != *victim { rt.deregister_function(second).is_some() } else { true };
            rep.evaluations += 1;
            if !removed || !removed2 || rt.deregister_function(victim).is_some() {
                rep.violation("C06/deregistration-return-value", json!({"removed": victim, "first_call_returned_some": removed, "second_function": second}));
            }
            for (k, (name, text)) in VALID.iter().enumerate() {
                rep.evaluations += 1;
                let gone = name == victim || (two && *name == second);
                let got = guarded(|| rt.compile(text).and_then(|e| e.search(())));
                let shown = format!("{:?}", got.as_ref().map(|r| r.as_ref().map(|v| v.to_string()).map_err(|e| err_class(e))));
                let ok = match &got {
                    Ok(Err(e)) if gone => err_class(e) == "unknown-function" && e.reason.to_string().ends_with(&format!(" {}", name)),
                    Ok(r) if !gone => format!("{:?}", r.as_ref().map(|v| v.to_string()).map_err(|e| err_class(e))) == truth[k],
                    _ => false,
                };
                if ok {
                    rep.count("deregistration_table_ok");
                    rep.nontrivial(fnv(format!("dereg|{}|{}|{}", victim, name, two).as_bytes()));
                } else {
                    rep.violation(
                        "C06/deregistering-one-function-changes-another",
                        json!({"removed": if two { vec![*victim, second] } else { vec![*victim] }, "call": text, "expected": if gone { "unknown-function".to_string() } else { truth[k].clone() }, "got": shown}),
                    );
                }
            }
        }
    }
    // a runtime nothing was registered on knows none of them
    if args.shard == 0 {
        for (name, text) in VALID.iter() {
            rep.evaluations += 1;
            match guarded(|| fresh.compile(text).and_then(|e| e.search(()))) {
                Ok(Err(e)) if err_class(&e) == "unknown-function" => rep.count("fresh_runtime_unknown"),
                other => rep.violation("C06/unregistered-name-resolved", json!({"name": name, "got": format!("{:?}", other.map(|r| r.map(|v| v.to_string()).map_err(|e| e.to_string())))})),
            }
        }
    }
}

fn one_cell(rep: &mut Report, ev: &Evaluator, strict: &Opts, name: &str, classes: &[usize], rng: &mut Rng, r: u64) {
    rep.evaluations += 1;
    // build arguments: literal spelling or path into a document
    let use_paths = r % 2 == 1;
    let mut doc = Map::new();
    let mut texts = vec![];
    let mut ref_args = vec![];
    for (i, &cl) in classes.iter().enumerate() {
        match representative(cl, rng) {
            Ok(v) => {
                if use_paths {
                    let key = format!("p{}", i);
                    doc.insert(key.clone(), v.clone());
                    texts.push(key);
                } else {
                    texts.push(spell_literal(&v, 0));
                }
                ref_args.push(Arg::Val(v));
            }
            Err(src) => {
                let p = parse(&src[1..], strict).expect("expref source parses");
                texts.push(src);
                ref_args.push(Arg::Expref(p));
            }
        }
    }
    // by-functions evaluate exprefs against elements; give `&a` something to find
    let text = format!("{}({})", name, texts.join(", "));
    let docv = Value::Object(doc);
    let expected: Result<Value, ErrKind> = match signature(name) {
        None => Err(ErrKind::UnknownFunction(name.to_string())),
        Some(_) => ev.call_builtin(name, &ref_args, 0).map_err(|e| e.kind),
    };
    let got = guarded(|| jmespath::compile(&text).and_then(|e| e.search(rcvar_of(&docv))));
    let cell = format!("{}/{}", name, classes.iter().map(|c| CLASSES[*c]).collect::<Vec<_>>().join(","));
    let witness = |exp: String, got: String| json!({"expression": text, "document": docv, "cell": cell, "expected": exp, "got": got});
    let got = match got {
        Ok(g) => g,
        Err(p) => {
            rep.violation(&format!("C06/panic/{}", panic_site(&p)), witness("no panic".into(), p));
            return;
        }
    };
    let arg0 = ref_args.get(0).and_then(|a| if let Arg::Val(v) = a { Some(v) } else { None });
    match (expected, got) {
        // The reference cannot name the value (an arithmetic result outside the doubles, a padded
        // numeral), but the call is well-typed: it must not fail with a signature error, and if it
        // returns, the result must still have the declared type.
        (Err(ErrKind::Unconstrained(why)), got) if !why.contains("expression reference") => {
            rep.count("unconstrained_value_but_well_typed");
            match got {
                Err(e) if ["arity", "type", "unknown-function"].contains(&err_class(&e)) => {
                    rep.violation(&format!("C06/well-typed-call-rejected/fn={}", name), witness(format!("no signature error ({})", why), err_class(&e).into()))
                }
                Err(_) => {}
                Ok(v) => match value_of(&v) {
                    Ok(gv) if declared_result_ok(name, arg0, &gv) => {}
                    Ok(gv) => rep.violation(&format!("C06/undeclared-result-type/fn={}", name), witness(format!("declared type ({})", why), gv.to_string())),
                    Err(w) => rep.violation(&format!("C06/undeclared-result-type/fn={}", name), witness(format!("declared type ({})", why), w.into())),
                },
            }
        }
        (Err(ErrKind::Unconstrained(_)), _) => rep.count("unconstrained_cells"),
        (Err(k), Err(e)) => {
            let want = match k {
                ErrKind::Arity => "arity",
                ErrKind::Type => "type",
                ErrKind::UnknownFunction(_) => "unknown-function",
                _ => "?",
            };
            let cls = err_class(&e);
            if cls == want {
                rep.count(&format!("agree_error/{}", want));
                rep.nontrivial(fnv(cell.as_bytes()));
                // the error must carry the searched expression text
                if e.expression != text {
                    rep.violation(&format!("C06/error-without-expression/{}", name), witness(text.clone(), e.expression.clone()));
                }
            } else if cls == "parse" {
                rep.violation(&format!("C06/parse-class-runtime-error/fn={}", name), witness(want.into(), format!("{}", e)));
            } else {
                rep.violation(&format!("C06/wrong-error-kind/fn={}", name), witness(want.into(), cls.into()));
            }
        }
        (Err(k), Ok(v)) => rep.violation(&format!("C06/ill-formed-call-accepted/fn={}", name), witness(format!("{:?}", k), v.to_string())),
        (Ok(x), Err(e)) => {
            if err_class(&e) == "parse" {
                rep.violation(&format!("C06/parse-class-runtime-error/fn={}", name), witness(x.to_string(), format!("{}", e)))
            } else {
                rep.violation(&format!("C06/well-typed-call-rejected/fn={}", name), witness(x.to_string(), err_class(&e).into()))
            }
        }
        (Ok(x), Ok(v)) => match value_of(&v) {
            Ok(gv) => {
                if declared_result_ok(name, arg0, &gv) {
                    rep.count("agree_ok");
                    rep.nontrivial(fnv(cell.as_bytes()));
                    if r == 0 && rep.samples.len() < 10 && classes.len() == 2 {
                        rep.sample(json!({"expression": text, "document": docv, "result": gv, "cell": cell}));
                    }
                } else {
                    rep.violation(&format!("C06/undeclared-result-type/fn={}", name), witness(format!("declared type; reference value {}", x), gv.to_string()));
                }
            }
            Err(w) => rep.violation(&format!("C06/undeclared-result-type/fn={}", name), witness(x.to_string(), w.into())),
        },
    }
}
