//! C11 — evaluation is compositional. Only the crate is used: every law
//! compares the search of a compound expression with the searches of its parts.

use crate::common::*;
use refimpl::gen::{gen_doc, mutate_doc, GenCfg, TreeGen};
use refimpl::json::{truthy, val_eq};
use refimpl::nf::Pipeline;
use refimpl::print::Printer;
use refimpl::rng::{fnv, Rng};
use serde_json::{json, Value};

type Out = Result<Value, String>;

fn s(text: &str, doc: &Value) -> Result<Out, String> {
    guarded(|| match jmespath::compile(text) {
        Ok(e) => match e.search(rcvar_of(doc)) {
            Ok(v) => value_of(&v).map_err(|w| format!("non-json:{}", w)),
            Err(e) => Err(format!("search:{}", err_class(&e))),
        },
        Err(e) => Err(format!("compile:{}", err_class(&e))),
    })
}

fn same(a: &Out, b: &Out) -> bool {
    match (a, b) {
        (Ok(x), Ok(y)) => val_eq(x, y, 1e-12),
        (Err(x), Err(y)) => x == y,
        _ => false,
    }
}

struct Ctx<'a> {
    rep: &'a mut Report,
    law: &'static str,
    parts: Value,
    doc: &'a Value,
}

impl<'a> Ctx<'a> {
    fn check(&mut self, compound: &str, expected: &Out, nontrivial: bool) {
        self.rep.evaluations += 1;
        match s(compound, self.doc) {
            Ok(got) => {
                if same(&got, expected) {
                    self.rep.count(&format!("law_held/{}", self.law));
                    if nontrivial {
                        self.rep.nontrivial(fnv(compound.as_bytes()) ^ fnv(self.doc.to_string().as_bytes()));
                        let n = *self.rep.observed.get(&format!("law_held/{}", self.law)).unwrap_or(&0);
                        if n % 4001 == 1 {
                            self.rep.sample_family(self.law, 1, json!({"compound": compound, "document": self.doc, "result": format!("{:?}", got)}));
                        }
                    }
                } else {
                    self.rep.violation(
                        &format!("C11/law-broken/{}", self.law),
                        json!({"compound": compound, "parts": self.parts, "document": self.doc, "from_parts": format!("{:?}", expected), "compound_result": format!("{:?}", got)}),
                    );
                }
            }
            Err(p) => self.rep.violation(&format!("C11/panic/{}", panic_site(&p)), json!({"compound": compound, "panic": p})),
        }
    }
}

/// [[R(e)] for e in items if e is not null], or the first error.
fn project_via_parts(r: &str, items: &[Value], wrap_in_list: bool) -> Result<Out, String> {
    let mut out = vec![];
    for e in items {
        if e.is_null() {
            continue;
        }
        match s(r, e)? {
            Ok(v) => {
                if wrap_in_list {
                    out.push(Value::Array(vec![v]));
                } else if !v.is_null() {
                    out.push(v);
                }
            }
            Err(c) => return Ok(Err(c)),
        }
    }
    Ok(Ok(Value::Array(out)))
}

fn emit(rng: &mut Rng, p: &Pipeline) -> Option<String> {
    Printer::new(rng).emit(p).ok()
}

pub fn run(args: &Args) {
    let mut rep = Report::new("C11");
    for i in 0..args.n {
        let mut rng = Rng::derive(args.seed, args.shard + 9000, i);
        let base = gen_doc(&mut rng, 4);
        let doc = if rng.chance(1, 4) { mutate_doc(&mut rng, &base) } else { base.clone() };
        let calls = rng.chance(1, 2);
        let l_tree = TreeGen { rng: &mut rng, cfg: GenCfg { calls, depth: 2 } }.pipeline(&base, 2, 3);
        let l = match emit(&mut rng, &l_tree) {
            Some(t) => t,
            None => continue,
        };
        let l_out = match s(&l, &doc) {
            Ok(o) => o,
            Err(p) => {
                rep.violation(&format!("C11/panic/{}", panic_site(&p)), json!({"expression": l, "panic": p}));
                continue;
            }
        };
        // R and P are guided by what L produces (or an element of it)
        let sample_elem = match &l_out {
            Ok(Value::Array(a)) => a.iter().find(|e| !e.is_null()).cloned().unwrap_or(Value::Null),
            Ok(Value::Object(m)) => m.values().next().cloned().unwrap_or(Value::Null),
            Ok(v) => v.clone(),
            Err(_) => Value::Null,
        };
        let guide = if rng.chance(1, 2) { sample_elem.clone() } else { l_out.clone().unwrap_or(Value::Null) };
        let r_tree = TreeGen { rng: &mut rng, cfg: GenCfg { calls, depth: 2 } }.pipeline(&guide, 2, 3);
        let p_tree = TreeGen { rng: &mut rng, cfg: GenCfg { calls: false, depth: 2 } }.subexpr(&sample_elem, 2);
        let (r, p) = match (emit(&mut rng, &r_tree), emit(&mut rng, &p_tree)) {
            (Some(a), Some(b)) => (a, b),
            _ => continue,
        };
        let parts = json!({"L": l, "R": r, "P": p});
        macro_rules! ctx {
            ($law:expr) => {
                Ctx {
                    rep: &mut rep,
                    law: $law,
                    parts: parts.clone(),
                    doc: &doc,
                }
            };
        }
        let guard = |x: Result<Out, String>| -> Option<Out> { x.ok() };

        // 1. pipe
        {
            let expected: Out = match &l_out {
                Ok(v) => match guard(s(&r, v)) {
                    Some(o) => o,
                    None => continue,
                },
                Err(c) => Err(c.clone()),
            };
            let nt = matches!(&l_out, Ok(v) if !v.is_null()) && r != "@";
            ctx!("pipe").check(&format!("({}) | ({})", l, r), &expected, nt);
        }
        // 2-5. projections with an arbitrary right-hand side via a one-element multi-select
        let proj_forms: [(&'static str, String); 4] = [
            ("list-wildcard", format!("({})[*]", l)),
            ("slice", {
                let f = |x: Option<i64>| x.map(|v| v.to_string()).unwrap_or_default();
                let part = |rng: &mut Rng| if rng.chance(1, 3) { None } else { Some(rng.range(-3, 4)) };
                let (a, b) = (part(&mut rng), part(&mut rng));
                let c = [1i64, 1, -1, 2, -2][rng.below(5)];
                format!("({})[{}:{}:{}]", l, f(a), f(b), c)
            }),
            ("flatten", format!("({})[]", l)),
            ("object-wildcard", format!("({}).*", l)),
        ];
        for (law, base_text) in proj_forms.iter() {
            // the elements the projection ranges over are what the bare projection returns
            let elems = match guard(s(base_text, &doc)) {
                Some(o) => o,
                None => continue,
            };
            let expected: Out = match &elems {
                Ok(Value::Array(a)) => match project_via_parts(&r, a, true) {
                    Ok(o) => o,
                    Err(_) => continue,
                },
                Ok(_) => Ok(Value::Null),
                Err(c) => Err(c.clone()),
            };
            let nt = matches!(&elems, Ok(Value::Array(a)) if !a.is_empty()) && r != "@";
            ctx!(law).check(&format!("{}.[{}]", base_text, r), &expected, nt);
        }
        // 5b. bare projections (identity right-hand side): the elements themselves, nulls dropped
        if let Ok(lv) = &l_out {
            let nonnull = |xs: Vec<Value>| Value::Array(xs.into_iter().filter(|e| !e.is_null()).collect());
            let (e_wild, e_flat): (Out, Out) = match lv {
                Value::Array(a) => {
                    let mut flat = vec![];
                    for e in a {
                        match e {
                            Value::Array(inner) => flat.extend(inner.iter().cloned()),
                            other => flat.push(other.clone()),
                        }
                    }
                    (Ok(nonnull(a.clone())), Ok(nonnull(flat)))
                }
                _ => (Ok(Value::Null), Ok(Value::Null)),
            };
            let nt = matches!(lv, Value::Array(a) if a.iter().any(|e| e.is_null()) || !a.is_empty());
            ctx!("bare-list-wildcard").check(&format!("({})[*]", l), &e_wild, nt);
            ctx!("bare-flatten").check(&format!("({})[]", l), &e_flat, nt);
            let e_obj: Out = match lv {
                Value::Object(m) => Ok(nonnull(m.values().cloned().collect())),
                _ => Ok(Value::Null),
            };
            ctx!("bare-object-wildcard").check(&format!("({}).*", l), &e_obj, matches!(lv, Value::Object(m) if !m.is_empty()));
            let (a, b, c) = (rng.range(-3, 3), rng.range(-3, 4), [1i64, -1, 2][rng.below(3)]);
            let e_slice: Out = match lv {
                Value::Array(arr) => {
                    let idx = refimpl::eval::slice_indices(arr.len() as i128, Some(a as i128), Some(b as i128), c as i128);
                    Ok(nonnull(idx.into_iter().map(|i| arr[i].clone()).collect()))
                }
                _ => Ok(Value::Null),
            };
            ctx!("bare-slice").check(&format!("({})[{}:{}:{}]", l, a, b, c), &e_slice, nt);
        }
        // 6. plain chains drop nulls and keep order
        if let Ok(Value::Array(a)) = &l_out {
            let key = match &sample_elem {
                Value::Object(m) if !m.is_empty() => m.keys().nth(rng.below(m.len())).unwrap().clone(),
                _ => "a".to_string(),
            };
            let field = refimpl::lex::spell_ident(&key, false, 0);
            if let Ok(expected) = project_via_parts(&field, a, false) {
                ctx!("projection-field-chain").check(&format!("({})[*].{}", l, field), &expected, !a.is_empty());
            }
            let n = rng.range(-2, 2);
            if let Ok(expected) = project_via_parts(&format!("[{}]", n), a, false) {
                ctx!("projection-index-chain").check(&format!("({})[*][{}]", l, n), &expected, !a.is_empty());
            }
        }
        // 6b. every kind of projection carries a multi-step right-hand side to each element: the
        // steps after the projection (member, then a filter / index / flatten on that member) are
        // applied per element, whichever bracket form started the projection
        if let Ok(Value::Array(_)) = &l_out {
            let key = match &sample_elem {
                Value::Object(m) if !m.is_empty() => m.keys().nth(rng.below(m.len())).unwrap().clone(),
                _ => "a".to_string(),
            };
            let field = refimpl::lex::spell_ident(&key, false, 0);
            let (a, b, c) = (rng.range(-3, 3), rng.range(-3, 4), [1i64, -1, 2][rng.below(3)]);
            let starts: [(&'static str, String); 4] = [
                ("chain/list-wildcard", format!("({})[*]", l)),
                ("chain/slice", format!("({})[{}:{}:{}]", l, a, b, c)),
                ("chain/flatten", format!("({})[]", l)),
                ("chain/filter", format!("({})[?`true`]", l)),
            ];
            let tails = [format!("{}[?{}]", field, p), format!("{}[0]", field), format!("{}[?{}].{}", field, p, field), format!("{}.*", field), format!("{}[*]", field), format!("{}[1:]", field)];
            let tail = &tails[rng.below(tails.len())];
            for (law, start) in starts.iter() {
                // (a filter projection's right-hand side is parsed with the filter's own binding power:
                // a second `[?` ends it — the documented tie-break C04 pins down — so no filter tails there)
                if *law == "chain/filter" && tail.contains("[?") {
                    continue;
                }
                let elems = match guard(s(start, &doc)) {
                    Some(Ok(Value::Array(e))) => e,
                    _ => continue,
                };
                // flatten ends the projection it follows and starts a new one; the tail applies to ITS elements
                if let Ok(expected) = project_via_parts(tail, &elems, false) {
                    ctx!(law).check(&format!("{}.{}", start, tail), &expected, !elems.is_empty());
                }
            }
        }
        // 7. filter
        {
            let expected: Out = match &l_out {
                Ok(Value::Array(a)) => {
                    let mut out = vec![];
                    let mut err = None;
                    for e in a {
                        match guard(s(&p, e)) {
                            Some(Ok(v)) => {
                                if truthy(&v) && !e.is_null() {
                                    out.push(e.clone());
                                }
                            }
                            Some(Err(c)) => {
                                err = Some(c);
                                break;
                            }
                            None => {
                                err = Some("panic".into());
                                break;
                            }
                        }
                    }
                    match err {
                        Some(c) => Err(c),
                        None => Ok(Value::Array(out)),
                    }
                }
                Ok(_) => Ok(Value::Null),
                Err(c) => Err(c.clone()),
            };
            let nt = matches!(&l_out, Ok(Value::Array(a)) if !a.is_empty());
            ctx!("filter").check(&format!("({})[?{}]", l, p), &expected, nt);
        }
        // 8. multi-select list / hash
        let r_on_doc = match guard(s(&r, &doc)) {
            Some(o) => o,
            None => continue,
        };
        {
            let expected: Out = if doc.is_null() {
                Ok(Value::Null)
            } else {
                match (&l_out, &r_on_doc) {
                    (Ok(a), Ok(b)) => Ok(json!([a, b])),
                    (Err(c), _) => Err(c.clone()),
                    (_, Err(c)) => Err(c.clone()),
                }
            };
            ctx!("multi-select-list").check(&format!("[{}, {}]", l, r), &expected, !doc.is_null());
            let expected_h: Out = match &expected {
                Ok(Value::Array(ab)) => Ok(json!({"a": ab[0], "b": ab[1]})),
                other => other.clone(),
            };
            ctx!("multi-select-hash").check(&format!("{{a: {}, b: {}}}", l, r), &expected_h, !doc.is_null());
        }
        // 8c. a dotted name is one member, a dotted path is several: every way of cutting "a.b.x" into
        // quoted members side by side in one multi-select, each reaching its own value
        if i % 7 == 0 {
            let d = json!({"a": {"b": {"x": 1}, "b.x": 2}, "a.b": {"x": 3}, "a.b.x": 4, "b": {"x": 5}, "x": 6});
            let members = ["a.b.x", "\"a.b\".x", "a.\"b.x\"", "\"a.b.x\"", "a.b | x", "a | b.x", "\"a.b\" | x", "b.x", "a.\"b\".x"];
            let wants = [json!(1), json!(3), json!(2), json!(4), json!(1), json!(1), json!(3), json!(5), json!(1)];
            let mut order: Vec<usize> = (0..members.len()).collect();
            for k in (1..order.len()).rev() {
                let j = rng.below(k + 1);
                order.swap(k, j);
            }
            let take = 2 + rng.below(members.len() - 1);
            let pick: Vec<usize> = order.into_iter().take(take).collect();
            let text = format!("[{}]", pick.iter().map(|k| members[*k]).collect::<Vec<_>>().join(", "));
            let want = Value::Array(pick.iter().map(|k| wants[*k].clone()).collect());
            let mut c = Ctx { rep: &mut rep, law: "dotted-names-and-paths", parts: json!({"members": pick.iter().map(|k| members[*k]).collect::<Vec<_>>()}), doc: &d };
            c.check(&text, &Ok(want.clone()), true);
            let htext = format!("{{{}}}", pick.iter().enumerate().map(|(n, k)| format!("k{}: {}", n, members[*k])).collect::<Vec<_>>().join(", "));
            let hwant: serde_json::Map<String, Value> = pick.iter().enumerate().map(|(n, k)| (format!("k{}", n), wants[*k].clone())).collect();
            c.check(&htext, &Ok(Value::Object(hwant)), true);
        }
        // 8d. flatten removes exactly one level, also when what it flattens was built by nested multi-selects
        if !doc.is_null() {
            if let (Ok(a), Ok(b)) = (&l_out, &r_on_doc) {
                let one_level = |items: Vec<Value>| -> Value {
                    let mut out = vec![];
                    for it in items {
                        match it {
                            Value::Array(inner) => out.extend(inner),
                            other => out.push(other),
                        }
                    }
                    Value::Array(out.into_iter().filter(|v| !v.is_null()).collect())
                };
                let e1 = one_level(vec![json!([a, b]), a.clone()]);
                ctx!("flatten-of-nested-multi-select").check(&format!("[[({}), ({})], ({})][]", l, r, l), &Ok(e1), true);
                let e2 = one_level(vec![json!([[a]]), json!([b])]);
                ctx!("flatten-of-nested-multi-select").check(&format!("[[[({})]], [({})]][]", l, r), &Ok(e2), true);
            }
            // an argument that fails makes the call fail (with that failure), whatever the other arguments are
            let bad = ["abs('x')", "nofn(@)", "length()"][rng.below(3)];
            let class = ["type", "unknown-function", "arity"][["abs('x')", "nofn(@)", "length()"].iter().position(|b| *b == bad).unwrap()];
            if l_out.is_ok() {
                for text in [format!("not_null(({}), {})", l, bad), format!("not_null({}, ({}))", bad, l), format!("to_array({})", bad), format!("merge(`{{}}`, {})", bad), format!("length({})", bad)] {
                    ctx!("failing-argument").check(&text, &Err(format!("search:{}", class)), true);
                }
            }
        }
        // 8a. n copies of one member side by side: n results, whatever n is
        if i % 5 == 0 {
            let n = [2usize, 3, 5, 9, 17, 33, 65, 70, 129, 140][rng.below(10)];
            let expected: Out = if doc.is_null() {
                Ok(Value::Null)
            } else {
                l_out.clone().map(|v| Value::Array((0..n).map(|_| json!({"v": v.clone(), "w": [v.clone()]})).collect()))
            };
            let member = format!("{{v: ({}), w: [({})]}}", l, l);
            ctx!("multi-select-list-of-n-hashes").check(&format!("[{}]", (0..n).map(|_| member.clone()).collect::<Vec<_>>().join(", ")), &expected, !doc.is_null());
        }
        // 8b. wide multi-selects of plain members, renamed in every order: member i of the result is
        // the value of field i, whatever the order of the output keys and of the document's keys
        if let Value::Object(m) = &doc {
            if !m.is_empty() {
                let n = 4 + rng.below(6);
                let keys: Vec<&String> = m.keys().collect();
                let mut out_names: Vec<String> = (0..n).map(|i| format!("{}{}", ["a", "z", "m", "K", "_"][i % 5], i)).collect();
                // a random permutation of the output names
                for i in (1..out_names.len()).rev() {
                    let j = rng.below(i + 1);
                    out_names.swap(i, j);
                }
                let fields: Vec<String> = (0..n).map(|_| if rng.chance(1, 8) { "no_such_member".to_string() } else { keys[rng.below(keys.len())].clone() }).collect();
                let members: Vec<String> = out_names.iter().zip(&fields).map(|(k, f)| format!("{}: {}", k, refimpl::lex::spell_ident(f, false, 0))).collect();
                let mut want = serde_json::Map::new();
                for (k, f) in out_names.iter().zip(&fields) {
                    want.insert(k.clone(), m.get(f).cloned().unwrap_or(Value::Null));
                }
                ctx!("multi-select-hash-wide").check(&format!("{{{}}}", members.join(", ")), &Ok(Value::Object(want.clone())), true);
                let listed: Vec<String> = fields.iter().map(|f| refimpl::lex::spell_ident(f, false, 0)).collect();
                let want_list = Value::Array(fields.iter().map(|f| m.get(f).cloned().unwrap_or(Value::Null)).collect());
                ctx!("multi-select-list-wide").check(&format!("[{}]", listed.join(", ")), &Ok(want_list), true);
            }
        }
        // 8e. a right-hand side that ends in a call sees EVERY element the projection ranges over, null
        // elements included (a call may map null to something), whichever bracket form started the projection
        // and however the right-hand side is spelled (directly, or behind a member)
        if i % 2 == 0 {
            let mut xs: Vec<Value> = match &l_out {
                Ok(Value::Array(a)) if rng.chance(1, 2) => a.iter().take(6).cloned().collect(),
                _ => (0..rng.below(6)).map(|_| match rng.below(6) { 0 => Value::Null, 1 => sample_elem.clone(), 2 => json!({"a": rng.range(-3, 3)}), 3 => json!({"a": "x", "b": null}), 4 => json!([rng.range(0, 3), null]), _ => json!(rng.range(-2, 2)) }).collect(),
            };
            if rng.chance(2, 3) {
                let at = rng.below(xs.len() + 1);
                xs.insert(at, Value::Null);
            }
            let d = json!({"xs": xs, "o": xs.iter().enumerate().map(|(k, v)| (format!("k{}", k), v.clone())).collect::<serde_json::Map<String, Value>>()});
            const TAILS: [&str; 14] = ["type(@)", "to_string(@)", "not_null(@, `0`)", "to_array(@)", "a.type(@)", "a.to_string(@)", "length(@)", "abs(@)", "keys(@)", "not_null(a, `1`)", "to_array(@)[0]", "{t: type(@)}.t", "a.b.type(@)", "to_array(a)[0]"];
            let tail = TAILS[rng.below(TAILS.len())];
            const PREDS: [&str; 8] = ["!a", "a != 'x'", "!@", "`true`", "@ == `null`", "a", "!a || a", "type(@) != 'number'"];
            let pred = PREDS[rng.below(PREDS.len())];
            let (a, b, c) = (rng.range(-3, 3), rng.range(-3, 4), [1i64, -1, 2][rng.below(3)]);
            let flat: Vec<Value> = xs.iter().flat_map(|e| match e { Value::Array(inner) => inner.clone(), other => vec![other.clone()] }).collect();
            let sliced: Vec<Value> = refimpl::eval::slice_indices(xs.len() as i128, Some(a as i128), Some(b as i128), c as i128).into_iter().map(|k| xs[k].clone()).collect();
            let mut kept = Some(vec![]);
            for e in xs.iter() {
                match guard(s(pred, e)) {
                    Some(Ok(v)) => { if truthy(&v) { if let Some(k) = kept.as_mut() { k.push(e.clone()) } } }
                    _ => { kept = None; break; }
                }
            }
            let mut forms: Vec<(&'static str, String, Vec<Value>)> = vec![
                ("call-tail/list-wildcard", "xs[*]".to_string(), xs.clone()),
                ("call-tail/slice", format!("xs[{}:{}:{}]", a, b, c), sliced),
                ("call-tail/flatten", "xs[]".to_string(), flat),
                ("call-tail/object-wildcard", "o.*".to_string(), xs.clone()),
            ];
            if let Some(k) = kept {
                forms.push(("call-tail/filter", format!("xs[?{}]", pred), k));
            }
            for (law, start, elems) in forms.into_iter() {
                let mut out = vec![];
                let mut expected: Option<Out> = None;
                for e in elems.iter() {
                    match guard(s(tail, e)) {
                        Some(Ok(v)) => { if !v.is_null() { out.push(v) } }
                        Some(Err(cl)) => { expected = Some(Err(cl)); break; }
                        None => { expected = Some(Err("skip".into())); break; }
                    }
                }
                let expected = expected.unwrap_or(Ok(Value::Array(out)));
                if matches!(&expected, Err(x) if x == "skip") {
                    continue;
                }
                let mut cx = Ctx { rep: &mut rep, law, parts: json!({"projection": start, "right_hand_side": tail, "elements": elems}), doc: &d };
                cx.check(&format!("{}.{}", start, tail), &expected, elems.iter().any(|e| e.is_null()));
                if rng.chance(1, 3) {
                    cx.check(&format!("({}.{})", start, tail), &expected, false);
                }
            }
        }
        // 8f. a call applied to the result of a call is the outer call applied to that result: f(g(x)) from
        // g(x) and f(y), for every pair of one-argument built-ins (no pair may be fused into something else)
        if i % 2 == 1 {
            const ONE: [&str; 17] = ["abs", "avg", "ceil", "floor", "keys", "length", "max", "min", "reverse", "sort", "sum", "to_array", "to_number", "to_string", "type", "values", "not_null"];
            let (f, g) = (ONE[rng.below(ONE.len())], ONE[rng.below(ONE.len())]);
            let subject = match rng.below(6) { 0 => doc.clone(), 1 => sample_elem.clone(), 2 => l_out.clone().unwrap_or(Value::Null), 3 => json!([3, 1, 2]), 4 => json!("hello"), _ => json!({"a": "hello", "b": [1, 2, 3]}) };
            if let Some(inner) = guard(s(&format!("{}(@)", g), &subject)) {
                let expected: Option<Out> = match &inner {
                    Ok(v) => guard(s(&format!("{}(@)", f), v)),
                    Err(cl) => Some(Err(cl.clone())),
                };
                if let Some(expected) = expected {
                    let mut cx = Ctx { rep: &mut rep, law: "call-of-a-call", parts: json!({"outer": f, "inner": g, "inner_result": format!("{:?}", inner)}), doc: &subject };
                    cx.check(&format!("{}({}(@))", f, g), &expected, inner.is_ok());
                    let three = ONE[rng.below(ONE.len())];
                    if let Some(e3) = match &expected { Ok(v) => guard(s(&format!("{}(@)", three), v)), Err(cl) => Some(Err(cl.clone())) } {
                        cx.check(&format!("{}({}({}(@)))", three, f, g), &e3, expected.is_ok());
                    }
                }
            }
        }
        // 9. not / and / or: truth-table combination of the operands' individual results
        {
            let not_e: Out = l_out.clone().map(|v| Value::Bool(!truthy(&v)));
            ctx!("not").check(&format!("!({})", l), &not_e, true);
            let and_e: Out = match &l_out {
                Ok(v) if !truthy(v) => Ok(v.clone()),
                Ok(_) => r_on_doc.clone(),
                Err(c) => Err(c.clone()),
            };
            ctx!("and").check(&format!("({}) && ({})", l, r), &and_e, true);
            let or_e: Out = match &l_out {
                Ok(v) if truthy(v) => Ok(v.clone()),
                Ok(_) => r_on_doc.clone(),
                Err(c) => Err(c.clone()),
            };
            ctx!("or").check(&format!("({}) || ({})", l, r), &or_e, true);
            // negations as operands: `!` yields a boolean, and `&&` / `||` hand on the operand's VALUE,
            // so a negation may not be simplified away on the strength of "only the truth value matters"
            let t = l_out.clone().map(|v| truthy(&v));
            let nn_e: Out = t.clone().map(Value::Bool);
            ctx!("double-not").check(&format!("!!({})", l), &nn_e, true);
            let nn_or: Out = match &t {
                Ok(true) => Ok(Value::Bool(true)),
                Ok(false) => r_on_doc.clone(),
                Err(c) => Err(c.clone()),
            };
            ctx!("double-not-or").check(&format!("!!({}) || ({})", l, r), &nn_or, true);
            let nn_and: Out = match &t {
                Ok(true) => r_on_doc.clone(),
                Ok(false) => Ok(Value::Bool(false)),
                Err(c) => Err(c.clone()),
            };
            ctx!("double-not-and").check(&format!("!!({}) && ({})", l, r), &nn_and, true);
            let n_or: Out = match &t {
                Ok(false) => Ok(Value::Bool(true)),
                Ok(true) => r_on_doc.clone(),
                Err(c) => Err(c.clone()),
            };
            ctx!("not-or").check(&format!("!({}) || ({})", l, r), &n_or, true);
            let n_and: Out = match &t {
                Ok(false) => r_on_doc.clone(),
                Ok(true) => Ok(Value::Bool(false)),
                Err(c) => Err(c.clone()),
            };
            ctx!("not-and").check(&format!("!({}) && ({})", l, r), &n_and, true);
            let rhs_nn: Out = match &l_out {
                Ok(v) if truthy(v) => Ok(v.clone()),
                Ok(_) => r_on_doc.clone().map(|v| Value::Bool(truthy(&v))),
                Err(c) => Err(c.clone()),
            };
            ctx!("or-double-not").check(&format!("({}) || !!({})", l, r), &rhs_nn, true);
        }
        // 10. comparisons on the two results
        {
            let op = ["==", "!=", "<", "<=", ">", ">="][rng.below(6)];
            let expected: Out = match (&l_out, &r_on_doc) {
                (Ok(a), Ok(b)) => match guard(s(&format!("a {} b", op), &json!({"a": a, "b": b}))) {
                    Some(o) => o,
                    None => continue,
                },
                (Err(c), _) => Err(c.clone()),
                (_, Err(c)) => Err(c.clone()),
            };
            ctx!("comparison").check(&format!("({}) {} ({})", l, op, r), &expected, true);
            // the same sub-expression on both sides (possibly the very same node): as two equal values would compare
            let expected_same: Out = match &l_out {
                Ok(a) => match guard(s(&format!("a {} b", op), &json!({"a": a, "b": a}))) {
                    Some(o) => o,
                    None => continue,
                },
                Err(c) => Err(c.clone()),
            };
            ctx!("comparison-of-a-value-with-itself").check(&format!("({}) {} ({})", l, op, l), &expected_same, true);
        }
        // 11. function arguments
        {
            let f = ["contains", "not_null", "to_array", "type", "starts_with", "merge", "join"][rng.below(7)];
            let two = !matches!(f, "to_array" | "type");
            let expected: Out = match (&l_out, &r_on_doc) {
                (Err(c), _) => Err(c.clone()),
                (Ok(_), Err(c)) if two => Err(c.clone()),
                (Ok(a), b) => {
                    let (text, d) = if two { (format!("{}(@[0], @[1])", f), json!([a, b.as_ref().ok()])) } else { (format!("{}(@[0])", f), json!([a])) };
                    match guard(s(&text, &d)) {
                        Some(o) => o,
                        None => continue,
                    }
                }
            };
            let compound = if two { format!("{}({}, {})", f, l, r) } else { format!("{}({})", f, l) };
            ctx!("function-arguments").check(&compound, &expected, true);
        }
    }
    emit_report(args, &rep);
}
