//! C16, observer 1: with the `sync` feature compiled expressions, runtimes and
//! values are Send and Sync. If this crate stops compiling while the library
//! itself still builds, the obligation is violated (witness = compiler output).

use jmespath::ast::Ast;
use jmespath::functions::Function;
use jmespath::{Expression, JmespathError, Rcvar, Runtime, Variable};

fn assert_send_sync<T: Send + Sync>() {}
fn assert_send<T: Send>() {}

pub fn obligations() {
    assert_send_sync::<Expression<'static>>();
    assert_send_sync::<Runtime>();
    assert_send_sync::<Variable>();
    assert_send_sync::<Rcvar>();
    assert_send_sync::<Ast>();
    assert_send_sync::<JmespathError>();
    assert_send_sync::<Box<dyn Function>>();
    assert_send_sync::<&'static Runtime>();
    assert_send::<Result<Rcvar, JmespathError>>();
}

/// An expression compiled on one thread can be moved to and used on another.
pub fn moves_across_threads() -> bool {
    let e = jmespath::compile("a.b").unwrap();
    let v = Rcvar::new(Variable::from_json("{\"a\":{\"b\":1}}").unwrap());
    let h = std::thread::spawn(move || e.search(&v).map(|r| r.to_string()).ok());
    h.join().ok().flatten().as_deref() == Some("1")
}
