//! C16 workloads: threads share compiled expressions and input values and must
//! obtain exactly the results a sequential execution obtains.
//!   conc stress <threads> <ops> <seed>      mixed compile/clone/search on shared state
//!   conc first  <threads> <spins> <seed>    all threads race on the FIRST use of the default runtime
//!   conc runtimes <threads> <rounds> <seed> one fresh runtime per round shared by all threads (lazy per-runtime state)
//!   conc small  <seed>                      4 threads, ~40 operations incl. the first-use race (Miri / TSan)
//! Prints one JSON line; exit 0 unless the harness itself failed.

use jmespath::{Expression, Rcvar, Variable};
use serde_json::{json, Value};
use std::panic::{catch_unwind, AssertUnwindSafe};
use std::sync::{Arc, Barrier};
use std::thread;

struct Rng(u64);
impl Rng {
    fn next(&mut self) -> u64 {
        self.0 = self.0.wrapping_add(0x9E3779B97F4A7C15);
        let mut z = self.0;
        z = (z ^ (z >> 30)).wrapping_mul(0xBF58476D1CE4E5B9);
        z = (z ^ (z >> 27)).wrapping_mul(0x94D049BB133111EB);
        z ^ (z >> 31)
    }
    fn below(&mut self, n: usize) -> usize {
        (self.next() % n as u64) as usize
    }
}

const EXPRS: [&str; 24] = [
    "@", "a.b", "xs[*]", "recs[*].k", "recs[?k == `1`].id", "sort_by(recs, &id)[*].id", "length(xs)", "xs[::-1]", "{a: a, n: length(@)}",
    "recs[].k | [0]", "keys(@)", "xs[*].abs(@)", "map(&abs(@), xs)", "sort_by(xs, &@)", "max_by(recs, &k)", "nofn(@)", "xs[::0]",
    "sum(xs[?type(@) == 'number'])", "join(', ', recs[*].to_string(k))", "merge(@, {z: `1`})", "not_null(a.c, a.b, `0`)", "reverse(xs)",
    "recs[*].[id, k]", "to_array(a) | [0].b",
];

fn docs() -> Vec<Value> {
    vec![
        json!({"a": {"b": 1}, "xs": [3, 1, 2], "recs": [{"id": 0, "k": 1}, {"id": 1, "k": 2}, {"id": 2, "k": 1}]}),
        json!({"a": 1, "xs": [1, "x", 2], "recs": [{"id": 0, "k": 1}, {"id": 1, "k": "a"}]}),
        json!({"xs": [], "recs": []}),
        json!(null),
        json!({"a": null, "xs": [-1, -2.5], "recs": [{"id": 0, "k": -3}, {"id": 1, "k": [1]}]}),
        json!({"a": {"b": {"c": [1, 2, 3]}}, "xs": [10, 9, 8, 7, 6, 5, 4, 3, 2, 1], "recs": [{"id": 5, "k": "z"}, {"id": 4, "k": "y"}]}),
    ]
}

fn var_of(v: &Value) -> Variable {
    match v {
        Value::Null => Variable::Null,
        Value::Bool(b) => Variable::Bool(*b),
        Value::Number(n) => Variable::Number(n.clone()),
        Value::String(s) => Variable::String(s.clone()),
        Value::Array(a) => Variable::Array(a.iter().map(|e| Rcvar::new(var_of(e))).collect()),
        Value::Object(m) => Variable::Object(m.iter().map(|(k, e)| (k.clone(), Rcvar::new(var_of(e)))).collect()),
    }
}

fn fp(r: &Result<Rcvar, jmespath::JmespathError>) -> String {
    match r {
        Ok(v) => format!("ok:{}", v),
        Err(e) => format!("err:{}:{}", e.offset, e.reason),
    }
}

fn stress(threads: usize, ops: usize, seed: u64, nexpr: usize, ndocs: usize) -> Value {
    let nexpr = nexpr.min(EXPRS.len()).max(1);
    // a spread of the pool: plain paths, projections, by-functions, failing calls
    let pick: Vec<usize> = (0..nexpr).map(|i| (i * 7 + 1) % EXPRS.len()).collect();
    let names: Vec<&'static str> = pick.iter().map(|i| EXPRS[*i]).collect();
    let inputs: Arc<Vec<Rcvar>> = Arc::new(docs().iter().take(ndocs.max(1)).map(|d| Rcvar::new(var_of(d))).collect());
    let exprs: Arc<Vec<Expression<'static>>> = Arc::new(names.iter().map(|e| jmespath::compile(e).unwrap()).collect());
    // sequential ground truth
    let truth: Arc<Vec<Vec<String>>> = Arc::new(exprs.iter().map(|e| inputs.iter().map(|d| fp(&e.search(d))).collect()).collect());
    let input_prints: Vec<String> = inputs.iter().map(|v| v.to_string()).collect();
    let barrier = Arc::new(Barrier::new(threads));
    let mut handles = vec![];
    for t in 0..threads {
        let (inputs, exprs, truth, barrier) = (inputs.clone(), exprs.clone(), truth.clone(), barrier.clone());
        let names = names.clone();
        handles.push(thread::spawn(move || {
            let mut rng = Rng(seed ^ ((t as u64 + 1) << 32));
            let mut mismatches: Vec<Value> = vec![];
            let mut done = 0u64;
            let mut order: Vec<u64> = vec![];
            barrier.wait();
            let r = catch_unwind(AssertUnwindSafe(|| {
                let mut local: Vec<(usize, Expression<'static>)> = vec![];
                for k in 0..ops {
                    let e = rng.below(names.len());
                    let d = rng.below(inputs.len());
                    if k < 8 {
                        order.push(jmespath::verif::next_ticket());
                    }
                    let got = match rng.below(8) {
                        0 => {
                            // compile through the shared default runtime, then search
                            let x = jmespath::compile(names[e]).unwrap();
                            let g = fp(&x.search(&inputs[d]));
                            if local.len() < 8 {
                                local.push((e, x));
                            }
                            g
                        }
                        1 => fp(&exprs[e].clone().search(&inputs[d])),
                        2 if !local.is_empty() => {
                            let i = rng.below(local.len());
                            let (e2, x) = &local[i];
                            let g = fp(&x.search(&inputs[d]));
                            if g != truth[*e2][d] {
                                mismatches.push(json!({"expression": names[*e2], "doc": d, "sequential": truth[*e2][d], "concurrent": g, "thread": t, "handle": "thread-local"}));
                            }
                            done += 1;
                            continue;
                        }
                        3 if !local.is_empty() => {
                            let i = rng.below(local.len());
                            local.swap_remove(i);
                            continue;
                        }
                        6 | 7 => {
                            // churn: a (most likely) never-seen-before expression text whose tree and
                            // result are known without any sequential pre-computation
                            let i = rng.next() % 100_000_000;
                            let text = format!("a.b | [@, `{}`, length('{}')]", i, "x".repeat((i % 7) as usize));
                            let x = jmespath::compile(&text).unwrap();
                            let fresh = jmespath::parse(&text).unwrap();
                            done += 1;
                            if x.as_ast() != &fresh && mismatches.len() < 5 {
                                mismatches.push(json!({"expression": text, "thread": t, "problem": "compile returned a tree that is not the tree of this text", "got": format!("{:?}", x.as_ast())}));
                            }
                            let g = fp(&x.search(&inputs[0]));
                            let want = format!("ok:[1,{},{}]", i, i % 7);
                            if g != want && mismatches.len() < 5 {
                                mismatches.push(json!({"expression": text, "thread": t, "sequential": want, "concurrent": g, "handle": "churn"}));
                            }
                            continue;
                        }
                        _ => fp(&exprs[e].search(&inputs[d])),
                    };
                    done += 1;
                    if got != truth[e][d] && mismatches.len() < 5 {
                        mismatches.push(json!({"expression": names[e], "doc": d, "sequential": truth[e][d], "concurrent": got, "thread": t}));
                    }
                }
            }));
            (mismatches, done, order, r.is_err())
        }));
    }
    let mut mismatches = vec![];
    let mut total = 0u64;
    let mut panics = 0;
    let mut orders: Vec<(u64, usize)> = vec![];
    for (t, h) in handles.into_iter().enumerate() {
        match h.join() {
            Ok((m, d, o, p)) => {
                mismatches.extend(m);
                total += d;
                if p {
                    panics += 1;
                }
                orders.extend(o.into_iter().map(|x| (x, t)));
            }
            Err(_) => panics += 1,
        }
    }
    orders.sort();
    let sig: String = orders.iter().take(48).map(|(_, t)| std::char::from_digit((*t % 36) as u32, 36).unwrap()).collect();
    let mutated: Vec<usize> = inputs.iter().enumerate().filter(|(i, v)| v.to_string() != input_prints[*i]).map(|(i, _)| i).collect();
    json!({"mode": "stress", "threads": threads, "searches": total, "mismatches": mismatches, "panics": panics, "interleaving": sig, "inputs_mutated": mutated})
}

/// All threads enter `search` on the SAME shared expression at the same instant (spin
/// barrier), each with its own document, round after round: interference between
/// simultaneous searches of one expression object shows up as a foreign or missing element.
fn burst(threads: usize, rounds: usize, seed: u64) -> Value {
    use std::sync::atomic::{AtomicUsize, Ordering};
    let exprs: Arc<Vec<Expression<'static>>> = Arc::new(EXPRS.iter().map(|e| jmespath::compile(e).unwrap()).collect());
    let docs: Vec<Value> = (0..threads)
        .map(|t| {
            let recs: Vec<Value> = (0..6 + t % 3).map(|i| json!({"id": 100 * t + i, "k": (i + t) % 3})).collect();
            json!({"a": {"b": t, "c": null}, "xs": [t as i64, t as i64 + 7, -(t as i64), 3], "recs": recs})
        })
        .collect();
    let inputs: Arc<Vec<Rcvar>> = Arc::new(docs.iter().map(|d| Rcvar::new(var_of(d))).collect());
    let truth: Arc<Vec<Vec<String>>> = Arc::new(exprs.iter().map(|e| inputs.iter().map(|d| fp(&e.search(d))).collect()).collect());
    let arrived = Arc::new(AtomicUsize::new(0));
    let mut handles = vec![];
    for t in 0..threads {
        let (exprs, inputs, truth, arrived) = (exprs.clone(), inputs.clone(), truth.clone(), arrived.clone());
        handles.push(thread::spawn(move || {
            let mut mism: Vec<Value> = vec![];
            let mut done = 0u64;
            let r = catch_unwind(AssertUnwindSafe(|| {
                for round in 0..rounds {
                    let e = (round + seed as usize) % exprs.len();
                    arrived.fetch_add(1, Ordering::SeqCst);
                    while arrived.load(Ordering::SeqCst) < (round + 1) * threads {
                        std::hint::spin_loop();
                    }
                    let g = fp(&exprs[e].search(&inputs[t]));
                    done += 1;
                    if g != truth[e][t] && mism.len() < 4 {
                        mism.push(json!({"expression": EXPRS[e], "thread": t, "round": round, "sequential": truth[e][t], "concurrent": g, "mode": "burst"}));
                    }
                }
            }));
            (mism, done, r.is_err())
        }));
    }
    let mut mismatches = vec![];
    let mut total = 0;
    let mut panics = 0;
    for h in handles {
        match h.join() {
            Ok((m, d, p)) => {
                mismatches.extend(m);
                total += d;
                if p {
                    panics += 1;
                }
            }
            Err(_) => panics += 1,
        }
    }
    json!({"mode": "stress", "threads": threads, "searches": total, "mismatches": mismatches, "panics": panics, "interleaving": format!("burst{}x{}", threads, rounds), "inputs_mutated": []})
}

const PROBES: [&str; 26] = [
    "abs(`-1`)", "avg(`[1, 2, 3]`)", "ceil(`1.5`)", "contains('abc', 'b')", "ends_with('abc', 'c')", "floor(`1.5`)", "join('-', `[\"a\", \"b\"]`)",
    "keys(`{\"a\": 1}`)", "length('abc')", "map(&@, `[1]`)", "max(`[1, 3, 2]`)", "max_by(`[{\"k\": 1}, {\"k\": 2}]`, &k)", "merge(`{\"a\": 1}`, `{\"b\": 2}`)",
    "min(`[1, 3, 2]`)", "min_by(`[{\"k\": 1}, {\"k\": 2}]`, &k)", "not_null(`null`, `1`)", "reverse('abc')", "sort(`[3, 1, 2]`)",
    "sort_by(`[{\"k\": 2}, {\"k\": 1}]`, &k)", "starts_with('abc', 'a')", "sum(`[1, 2]`)", "to_array(`1`)", "to_number('1')", "to_string(`1`)",
    "type(`1`)", "values(`{\"a\": 1}`)",
];

/// All threads' first library call is a compile through the default runtime,
/// released by one barrier; every thread then calls each built-in once.
fn first(threads: usize, spins: u64, nprobes: usize) -> Value {
    let probes: &'static [&'static str] = &PROBES[..nprobes.min(PROBES.len()).max(1)];
    jmespath::verif::arm_init_delay(spins);
    let barrier = Arc::new(Barrier::new(threads));
    let mut handles = vec![];
    for t in 0..threads {
        let barrier = barrier.clone();
        handles.push(thread::spawn(move || {
            barrier.wait();
            let before = jmespath::verif::next_ticket();
            let r = catch_unwind(AssertUnwindSafe(|| {
                probes
                    .iter()
                    .map(|p| match jmespath::compile(p) {
                        Ok(e) => fp(&e.search(())),
                        Err(e) => format!("compile-err:{}", e.reason),
                    })
                    .collect::<Vec<String>>()
            }));
            (t, before, r.ok())
        }));
    }
    let results: Vec<(usize, u64, Option<Vec<String>>)> = handles.into_iter().map(|h| h.join().unwrap_or((usize::MAX, 0, None))).collect();
    let (inits, init_ticket) = jmespath::verif::runtime_init_info();
    // sequential results after the race
    let seq: Vec<String> = probes.iter().map(|p| fp(&jmespath::compile(p).and_then(|e| e.search(())))).collect();
    let mut problems = vec![];
    for (i, s) in seq.iter().enumerate() {
        if !s.starts_with("ok:") {
            problems.push(json!({"probe": probes[i], "sequential_after_race": s}));
        }
    }
    let mut panics = 0;
    for (t, _, r) in &results {
        match r {
            None => panics += 1,
            Some(rs) => {
                for (i, g) in rs.iter().enumerate() {
                    if g != &seq[i] && problems.len() < 8 {
                        problems.push(json!({"probe": probes[i], "thread": t, "concurrent": g, "sequential": seq[i]}));
                    }
                }
            }
        }
    }
    let arrived_before_init = results.iter().filter(|(_, b, _)| *b < init_ticket).count();
    json!({"mode": "first", "threads": threads, "spins": spins, "runtime_initialisations": inits, "arrived_before_init": arrived_before_init,
           "problems": problems, "panics": panics, "probes": probes.len() * threads})
}

const TYPE_PROBES: [&str; 7] = ["type(`null`)", "type(`true`)", "type(`1.5`)", "type('s')", "type(`[1]`)", "type(`{\"a\": 1}`)", "type(`7`)"];

fn by_doc() -> Value {
    // eight key columns k0..k7, each ordering the ten records differently
    let recs: Vec<Value> = (0..10u64)
        .map(|i| {
            let mut m = serde_json::Map::new();
            m.insert("id".into(), json!(i));
            for t in 0..8u64 {
                m.insert(format!("k{}", t), json!((i * (2 * t + 3) + t) % 11));
            }
            Value::Object(m)
        })
        .collect();
    Value::Array(recs)
}

/// ONE runtime object shared by all threads, a fresh one per round. Per-runtime state that is
/// created lazily (name tables, memo tables, id allocators) is hit for the first time by several
/// threads at once: after a sequential warm-up of random length the threads are released
/// through a spin barrier, each compiles ITS OWN expressions through the shared runtime (same
/// shapes, same offsets, different members / literals) and searches each four times; after the
/// join the same runtime is swept sequentially. Every result is compared with the result a
/// private runtime gave before the round.
fn runtimes(threads: usize, rounds: usize, seed: u64) -> Value {
    use std::sync::atomic::{AtomicUsize, Ordering};
    let mut rng = Rng(seed ^ 0x5EED);
    let doc = Rcvar::new(var_of(&by_doc()));
    let fresh = || {
        let mut rt = jmespath::Runtime::new();
        rt.register_builtin_functions();
        rt
    };
    let mut all_probes: Vec<&'static str> = PROBES.to_vec();
    all_probes.extend_from_slice(&TYPE_PROBES);
    let by_texts: Vec<Vec<String>> = (0..8)
        .map(|t| {
            vec![
                format!("sort_by(@, &k{})[*].id", t),
                format!("max_by(@, &k{}).id", t),
                format!("min_by(@, &k{}).id", t),
                format!("map(&k{}, @)", t),
                format!("sort_by(@, &k{})[0].k{}", t, t),
            ]
        })
        .collect();
    // ground truth from private runtimes, one per expression, before anything is shared
    let truth_probe: Vec<String> = all_probes.iter().map(|p| fp(&fresh().compile(p).and_then(|e| e.search(())))).collect();
    let truth_by: Vec<Vec<String>> = by_texts.iter().map(|v| v.iter().map(|t| fp(&fresh().compile(t).and_then(|e| e.search(&doc)))).collect()).collect();
    let mut mismatches: Vec<Value> = vec![];
    let mut total = 0u64;
    let mut panics = 0u64;
    let mut warm_hist = std::collections::BTreeMap::new();
    for round in 0..rounds {
        let rt = fresh();
        // sequential warm-up: one probe repeated, or a mix
        let w = [0usize, 1, 2, 8, 31, 32, 33, 40, 64, 100][rng.below(10)];
        let single = rng.below(all_probes.len());
        let mixed = rng.below(3) == 0;
        for k in 0..w {
            let i = if mixed { rng.below(all_probes.len()) } else if rng.below(2) == 0 { single } else { PROBES.len() + (single % 2) };
            let g = fp(&rt.compile(all_probes[i]).and_then(|e| e.search(())));
            total += 1;
            if g != truth_probe[i] && mismatches.len() < 6 {
                mismatches.push(json!({"phase": "warm-up", "round": round, "call": k, "expression": all_probes[i], "private_runtime": truth_probe[i], "shared_runtime": g}));
            }
        }
        *warm_hist.entry(w).or_insert(0u64) += 1;
        let arrived = AtomicUsize::new(0);
        let rot = rng.below(64);
        let results: Vec<(Vec<Value>, u64, bool)> = thread::scope(|sc| {
            let hs: Vec<_> = (0..threads)
                .map(|t| {
                    let (rt, arrived, doc, all_probes, by_texts, truth_probe, truth_by) = (&rt, &arrived, &doc, &all_probes, &by_texts, &truth_probe, &truth_by);
                    sc.spawn(move || {
                        let mut mism = vec![];
                        let mut done = 0u64;
                        let r = catch_unwind(AssertUnwindSafe(|| {
                            arrived.fetch_add(1, Ordering::SeqCst);
                            while arrived.load(Ordering::SeqCst) < threads {
                                std::hint::spin_loop();
                            }
                            // (a) each thread compiles its own by-expressions through the shared runtime
                            let mine = &by_texts[(t + rot) % 8];
                            let compiled: Vec<_> = mine.iter().map(|x| rt.compile(x)).collect();
                            // (b) the type probes in a thread-specific rotation, then the other built-ins
                            for k in 0..TYPE_PROBES.len() {
                                let i = PROBES.len() + (k + t + rot) % TYPE_PROBES.len();
                                let g = fp(&rt.compile(all_probes[i]).and_then(|e| e.search(())));
                                done += 1;
                                if g != truth_probe[i] && mism.len() < 3 {
                                    mism.push(json!({"phase": "concurrent", "round": round, "thread": t, "expression": all_probes[i], "private_runtime": truth_probe[i], "shared_runtime": g}));
                                }
                            }
                            for rep in 0..4 {
                                for (j, c) in compiled.iter().enumerate() {
                                    let g = match c {
                                        Ok(e) => fp(&e.search(doc)),
                                        Err(e) => format!("compile-err:{}", e.reason),
                                    };
                                    done += 1;
                                    let want = &truth_by[(t + rot) % 8][j];
                                    if &g != want && mism.len() < 3 {
                                        mism.push(json!({"phase": "concurrent", "round": round, "thread": t, "search_number": rep + 1, "expression": mine[j], "private_runtime": want, "shared_runtime": g}));
                                    }
                                }
                            }
                            // string building through the shared runtime: every thread joins its own 20 words
                            {
                                let words: Vec<String> = (0..20).map(|w| format!("s{}r{}x{}", t, round, w)).collect();
                                let text = format!("join('-', [{}])", words.iter().map(|w| format!("'{}'", w)).collect::<Vec<_>>().join(", "));
                                let want = format!("ok:\"{}\"", words.join("-"));
                                for _ in 0..3 {
                                    let g = fp(&rt.compile(&text).and_then(|e| e.search(doc)));
                                    done += 1;
                                    if g != want && mism.len() < 3 {
                                        mism.push(json!({"phase": "concurrent", "round": round, "thread": t, "expression": "join('-', [<20 words of this thread>])", "known_by_construction": want, "shared_runtime": g}));
                                    }
                                }
                            }
                            for k in 0..PROBES.len() {
                                let i = (k + 5 * t + rot) % PROBES.len();
                                let g = fp(&rt.compile(all_probes[i]).and_then(|e| e.search(())));
                                done += 1;
                                if g != truth_probe[i] && mism.len() < 3 {
                                    mism.push(json!({"phase": "concurrent", "round": round, "thread": t, "expression": all_probes[i], "private_runtime": truth_probe[i], "shared_runtime": g}));
                                }
                            }
                        }));
                        (mism, done, r.is_err())
                    })
                })
                .collect();
            hs.into_iter().map(|h| h.join().unwrap_or((vec![], 0, true))).collect()
        });
        for (m, d, p) in results {
            for x in m {
                if mismatches.len() < 6 {
                    mismatches.push(x);
                }
            }
            total += d;
            if p {
                panics += 1;
            }
        }
        // sequential sweep of the same runtime afterwards: damage done during the race persists
        for (i, p) in all_probes.iter().enumerate() {
            let g = fp(&rt.compile(p).and_then(|e| e.search(())));
            total += 1;
            if g != truth_probe[i] && mismatches.len() < 6 {
                mismatches.push(json!({"phase": "sequential-after-race", "round": round, "expression": p, "private_runtime": truth_probe[i], "shared_runtime": g}));
            }
        }
        for t in 0..8 {
            for (j, x) in by_texts[t].iter().enumerate() {
                let e = rt.compile(x);
                for _ in 0..3 {
                    let g = match &e {
                        Ok(e) => fp(&e.search(&doc)),
                        Err(e) => format!("compile-err:{}", e.reason),
                    };
                    total += 1;
                    if g != truth_by[t][j] && mismatches.len() < 6 {
                        mismatches.push(json!({"phase": "sequential-after-race", "round": round, "expression": x, "private_runtime": truth_by[t][j], "shared_runtime": g}));
                    }
                }
            }
        }
        if mismatches.len() >= 6 {
            break;
        }
    }
    json!({"mode": "stress", "threads": threads, "searches": total, "mismatches": mismatches, "panics": panics,
           "interleaving": format!("runtimes{}x{}:{:?}", threads, rounds, warm_hist), "inputs_mutated": []})
}

/// Threads enter `compile` at the same instant with texts that are *related* but not equal:
/// the same long expression behind 0..3 leading blanks (every offset shifts), and long literals
/// that differ only in a few characters. Whatever a thread gets back must be the tree / value of
/// ITS text — now, on a second compile, and when everything is re-compiled sequentially after
/// the join. Expected positions and values are known by construction.
fn twins(threads: usize, rounds: usize, seed: u64) -> Value {
    use std::sync::atomic::{AtomicUsize, Ordering};
    const X: &str = "people[?age > `20`].{name: name, total: sum(scores), shout: abs(name)} | [0]";
    let doc = Rcvar::new(var_of(&json!({"people": [{"name": "ann", "age": 30, "scores": [1, 2]}, {"name": "bob", "age": 10, "scores": []}]})));
    // the unpadded expression fails at a position found once, sequentially, before any thread exists
    let base = match jmespath::compile(X).and_then(|e| e.search(&doc)) {
        Err(e) => e.offset,
        Ok(v) => return json!({"mode": "stress", "threads": threads, "searches": 0, "mismatches": [{"problem": "probe expression did not fail", "got": v.to_string()}], "panics": 0, "interleaving": "twins", "inputs_mutated": []}),
    };
    let lit = move |round: usize, t: usize| format!("`{{\"test\": \"own\", \"round\": {}, \"thread\": {}, \"labels\": [\"a\", \"b\"], \"pad\": \"{}\"}}`", round + seed as usize % 7, t, "x".repeat(t % 3));
    let lit_want = move |round: usize, t: usize| format!("ok:{{\"labels\":[\"a\",\"b\"],\"pad\":\"{}\",\"round\":{},\"test\":\"own\",\"thread\":{}}}", "x".repeat(t % 3), round + seed as usize % 7, t);
    let arrived = Arc::new(AtomicUsize::new(0));
    let mut handles = vec![];
    for t in 0..threads {
        let (arrived, doc) = (arrived.clone(), doc.clone());
        let lit = lit.clone();
        let lit_want = lit_want.clone();
        handles.push(thread::spawn(move || {
            let mut mism: Vec<Value> = vec![];
            let mut done = 0u64;
            let r = catch_unwind(AssertUnwindSafe(|| {
                for round in 0..rounds {
                    let pad = (t + round) % 4;
                    let text = format!("{}{}", " ".repeat(pad), X);
                    let l = lit(round, t);
                    arrived.fetch_add(1, Ordering::SeqCst);
                    while arrived.load(Ordering::SeqCst) < (round + 1) * threads {
                        std::hint::spin_loop();
                    }
                    let g = fp(&jmespath::compile(&text).and_then(|e| e.search(&doc)));
                    done += 1;
                    let want_prefix = format!("err:{}:", base + pad);
                    if !g.starts_with(&want_prefix) && mism.len() < 3 {
                        mism.push(json!({"mode": "twins", "thread": t, "round": round, "expression": text, "expected_error_offset": base + pad, "concurrent": g}));
                    }
                    for attempt in 0..2 {
                        let g = fp(&jmespath::compile(&l).and_then(|e| e.search(&doc)));
                        done += 1;
                        if g != lit_want(round, t) && mism.len() < 3 {
                            mism.push(json!({"mode": "twins", "thread": t, "round": round, "compile_number": attempt + 1, "expression": l, "known_by_construction": lit_want(round, t), "concurrent": g}));
                        }
                    }
                }
            }));
            (mism, done, r.is_err())
        }));
    }
    let mut mismatches = vec![];
    let mut total = 0;
    let mut panics = 0;
    for h in handles {
        match h.join() {
            Ok((m, d, p)) => {
                mismatches.extend(m);
                total += d;
                if p {
                    panics += 1;
                }
            }
            Err(_) => panics += 1,
        }
    }
    // sequential re-compilation of everything the threads compiled
    for round in 0..rounds {
        for t in 0..threads {
            let g = fp(&jmespath::compile(&lit(round, t)).and_then(|e| e.search(&doc)));
            total += 1;
            if g != lit_want(round, t) && mismatches.len() < 6 {
                mismatches.push(json!({"mode": "twins", "phase": "sequential-after-race", "expression": lit(round, t), "known_by_construction": lit_want(round, t), "observed": g}));
            }
        }
    }
    for pad in 0..4 {
        let g = fp(&jmespath::compile(&format!("{}{}", " ".repeat(pad), X)).and_then(|e| e.search(&doc)));
        total += 1;
        if !g.starts_with(&format!("err:{}:", base + pad)) && mismatches.len() < 6 {
            mismatches.push(json!({"mode": "twins", "phase": "sequential-after-race", "leading_blanks": pad, "expected_error_offset": base + pad, "observed": g}));
        }
    }
    json!({"mode": "stress", "threads": threads, "searches": total, "mismatches": mismatches, "panics": panics, "interleaving": format!("twins{}x{}", threads, rounds), "inputs_mutated": []})
}

/// Half of the threads compile the SAME few expressions over and over ("hot": every result is
/// compared with the tree of `parse` and the sequential search result), the other half compile
/// a stream of never-seen texts as fast as they can ("churn": anything that keeps a bounded
/// table of compiled expressions is evicting all the time). The duration only sizes the
/// workload; it is never a verdict.
fn hotchurn(threads: usize, millis: u64, seed: u64) -> Value {
    use std::sync::atomic::{AtomicBool, AtomicU64, Ordering};
    let hot: Vec<&'static str> = vec!["foo.bar", "xs[*]", "recs[?k == `1`].id", "sort_by(recs, &id)[*].id", "length(xs)", "a.b"];
    let doc = Rcvar::new(var_of(&json!({"foo": {"bar": 42}, "a": {"b": 1}, "xs": [3, 1, 2], "recs": [{"id": 0, "k": 1}, {"id": 1, "k": 2}, {"id": 2, "k": 1}]})));
    let trees: Arc<Vec<jmespath::ast::Ast>> = Arc::new(hot.iter().map(|t| jmespath::parse(t).unwrap()).collect());
    let truth: Arc<Vec<String>> = Arc::new(hot.iter().map(|t| fp(&jmespath::compile(t).and_then(|e| e.search(&doc)))).collect());
    let stop = Arc::new(AtomicBool::new(false));
    let compiled = Arc::new(AtomicU64::new(0));
    let mut handles = vec![];
    for t in 0..threads.max(2) {
        let (doc, trees, truth, stop, compiled, hot) = (doc.clone(), trees.clone(), truth.clone(), stop.clone(), compiled.clone(), hot.clone());
        handles.push(thread::spawn(move || {
            let mut mism: Vec<Value> = vec![];
            let mut done = 0u64;
            let r = catch_unwind(AssertUnwindSafe(|| {
                let mut n = (seed << 20) ^ ((t as u64) << 40);
                while !stop.load(Ordering::Relaxed) {
                    if t % 2 == 0 {
                        let k = (n % hot.len() as u64) as usize;
                        n += 1;
                        let e = jmespath::compile(hot[k]).unwrap();
                        if e.as_ast() != &trees[k] && mism.len() < 3 {
                            mism.push(json!({"mode": "hotchurn", "thread": t, "expression": hot[k], "problem": "compile returned the tree of another text", "got": format!("{:?}", e.as_ast())}));
                        }
                        let g = fp(&e.search(&doc));
                        if g != truth[k] && mism.len() < 3 {
                            mism.push(json!({"mode": "hotchurn", "thread": t, "expression": hot[k], "sequential": truth[k], "concurrent": g}));
                        }
                        done += 1;
                    } else {
                        n += 1;
                        let text = format!("k{}.v{}", n, t);
                        let e = jmespath::compile(&text).unwrap();
                        if let jmespath::ast::Ast::Subexpr { lhs, .. } = e.as_ast() {
                            if let jmespath::ast::Ast::Field { name, .. } = &**lhs {
                                if *name != format!("k{}", n) && mism.len() < 3 {
                                    mism.push(json!({"mode": "hotchurn", "thread": t, "expression": text, "problem": "compile returned the tree of another text", "got": format!("{:?}", e.as_ast())}));
                                }
                            }
                        }
                        done += 1;
                    }
                }
                compiled.fetch_add(done, Ordering::Relaxed);
            }));
            (mism, done, r.is_err())
        }));
    }
    thread::sleep(std::time::Duration::from_millis(millis));
    stop.store(true, Ordering::Relaxed);
    let mut mismatches = vec![];
    let mut total = 0;
    let mut panics = 0;
    for h in handles {
        match h.join() {
            Ok((m, d, p)) => {
                mismatches.extend(m);
                total += d;
                if p {
                    panics += 1;
                }
            }
            Err(_) => panics += 1,
        }
    }
    json!({"mode": "stress", "threads": threads, "searches": total, "mismatches": mismatches, "panics": panics, "interleaving": format!("hotchurn{}x{}ms", threads, millis), "inputs_mutated": []})
}

/// Ownership moves between threads: the main thread compiles an expression, long-lived worker
/// threads search it, the main thread drops it and compiles the next one — a text of the same
/// length that differs in a constant, so that it may well land where the previous one was stored.
/// Whatever a worker remembers about the old expression must not answer for the new one. In the
/// same rounds all threads compile deeply nested (but individually modest) texts at once: anything
/// counted per parse must not add up across threads. Expected results are known by construction.
fn handoff(threads: usize, rounds: usize, seed: u64) -> Value {
    use std::sync::Mutex;
    let items: Vec<Value> = (0..100).map(|i| json!({"n": i, "id": i})).collect();
    let doc = Rcvar::new(var_of(&json!({"items": items, "a": 1})));
    let slot: Arc<Mutex<Option<Arc<Expression<'static>>>>> = Arc::new(Mutex::new(None));
    let want: Arc<Mutex<String>> = Arc::new(Mutex::new(String::new()));
    let barrier = Arc::new(Barrier::new(threads + 1));
    let depth = 60 + (seed as usize % 3) * 30;
    let deep_text = format!("{}a{}", "[".repeat(depth), "]".repeat(depth));
    let deep_want = format!("ok:{}1{}", "[".repeat(depth), "]".repeat(depth));
    let mut handles = vec![];
    for t in 0..threads {
        let (slot, want, barrier, doc, deep_text, deep_want) = (slot.clone(), want.clone(), barrier.clone(), doc.clone(), deep_text.clone(), deep_want.clone());
        handles.push(thread::spawn(move || {
            let mut mism: Vec<Value> = vec![];
            let mut done = 0u64;
            let r = catch_unwind(AssertUnwindSafe(|| {
                for round in 0..rounds {
                    barrier.wait();
                    let e = slot.lock().unwrap().clone().expect("expression of the round");
                    let w = want.lock().unwrap().clone();
                    for _ in 0..3 {
                        let g = fp(&e.search(&doc));
                        done += 1;
                        if g != w && mism.len() < 3 {
                            mism.push(json!({"mode": "handoff", "thread": t, "round": round, "expression": e.as_str(), "known_by_construction": w, "observed": g}));
                        }
                    }
                    drop(e);
                    // everybody parses something deep at the same time
                    let g = fp(&jmespath::compile(&deep_text).and_then(|x| x.search(&doc)));
                    done += 1;
                    if g != deep_want && mism.len() < 3 {
                        mism.push(json!({"mode": "handoff", "thread": t, "round": round, "expression": format!("{} nested multi-select lists around `a`", depth), "observed": g.chars().take(200).collect::<String>()}));
                    }
                    let g = fp(&jmespath::compile("items[2].id").and_then(|x| x.search(&doc)));
                    if g != "ok:2" && mism.len() < 3 {
                        mism.push(json!({"mode": "handoff", "thread": t, "round": round, "expression": "items[2].id", "observed": g}));
                    }
                    barrier.wait();
                }
            }));
            (mism, done, r.is_err())
        }));
    }
    for round in 0..rounds {
        let k = 10 + (round * 7 + seed as usize) % 89;
        let text = format!("{{ids: items[?n > to_number('{:02}')].id, c: length('{:02}'), k: to_number('{:02}')}}", k, k, k);
        let ids: Vec<String> = (k + 1..100).map(|i| i.to_string()).collect();
        *want.lock().unwrap() = format!("ok:{{\"c\":2,\"ids\":[{}],\"k\":{}}}", ids.join(","), k);
        let e = Arc::new(jmespath::compile(&text).expect("handoff expression compiles"));
        drop(text);
        *slot.lock().unwrap() = Some(e);
        barrier.wait();
        barrier.wait();
        // the workers have dropped their clones: this is the last reference, dropped on the main thread
        let last = slot.lock().unwrap().take();
        drop(last);
    }
    let mut mismatches = vec![];
    let mut total = 0;
    let mut panics = 0;
    for h in handles {
        match h.join() {
            Ok((m, d, p)) => {
                mismatches.extend(m);
                total += d;
                if p {
                    panics += 1;
                }
            }
            Err(_) => panics += 1,
        }
    }
    json!({"mode": "stress", "threads": threads, "searches": total, "mismatches": mismatches, "panics": panics, "interleaving": format!("handoff{}x{}d{}", threads, rounds, depth), "inputs_mutated": []})
}

/// Many threads over the life of one process: a long-lived worker keeps projecting over a large
/// array while waves of short-lived threads (several hundred in total) come and go, each projecting
/// over its own large array; inside a wave all threads also hit, at the same instant, a document
/// nobody has seen before whose long numeric strings go through `to_number`. Per-thread slots
/// handed out modulo something, first-sight memo entries and the like show up here. Results are
/// known by construction.
fn crowd(wave_size: usize, waves: usize, seed: u64) -> Value {
    use std::sync::atomic::{AtomicBool, Ordering};
    let stop = Arc::new(AtomicBool::new(false));
    let worker = {
        let stop = stop.clone();
        thread::spawn(move || {
            let n = 171usize;
            let doc = Rcvar::new(var_of(&json!({"items": (0..n).map(|i| json!({"id": format!("worker-{}", i), "n": i})).collect::<Vec<_>>()})));
            let want = format!("ok:[{}]", (0..n).map(|i| format!("\"worker-{}\"", i)).collect::<Vec<_>>().join(","));
            let e = jmespath::compile("items[*].id").unwrap();
            let e2 = jmespath::compile("items[?n >= `0`].id").unwrap();
            let mut bad = vec![];
            let mut done = 0u64;
            while !stop.load(Ordering::Relaxed) {
                for x in [&e, &e2] {
                    let g = fp(&x.search(&doc));
                    done += 1;
                    if g != want && bad.len() < 2 {
                        bad.push(json!({"mode": "crowd", "thread": "long-lived worker", "expression": x.as_str(), "observed": g.chars().take(300).collect::<String>()}));
                    }
                }
            }
            (bad, done)
        })
    };
    let mut mismatches: Vec<Value> = vec![];
    let mut total = 0u64;
    let mut panics = 0u64;
    // a long map with two differently ill-typed elements: the failure reported is that of the first one,
    // deterministically (whatever the library does inside to get through 8192 elements)
    {
        let mut items: Vec<Value> = (0..8192).map(|i| json!({"v": i})).collect();
        items[4095] = json!({"v": "n/a"});
        for it in items.iter_mut().skip(4096) {
            *it = json!({"v": true});
        }
        let big = Rcvar::new(var_of(&json!({"items": items})));
        for rep in 0..12 {
            for text in ["map(&abs(v), items)", "items[*].abs(v)", "sort_by(items, &abs(v))", "max_by(items, &abs(v))"] {
                let g = fp(&jmespath::compile(text).and_then(|e| e.search(&big)));
                total += 1;
                if !(g.starts_with("err:") && g.contains("string") && !g.contains("boolean")) && mismatches.len() < 6 {
                    mismatches.push(json!({"mode": "crowd", "expression": text, "repetition": rep, "expected": "the invalid-type error of element 4095 (a string)", "observed": g.chars().take(200).collect::<String>()}));
                }
            }
        }
    }
    for w in 0..waves {
        let base = 1_700_000_000_000_000_000u64 + seed * 1_000_000 + (w as u64) * 1000;
        let shared = Rcvar::new(var_of(&json!({"items": (0..40u64).map(|i| json!({"id": i, "ts": (base + i * 7).to_string()})).collect::<Vec<_>>()})));
        let shared_want = format!("ok:[{}]", (0..40).map(|i| i.to_string()).collect::<Vec<_>>().join(","));
        let sorted_want = shared_want.clone();
        let barrier = Arc::new(Barrier::new(wave_size));
        let hs: Vec<_> = (0..wave_size)
            .map(|t| {
                let (shared, shared_want, sorted_want, barrier) = (shared.clone(), shared_want.clone(), sorted_want.clone(), barrier.clone());
                let tag = w * wave_size + t;
                thread::spawn(move || {
                    let mut bad = vec![];
                    let mut done = 0u64;
                    let r = catch_unwind(AssertUnwindSafe(|| {
                        let n = 48 + (tag * 13) % 260;
                        let doc = Rcvar::new(var_of(&json!({"items": (0..n).map(|i| json!({"id": format!("r{}-{}", tag, i)})).collect::<Vec<_>>()})));
                        let want = format!("ok:[{}]", (0..n).map(|i| format!("\"r{}-{}\"", tag, i)).collect::<Vec<_>>().join(","));
                        barrier.wait();
                        let g = fp(&jmespath::compile(&format!("items[?to_number(ts) >= `{}`].id", base)).and_then(|e| e.search(&shared)));
                        done += 1;
                        if g != shared_want && bad.len() < 2 {
                            bad.push(json!({"mode": "crowd", "thread": tag, "expression": "items[?to_number(ts) >= `<base>`].id on a document first seen by all threads at once", "known_by_construction": shared_want, "observed": g}));
                        }
                        let g = fp(&jmespath::compile("sort_by(items, &to_number(ts))[*].id").and_then(|e| e.search(&shared)));
                        done += 1;
                        if g != sorted_want && bad.len() < 2 {
                            bad.push(json!({"mode": "crowd", "thread": tag, "expression": "sort_by(items, &to_number(ts))[*].id", "known_by_construction": sorted_want, "observed": g}));
                        }
                        for _ in 0..6 {
                            let g = fp(&jmespath::compile("items[*].id").and_then(|e| e.search(&doc)));
                            done += 1;
                            if g != want && bad.len() < 2 {
                                bad.push(json!({"mode": "crowd", "thread": tag, "expression": "items[*].id", "elements": n, "observed": g.chars().take(300).collect::<String>()}));
                            }
                        }
                    }));
                    (bad, done, r.is_err())
                })
            })
            .collect();
        for h in hs {
            match h.join() {
                Ok((b, d, p)) => {
                    for x in b {
                        if mismatches.len() < 6 {
                            mismatches.push(x);
                        }
                    }
                    total += d;
                    if p {
                        panics += 1;
                    }
                }
                Err(_) => panics += 1,
            }
        }
        if mismatches.len() >= 6 {
            break;
        }
    }
    stop.store(true, Ordering::Relaxed);
    match worker.join() {
        Ok((b, d)) => {
            mismatches.extend(b);
            total += d;
        }
        Err(_) => panics += 1,
    }
    json!({"mode": "stress", "threads": wave_size, "searches": total, "mismatches": mismatches, "panics": panics, "interleaving": format!("crowd{}x{}", wave_size, waves), "inputs_mutated": []})
}

/// Every thread calls THE SAME built-in through ONE shared runtime in a tight loop, one built-in
/// after another, each thread with inputs of its own (distinct content; sizes 0..376 cycle so that
/// short and long code paths interleave; ties at the extremes; two differently ill-typed elements
/// in long maps). What each call must return was computed by the same thread through a private
/// runtime before the loop started. Then rounds with a FRESH shared runtime: all threads bring
/// never-seen long numeric arrays to the aggregate functions at once (anything a runtime keeps per
/// function, with a capacity, fills up and overflows under contention here). The duration only
/// sizes the workload; it is never a verdict.
fn hammer(threads: usize, millis: u64, seed: u64) -> Value {
    use std::sync::atomic::{AtomicBool, AtomicUsize, Ordering};
    use std::time::{Duration, Instant};
    let fresh = || {
        let mut rt = jmespath::Runtime::new();
        rt.register_builtin_functions();
        rt
    };
    const SIZES: [usize; 17] = [0, 1, 2, 3, 8, 15, 16, 17, 24, 31, 32, 33, 64, 100, 256, 376, 2600];
    // (name, expression, document builder)
    type Build = fn(usize, usize, &mut Rng) -> Value;
    let workloads: Vec<(&'static str, &'static str, Build)> = vec![
        ("join", "join('-', words)", |t, n, _| json!({"words": (0..n).map(|i| format!("s{}n{}x{}", t, n, i)).collect::<Vec<_>>()})),
        ("sort", "sort(v)", |t, n, r| json!({"v": (0..n).map(|_| (r.below(50) + t) as i64 - 20).collect::<Vec<_>>()})),
        ("sort-strings", "sort(v)", |t, n, r| json!({"v": (0..n).map(|_| format!("w{}-{}", r.below(20), t)).collect::<Vec<_>>()})),
        ("sort_by", "sort_by(people, &age)[*].name", |t, n, r| json!({"people": (0..n).map(|i| json!({"name": format!("p{}-{}", t, i), "age": 20 + r.below(6)})).collect::<Vec<_>>()})),
        ("max_by", "max_by(people, &age).name", |t, n, r| json!({"people": (0..n).map(|i| json!({"name": format!("p{}-{}", t, i), "age": 20 + r.below(4)})).collect::<Vec<_>>()})),
        ("min_by", "min_by(people, &age).name", |t, n, r| json!({"people": (0..n).map(|i| json!({"name": format!("p{}-{}", t, i), "age": 20 + r.below(4)})).collect::<Vec<_>>()})),
        ("max", "[max(v), min(v)]", |t, n, r| json!({"v": (0..n).map(|_| (r.below(9) + t) as i64).collect::<Vec<_>>()})),
        ("sum", "[sum(v), avg(v)]", |t, n, r| json!({"v": (0..n).map(|_| (r.below(1000) + t) as i64).collect::<Vec<_>>()})),
        ("map", "map(&abs(v), items)", |t, n, r| {
            let mut items: Vec<Value> = (0..n).map(|i| json!({"v": -((i + t) as i64)})).collect();
            if n >= 16 && r.below(2) == 0 {
                let at = n / 2 - 1;
                items[at] = json!({"v": "n/a"});
                for it in items.iter_mut().skip(at + 1) { *it = json!({"v": true}); }
            }
            json!({"items": items})
        }),
        ("projection", "items[*].id", |t, n, _| json!({"items": (0..n).map(|i| json!({"id": format!("r{}-{}", t, i)})).collect::<Vec<_>>()})),
        ("filter", "items[?n >= `0`].id", |t, n, _| json!({"items": (0..n).map(|i| json!({"id": format!("r{}-{}", t, i), "n": i})).collect::<Vec<_>>()})),
        ("reverse", "[reverse(v), reverse(s)]", |t, n, _| json!({"v": (0..n).map(|i| i + t).collect::<Vec<_>>(), "s": (0..n).map(|i| char::from(b'a' + ((i + t) % 26) as u8)).collect::<String>()})),
        ("to_string", "to_string(@)", |t, n, _| json!({"k": (0..n).map(|i| json!([i, t])).collect::<Vec<_>>()})),
        ("merge", "merge(a, b, a)", |t, n, _| json!({"a": (0..n).map(|i| (format!("k{}", i), json!(t))).collect::<serde_json::Map<String, Value>>(), "b": (0..n / 2).map(|i| (format!("k{}", i * 2), json!(i))).collect::<serde_json::Map<String, Value>>()})),
        ("keys", "[keys(a), values(a)]", |t, n, _| json!({"a": (0..n).map(|i| (format!("k{:04}", i), json!(i + t))).collect::<serde_json::Map<String, Value>>()})),
        ("length", "[length(s), length(v), contains(s, 'é'), starts_with(s, 'é')]", |t, n, _| json!({"s": "é".repeat(n) + &t.to_string(), "v": (0..n).collect::<Vec<_>>()})),
        ("flatten", "rows[].id", |t, n, _| json!({"rows": (0..n).map(|i| json!([{"id": i + t}, {"id": -(i as i64)}])).collect::<Vec<_>>()})),
        ("to_string-deep", "to_string(@)", |t, n, _| {
            // 33..48 container levels around a record that names the thread
            let mut v = json!({"tag": format!("doc-{}-{}", t, n)});
            for k in 0..33 + n % 16 {
                v = if k % 3 == 2 { json!({"k": v}) } else { json!([v]) };
            }
            v
        }),
        ("keys-fresh-names", "[keys(o), length(keys(o))]", |t, n, r| json!({"o": (0..8 + n % 5).map(|i| (format!("f{}_{}_{}_{}", t, n, i, r.below(100000)), json!(i))).collect::<serde_json::Map<String, Value>>()})),
        ("to_number", "v[*].to_number(@)", |t, n, _| json!({"v": (0..n).map(|i| format!("{}", 1_700_000_000_000u64 + (i * 7 + t) as u64)).collect::<Vec<_>>()})),
    ];
    let mut mismatches: Vec<Value> = vec![];
    let mut total = 0u64;
    let mut panics = 0u64;
    let mut per_fn = std::collections::BTreeMap::new();
    for (wi, (name, text, build)) in workloads.iter().enumerate() {
        let rt = fresh();
        let stop = AtomicBool::new(false);
        let arrived = AtomicUsize::new(0);
        let results: Vec<(Vec<Value>, u64, bool)> = thread::scope(|sc| {
            let hs: Vec<_> = (0..threads)
                .map(|t| {
                    let (rt, stop, arrived) = (&rt, &stop, &arrived);
                    sc.spawn(move || {
                        let mut r = Rng(seed ^ ((wi as u64) << 32) ^ (t as u64 * 7919));
                        // this thread's cases and what a private runtime says about them
                        let private = fresh();
                        let cases: Vec<(Rcvar, String, usize)> = SIZES
                            .iter()
                            .filter(|n| **n < 2600 || (t % 4 == 0 && matches!(*name, "map" | "projection" | "sum" | "sort_by" | "join")))
                            .map(|n| {
                                let d = Rcvar::new(var_of(&build(t, *n, &mut r)));
                                let want = fp(&private.compile(text).and_then(|e| e.search(&d)));
                                (d, want, *n)
                            })
                            .collect();
                        let mut mism = vec![];
                        let mut done = 0u64;
                        let res = catch_unwind(AssertUnwindSafe(|| {
                            let shared = rt.compile(text);
                            arrived.fetch_add(1, Ordering::SeqCst);
                            while arrived.load(Ordering::SeqCst) < threads {
                                std::hint::spin_loop();
                            }
                            let mut k = t;
                            while !stop.load(Ordering::Relaxed) {
                                let (d, want, n) = &cases[k % cases.len()];
                                k += 1 + (r.below(3));
                                let g = match &shared {
                                    Ok(e) => fp(&e.search(d)),
                                    Err(e) => format!("compile-err:{}", e.reason),
                                };
                                done += 1;
                                if &g != want && mism.len() < 2 {
                                    mism.push(json!({"mode": "hammer", "function": name, "expression": text, "thread": t, "elements": n,
                                        "private_runtime": want.chars().take(240).collect::<String>(), "shared_runtime_under_contention": g.chars().take(240).collect::<String>()}));
                                }
                            }
                        }));
                        (mism, done, res.is_err())
                    })
                })
                .collect();
            let t0 = Instant::now();
            while t0.elapsed() < Duration::from_millis(millis) {
                thread::sleep(Duration::from_millis(5));
            }
            stop.store(true, Ordering::Relaxed);
            // every worker leaves its loop after at most one more call. Workers that never come back while the
            // process burns no CPU at all are blocked on each other: that is decided on CPU time, not on the clock
            // (a loaded machine makes threads slow, it does not make them stop consuming CPU)
            let cpu = || -> u64 {
                std::fs::read_to_string("/proc/self/stat").ok().and_then(|t| {
                    let rest = t[t.rfind(')')? + 2..].to_string();
                    let f: Vec<&str> = rest.split(' ').collect();
                    Some(f.get(11)?.parse::<u64>().ok()? + f.get(12)?.parse::<u64>().ok()?)
                }).unwrap_or(0)
            };
            let mut idle_checks = 0;
            let mut last = cpu();
            let w0 = Instant::now();
            while hs.iter().any(|h| !h.is_finished()) {
                thread::sleep(Duration::from_millis(500));
                let now = cpu();
                if now.saturating_sub(last) <= 1 { idle_checks += 1 } else { idle_checks = 0 }
                last = now;
                if idle_checks >= 12 {
                    let stuck = hs.iter().filter(|h| !h.is_finished()).count();
                    println!("{}", json!({"mode": "stress", "threads": threads, "searches": 0, "panics": 0, "inputs_mutated": [], "interleaving": format!("hammer{}x{}ms:blocked", threads, millis),
                        "mismatches": [{"mode": "hammer", "function": name, "expression": text, "observed": format!("{} of {} threads never returned from a call and the process used no CPU for six seconds: they are blocked on each other", stuck, threads)}]}));
                    std::process::exit(0);
                }
                if w0.elapsed() > Duration::from_secs(300) {
                    println!("{}", json!({"mode": "stress", "threads": threads, "searches": 0, "panics": 0, "inputs_mutated": [], "mismatches": [], "interleaving": "hammer:watchdog", "watchdog": true}));
                    std::process::exit(0);
                }
            }
            hs.into_iter().map(|h| h.join().unwrap_or((vec![], 0, true))).collect()
        });
        for (m, d, p) in results {
            for x in m {
                if mismatches.len() < 8 {
                    mismatches.push(x);
                }
            }
            total += d;
            *per_fn.entry(*name).or_insert(0u64) += d;
            if p {
                panics += 1;
                if mismatches.len() < 8 {
                    mismatches.push(json!({"mode": "hammer", "function": name, "expression": text, "observed": "a thread panicked inside the library under contention"}));
                }
            }
        }
    }
    // fresh shared runtimes: never-seen long arrays arrive at the aggregates from all threads at once
    let rounds = ((millis as usize) * 2).min(1500); // (in lock step a round with 32 threads takes tens of milliseconds)
    let mut fresh_rounds = 0u64;
    for round in 0..rounds {
        let rt = fresh();
        let arrived = AtomicUsize::new(0);
        let exprs = ["sum(v)", "avg(v)", "max(v)", "length(v)", "sort(v)[0]", "max_by(recs, &n).n", "join('', s)"];
        let compiled: Vec<_> = exprs.iter().map(|x| rt.compile(x).unwrap()).collect();
        let steps: Vec<AtomicUsize> = (0..80 / threads.max(1) + 2).map(|_| AtomicUsize::new(0)).collect();
        let gave_up = AtomicBool::new(false);
        let results: Vec<(Vec<Value>, u64, bool)> = thread::scope(|sc| {
            let hs: Vec<_> = (0..threads)
                .map(|t| {
                    let (arrived, compiled, steps, gave_up) = (&arrived, &compiled, &steps, &gave_up);
                    sc.spawn(move || {
                        let mut mism = vec![];
                        let mut done = 0u64;
                        let per = 80 / threads.max(1) + 2;
                        let docs: Vec<(Rcvar, [String; 7])> = (0..per)
                            .map(|j| {
                                let n = 64 + (round + t * 5 + j * 3) % 40;
                                let base = (round * 131 + t * 17 + j) as i64;
                                let v: Vec<i64> = (0..n as i64).map(|i| base + i).collect();
                                let sum: i64 = v.iter().sum();
                                let d = json!({"v": v, "recs": v.iter().map(|x| json!({"n": x})).collect::<Vec<_>>(), "s": v.iter().map(|x| x.to_string()).collect::<Vec<_>>()});
                                let want = [
                                    format!("ok:{:?}", sum as f64),
                                    format!("ok:{:?}", sum as f64 / n as f64),
                                    format!("ok:{}", base + n as i64 - 1),
                                    format!("ok:{}", n),
                                    format!("ok:{}", base),
                                    format!("ok:{}", base + n as i64 - 1),
                                    format!("ok:\"{}\"", v.iter().map(|x| x.to_string()).collect::<String>()),
                                ];
                                (Rcvar::new(var_of(&d)), want)
                            })
                            .collect();
                        let res = catch_unwind(AssertUnwindSafe(|| {
                            arrived.fetch_add(1, Ordering::SeqCst);
                            while arrived.load(Ordering::SeqCst) < threads {
                                std::hint::spin_loop();
                            }
                            for (step, (d, want)) in docs.iter().enumerate() {
                                // all threads bring their next new document at the same instant: whatever fills up after N
                                // documents is crossed by `threads` insertions at once
                                steps[step].fetch_add(1, Ordering::SeqCst);
                                let mut spins = 0u32;
                                while steps[step].load(Ordering::SeqCst) < threads && !gave_up.load(Ordering::Relaxed) {
                                    spins += 1;
                                    if spins > 2000 {
                                        std::thread::yield_now();
                                    }
                                    if spins > 40_000_000 {
                                        gave_up.store(true, Ordering::Relaxed); // a thread died: do not wait for it
                                    }
                                }
                                for (i, e) in compiled.iter().enumerate() {
                                    let g = fp(&e.search(d));
                                    done += 1;
                                    if g != want[i] && mism.len() < 2 {
                                        mism.push(json!({"mode": "hammer/fresh-runtime", "round": round, "thread": t, "expression": e.as_str(), "known_by_construction": want[i], "observed": g.chars().take(200).collect::<String>()}));
                                    }
                                }
                            }
                        }));
                        if res.is_err() {
                            gave_up.store(true, Ordering::Relaxed);
                        }
                        (mism, done, res.is_err())
                    })
                })
                .collect();
            hs.into_iter().map(|h| h.join().unwrap_or((vec![], 0, true))).collect()
        });
        fresh_rounds += 1;
        for (m, d, p) in results {
            for x in m {
                if mismatches.len() < 8 {
                    mismatches.push(x);
                }
            }
            total += d;
            if p {
                panics += 1;
                if mismatches.len() < 8 {
                    mismatches.push(json!({"mode": "hammer/fresh-runtime", "round": round, "observed": "a thread panicked inside the library while all threads brought new long arrays to a fresh runtime"}));
                }
            }
        }
        if mismatches.len() >= 8 {
            break;
        }
    }
    json!({"mode": "stress", "threads": threads, "searches": total, "mismatches": mismatches, "panics": panics,
           "interleaving": format!("hammer{}x{}ms+fresh{}", threads, millis, fresh_rounds), "per_function": per_fn, "fresh_runtime_rounds": fresh_rounds, "inputs_mutated": []})
}

fn main() {
    let a: Vec<String> = std::env::args().skip(1).collect();
    let num = |i: usize, d: u64| a.get(i).and_then(|v| v.parse().ok()).unwrap_or(d);
    let out = match a.get(0).map(|s| s.as_str()) {
        Some("stress") => stress(num(1, 4) as usize, num(2, 1000) as usize, num(3, 1), 24, 6),
        Some("first") => first(num(1, 4) as usize, num(2, 0), 26),
        Some("burst") => burst(num(1, 4) as usize, num(2, 2000) as usize, num(3, 1)),
        Some("hammer") => hammer(num(1, 8) as usize, num(2, 150), num(3, 1)),
        Some("crowd") => crowd(num(1, 8) as usize, num(2, 20) as usize, num(3, 1)),
        Some("handoff") => handoff(num(1, 4) as usize, num(2, 300) as usize, num(3, 1)),
        Some("hotchurn") => hotchurn(num(1, 8) as usize, num(2, 2000), num(3, 1)),
        Some("twins") => twins(num(1, 4) as usize, num(2, 300) as usize, num(3, 1)),
        Some("runtimes") => runtimes(num(1, 4) as usize, num(2, 200) as usize, num(3, 1)),
        Some("small") => {
            // reduced sizes: this mode runs under Miri / ThreadSanitizer
            let f = first(4, 0, num(2, 6) as usize);
            let s = stress(4, num(3, 6) as usize, num(1, 1), 6, 2);
            json!({"mode": "small", "first": f, "stress": s})
        }
        _ => {
            eprintln!("usage: conc stress|first|small ...");
            std::process::exit(2);
        }
    };
    println!("{}", out);
}
