use refimpl::gen::*;
use refimpl::nf::canon;
use refimpl::parse::{parse, Opts};
use refimpl::print::*;
use refimpl::rng::Rng;

#[test]
fn printer_parser_roundtrip() {
    let mut bad = 0;
    let mut unprintable = 0;
    for seed in 0..20000u64 {
        let mut rng = Rng::new(seed);
        let doc = gen_doc(&mut rng, 4);
        let p = {
            let mut g = TreeGen { rng: &mut rng, cfg: GenCfg { calls: seed % 2 == 0, depth: 3 } };
            g.pipeline(&doc, 3, 5)
        };
        let text = {
            let mut pr = Printer::new(&mut rng);
            match pr.emit(&p) { Ok(t) => t, Err(_) => { unprintable += 1; continue; } }
        };
        let o = Opts::strict();
        match parse(&text, &o) {
            Ok(q) => {
                if canon(&q) != canon(&p) {
                    bad += 1;
                    if bad < 10 { eprintln!("MISMATCH seed={} text={}\n  want {}\n  got  {}", seed, text, canon(&p), canon(&q)); }
                } else {
                    let m = minimize_parens(&text, &mut rng, 100, &o);
                    let r = respace(&m, &mut rng);
                    let q2 = parse(&r, &o).expect("respaced parses");
                    assert_eq!(canon(&q2), canon(&p), "respaced {}", r);
                    if seed < 15 { eprintln!("{}  ==>  {}", text, r.replace('\n', "\\n")); }
                }
            }
            Err(e) => { bad += 1; if bad < 10 { eprintln!("PARSE FAIL seed={} text={} err={:?}\n  want {}", seed, text, e, canon(&p)); } }
        }
    }
    eprintln!("bad={} unprintable={}", bad, unprintable);
    assert_eq!(bad, 0);
}
