//! Pipeline -> JMESPath text.
//!
//! `emit` prints with every compound operand parenthesised (always safe);
//! `minimize_parens` then removes pairs of parentheses whenever the strict
//! reference parser still yields the same normal form; `respace` inserts random
//! whitespace at token boundaries.

use crate::lex::{lex, spell_ident, spell_literal, spell_raw, Tok};
use crate::nf::{canon, Kind, Pipeline, Step};
use crate::parse::{parse, Opts};
use crate::rng::Rng;
use serde_json::Value;

#[derive(Clone, Copy, PartialEq, Debug)]
enum Tail {
    Closed,
    OpenProj,
    OpenOp,
}

pub struct Printer<'a> {
    pub rng: &'a mut Rng,
    /// probability (percent) of using " | " instead of "(...)" + postfix when a wrap is needed
    pub pipe_pct: u32,
    /// spelling variety for identifiers and literals
    pub fancy_spelling: bool,
}

#[derive(Debug)]
pub struct Unprintable(pub &'static str);

impl<'a> Printer<'a> {
    pub fn new(rng: &'a mut Rng) -> Printer<'a> {
        Printer {
            rng,
            pipe_pct: 40,
            fancy_spelling: true,
        }
    }

    pub fn emit(&mut self, p: &Pipeline) -> Result<String, Unprintable> {
        if p.is_empty() {
            return Ok("@".to_string());
        }
        let mut text = String::new();
        let mut tail = Tail::Closed;
        for (i, s) in p.iter().enumerate() {
            if i == 0 {
                let (t, tl) = self.head(s)?;
                text = t;
                tail = tl;
                continue;
            }
            // choose: postfix or pipe
            let postfixable = is_postfixable(s);
            let use_pipe = !postfixable || self.rng.chance(if tail == Tail::Closed { 8 } else { self.pipe_pct }, 100);
            if use_pipe {
                let (t, tl) = self.head(s)?;
                text = format!("{} | {}", text, t);
                tail = tl;
            } else {
                let flatten_direct =
                    tail == Tail::OpenProj && matches!(s, Step::Project(Kind::Flatten, ..)) && self.rng.chance(1, 2);
                if tail != Tail::Closed && !flatten_direct {
                    text = format!("({})", text);
                }
                let (t, tl) = self.postfix(s)?;
                text.push_str(&t);
                tail = tl;
            }
        }
        Ok(text)
    }

    fn ident(&mut self, name: &str) -> String {
        if self.fancy_spelling && self.rng.chance(1, 6) {
            let style = self.rng.below(3) as u8;
            spell_ident(name, true, style)
        } else {
            spell_ident(name, false, 0)
        }
    }

    fn literal(&mut self, v: &Value) -> String {
        if let Value::String(s) = v {
            if self.rng.chance(2, 3) {
                if let Some(r) = spell_raw(s) {
                    return r;
                }
            }
        }
        let style = if self.fancy_spelling { self.rng.below(3) as u8 } else { 0 };
        spell_literal(v, style)
    }

    fn operand(&mut self, p: &Pipeline) -> Result<String, Unprintable> {
        let t = self.emit(p)?;
        Ok(format!("({})", t))
    }

    fn delimited(&mut self, p: &Pipeline) -> Result<String, Unprintable> {
        // inside [...] , f(...), {k: ...}, [? ...]: expr(0); parens optional
        if p.len() == 1 {
            if let Step::Expref(e) = &p[0] {
                return Ok(format!("&{}", self.operand(e)?));
            }
        }
        if self.rng.chance(1, 5) {
            self.operand(p)
        } else {
            self.emit(p)
        }
    }

    fn list(&mut self, es: &[Pipeline]) -> Result<String, Unprintable> {
        let mut parts = vec![];
        for e in es {
            parts.push(self.delimited(e)?);
        }
        if parts.len() == 1 && parts[0].trim() == "*" {
            // "[*]" would be the list wildcard, not a one-element multi-select
            parts[0] = "(*)".to_string();
        }
        Ok(parts.join(", "))
    }

    fn hash(&mut self, kvs: &[(String, Pipeline)]) -> Result<String, Unprintable> {
        let mut parts = vec![];
        for (k, e) in kvs {
            let key = self.ident(k);
            parts.push(format!("{}: {}", key, self.delimited(e)?));
        }
        Ok(format!("{{{}}}", parts.join(", ")))
    }

    fn slice_text(a: &Option<i64>, b: &Option<i64>, c: i64, rng: &mut Rng) -> String {
        let f = |x: &Option<i64>| x.map(|v| v.to_string()).unwrap_or_default();
        if c == 1 && rng.chance(1, 2) {
            format!("[{}:{}]", f(a), f(b))
        } else {
            format!("[{}:{}:{}]", f(a), f(b), c)
        }
    }

    /// Print the right-hand side of a projection (postfix steps only).
    fn rhs(&mut self, p: &Pipeline, in_filter: bool) -> Result<(String, Tail), Unprintable> {
        let mut text = String::new();
        let mut tail = Tail::OpenProj;
        for s in p {
            if !is_postfixable(s) {
                return Err(Unprintable("non-postfix step inside a projection right-hand side"));
            }
            if let Step::Project(Kind::Flatten, ..) = s {
                // a flatten would terminate the enclosing projection
                return Err(Unprintable("flatten inside a projection right-hand side"));
            }
            if let (true, Step::Project(Kind::Filter(_), ..)) = (in_filter, s) {
                // a filter binds no tighter than a filter projection: it would terminate it
                return Err(Unprintable("filter inside a filter projection's right-hand side"));
            }
            if tail != Tail::OpenProj {
                unreachable!();
            }
            let (t, tl) = self.postfix(s)?;
            text.push_str(&t);
            // after a nested projection the rest belongs to *its* rhs, which
            // `postfix` already printed; nothing may follow.
            if let Step::Project(..) = s {
                tail = Tail::OpenProj;
                if !std::ptr::eq(s, p.last().unwrap()) {
                    return Err(Unprintable("steps after a nested projection inside a right-hand side"));
                }
            } else {
                let _ = tl;
            }
        }
        Ok((text, tail))
    }

    fn postfix(&mut self, s: &Step) -> Result<(String, Tail), Unprintable> {
        Ok(match s {
            Step::Field(n) => (format!(".{}", self.ident(n)), Tail::Closed),
            Step::Index(i) => (format!("[{}]", i), Tail::Closed),
            Step::MultiList(es) => (format!(".[{}]", self.list(es)?), Tail::Closed),
            Step::MultiHash(kvs) => (format!(".{}", self.hash(kvs)?), Tail::Closed),
            Step::Call(n, args, _) => (format!(".{}({})", n, self.list(args)?), Tail::Closed),
            Step::Project(k, rhs, _) => {
                let kt = match k {
                    Kind::ListWild => "[*]".to_string(),
                    Kind::ObjWild => ".*".to_string(),
                    Kind::Flatten => "[]".to_string(),
                    Kind::Filter(p) => format!("[?{}]", self.delimited(p)?),
                    Kind::Slice(a, b, c) => Self::slice_text(a, b, *c, self.rng),
                };
                let (rt, _) = self.rhs(rhs, matches!(k, Kind::Filter(_)))?;
                (format!("{}{}", kt, rt), Tail::OpenProj)
            }
            _ => return Err(Unprintable("not a postfix step")),
        })
    }

    fn head(&mut self, s: &Step) -> Result<(String, Tail), Unprintable> {
        Ok(match s {
            Step::Field(n) => (self.ident(n), Tail::Closed),
            Step::Index(i) => (format!("[{}]", i), Tail::Closed),
            Step::Literal(v) => (self.literal(v), Tail::Closed),
            Step::MultiList(es) => (format!("[{}]", self.list(es)?), Tail::Closed),
            Step::MultiHash(kvs) => (self.hash(kvs)?, Tail::Closed),
            Step::Call(n, args, _) => (format!("{}({})", n, self.list(args)?), Tail::Closed),
            Step::Not(e) => (format!("!{}", self.operand(e)?), Tail::OpenOp),
            Step::Or(l, r) => (format!("{} || {}", self.operand(l)?, self.operand(r)?), Tail::OpenOp),
            Step::And(l, r) => (format!("{} && {}", self.operand(l)?, self.operand(r)?), Tail::OpenOp),
            Step::Cmp(op, l, r) => (
                format!("{} {} {}", self.operand(l)?, op.text(), self.operand(r)?),
                Tail::OpenOp,
            ),
            Step::Expref(_) => return Err(Unprintable("expref outside argument")),
            Step::Project(k, rhs, _) => {
                let kt = match k {
                    Kind::ListWild => "[*]".to_string(),
                    Kind::ObjWild => "*".to_string(),
                    Kind::Flatten => "[]".to_string(),
                    Kind::Filter(p) => format!("[?{}]", self.delimited(p)?),
                    Kind::Slice(a, b, c) => Self::slice_text(a, b, *c, self.rng),
                };
                let (rt, _) = self.rhs(rhs, matches!(k, Kind::Filter(_)))?;
                (format!("{}{}", kt, rt), Tail::OpenProj)
            }
        })
    }
}

pub fn is_postfixable(s: &Step) -> bool {
    matches!(
        s,
        Step::Field(_) | Step::Index(_) | Step::MultiList(_) | Step::MultiHash(_) | Step::Call(..) | Step::Project(..)
    )
}

/// Remove parenthesis pairs (in random order, each with probability `pct`%)
/// whenever the strict parser still produces the same normal form.
pub fn minimize_parens(text: &str, rng: &mut Rng, pct: u32, opts: &Opts) -> String {
    let want = match parse(text, opts) {
        Ok(p) => canon(&p),
        Err(_) => return text.to_string(),
    };
    let mut cur = text.to_string();
    // collect pairs once; positions stay valid because we replace by spaces
    let toks = match lex(&cur) {
        Ok(t) => t,
        Err(_) => return cur,
    };
    let mut stack = vec![];
    let mut pairs = vec![];
    for t in &toks {
        match t.tok {
            Tok::LParen => stack.push(t.pos),
            Tok::RParen => {
                if let Some(l) = stack.pop() {
                    pairs.push((l, t.pos));
                }
            }
            _ => {}
        }
    }
    rng.shuffle(&mut pairs);
    for (l, r) in pairs {
        if !rng.chance(pct, 100) {
            continue;
        }
        // function-call parens are not removable: skip if '(' directly follows an identifier token
        let mut cand = cur.clone().into_bytes();
        cand[l] = b' ';
        cand[r] = b' ';
        let cand = String::from_utf8(cand).unwrap();
        if let Ok(p) = parse(&cand, opts) {
            if canon(&p) == want {
                cur = cand;
            }
        }
    }
    cur
}

/// Insert random whitespace at token boundaries and drop redundant spaces.
pub fn respace(text: &str, rng: &mut Rng) -> String {
    let toks = match lex(text) {
        Ok(t) => t,
        Err(_) => return text.to_string(),
    };
    let mut out = String::new();
    let ws = [" ", "  ", "\t", "\n", "\r\n", " \n ", "\r", "\r\r"];
    for (i, t) in toks.iter().enumerate() {
        if t.tok == Tok::Eof {
            if rng.chance(1, 10) {
                out.push_str(*rng.pick(&ws[..]));
            }
            break;
        }
        if i == 0 && rng.chance(1, 10) {
            out.push_str(*rng.pick(&ws[..]));
        }
        out.push_str(&text[t.pos..t.end]);
        // separator needed?
        let next = &toks[i + 1];
        if next.tok == Tok::Eof {
            continue;
        }
        let need = needs_space(&t.tok, &next.tok);
        let r = rng.below(100);
        if need {
            out.push_str(if r < 80 { " " } else { *rng.pick(&ws[..]) });
        } else if r < 12 {
            out.push_str(*rng.pick(&ws[..]));
        } else if r < 30 {
            out.push(' ');
        }
    }
    out
}

/// Would writing the two tokens adjacently change the token sequence?
pub fn needs_space(a: &Tok, b: &Tok) -> bool {
    use Tok::*;
    let wordish = |t: &Tok| matches!(t, Ident(_) | Num(_));
    if wordish(a) && wordish(b) {
        return true;
    }
    match (a, b) {
        (LBracket, RBracket) => true,
        (Pipe, Pipe) | (Pipe, Or) => true,
        (Amp, Amp) | (Amp, And) => true,
        (Not, Eq) | (Lt, Eq) | (Gt, Eq) => true,
        _ => false,
    }
}
