//! Pipeline normal form: the reference tree vocabulary.
//!
//! An expression is a `Pipeline`: a left-to-right list of steps applied to the
//! current value. Composition (`.`, postfix brackets, `|`) is concatenation, so
//! regrouping of composition is invisible; everything binding powers decide
//! (projection extent, operand extent of !, ||, &&, comparators, arguments)
//! stays visible.

use serde_json::Value;
use std::fmt::Write;

pub type Pipeline = Vec<Step>;

#[derive(Clone, Copy, Debug, PartialEq, Eq, Hash)]
pub enum CmpOp {
    Eq,
    Ne,
    Lt,
    Le,
    Gt,
    Ge,
}

impl CmpOp {
    pub fn text(self) -> &'static str {
        match self {
            CmpOp::Eq => "==",
            CmpOp::Ne => "!=",
            CmpOp::Lt => "<",
            CmpOp::Le => "<=",
            CmpOp::Gt => ">",
            CmpOp::Ge => ">=",
        }
    }
    pub const ALL: [CmpOp; 6] = [CmpOp::Eq, CmpOp::Ne, CmpOp::Lt, CmpOp::Le, CmpOp::Gt, CmpOp::Ge];
}

#[derive(Clone, Debug)]
pub enum Kind {
    ListWild,
    ObjWild,
    Flatten,
    Filter(Pipeline),
    /// start, stop, step (step defaults to 1 when omitted in source); `pos` =
    /// byte range [lb, rb] of the brackets when parsed from text.
    Slice(Option<i64>, Option<i64>, i64),
}

#[derive(Clone, Debug)]
pub enum Step {
    Field(String),
    Index(i64),
    Literal(Value),
    MultiList(Vec<Pipeline>),
    MultiHash(Vec<(String, Pipeline)>),
    /// name, args, byte offset of "(" when parsed from text (0 otherwise)
    Call(String, Vec<Pipeline>, usize),
    Not(Pipeline),
    Or(Pipeline, Pipeline),
    And(Pipeline, Pipeline),
    Cmp(CmpOp, Pipeline, Pipeline),
    Expref(Pipeline),
    /// kind, rhs, byte range of the introducing bracket tokens (lb, rb) when parsed
    Project(Kind, Pipeline, (usize, usize)),
}

/// Canonical text of a pipeline: positions ignored, literals by exact JSON text.
pub fn canon(p: &Pipeline) -> String {
    let mut s = String::new();
    canon_into(p, &mut s);
    s
}

fn canon_into(p: &Pipeline, out: &mut String) {
    out.push('<');
    for (i, st) in p.iter().enumerate() {
        if i > 0 {
            out.push(' ');
        }
        canon_step(st, out);
    }
    out.push('>');
}

fn canon_step(st: &Step, out: &mut String) {
    match st {
        Step::Field(n) => {
            let _ = write!(out, "F{:?}", n);
        }
        Step::Index(i) => {
            let _ = write!(out, "I{}", i);
        }
        Step::Literal(v) => {
            let _ = write!(out, "L{}", canon_value(v));
        }
        Step::MultiList(es) => {
            out.push_str("ML[");
            for e in es {
                canon_into(e, out);
            }
            out.push(']');
        }
        Step::MultiHash(kvs) => {
            out.push_str("MH{");
            for (k, e) in kvs {
                let _ = write!(out, "{:?}:", k);
                canon_into(e, out);
            }
            out.push('}');
        }
        Step::Call(n, args, _) => {
            let _ = write!(out, "C{}(", n);
            for a in args {
                canon_into(a, out);
            }
            out.push(')');
        }
        Step::Not(e) => {
            out.push_str("NOT");
            canon_into(e, out);
        }
        Step::Or(l, r) => {
            out.push_str("OR");
            canon_into(l, out);
            canon_into(r, out);
        }
        Step::And(l, r) => {
            out.push_str("AND");
            canon_into(l, out);
            canon_into(r, out);
        }
        Step::Cmp(op, l, r) => {
            let _ = write!(out, "CMP{}", op.text());
            canon_into(l, out);
            canon_into(r, out);
        }
        Step::Expref(e) => {
            out.push_str("REF");
            canon_into(e, out);
        }
        Step::Project(k, rhs, _) => {
            match k {
                Kind::ListWild => out.push_str("P[*]"),
                Kind::ObjWild => out.push_str("P.*"),
                Kind::Flatten => out.push_str("P[]"),
                Kind::Filter(p) => {
                    out.push_str("P[?");
                    canon_into(p, out);
                    out.push(']');
                }
                Kind::Slice(a, b, c) => {
                    let _ = write!(out, "P[{:?}:{:?}:{}]", a, b, c);
                }
            }
            canon_into(rhs, out);
        }
    }
}

/// Canonical text of a JSON value that distinguishes 1 from 1.0 (exact literal identity).
pub fn canon_value(v: &Value) -> String {
    match v {
        Value::Number(n) => {
            if n.is_i64() || n.is_u64() {
                format!("i{}", n)
            } else {
                format!("f{:016x}", n.as_f64().unwrap_or(f64::NAN).to_bits())
            }
        }
        Value::Array(a) => {
            let mut s = String::from("[");
            for e in a {
                s.push_str(&canon_value(e));
                s.push(',');
            }
            s.push(']');
            s
        }
        Value::Object(o) => {
            let mut s = String::from("{");
            for (k, e) in o {
                let _ = write!(s, "{:?}:{},", k, canon_value(e));
            }
            s.push('}');
            s
        }
        other => other.to_string(),
    }
}

pub fn same(a: &Pipeline, b: &Pipeline) -> bool {
    canon(a) == canon(b)
}

/// Count of steps (recursive) and the set of step-kind names.
pub fn size(p: &Pipeline) -> usize {
    p.iter().map(step_size).sum()
}

fn step_size(s: &Step) -> usize {
    1 + match s {
        Step::MultiList(es) => es.iter().map(size).sum(),
        Step::MultiHash(kvs) => kvs.iter().map(|(_, e)| size(e)).sum(),
        Step::Call(_, a, _) => a.iter().map(size).sum(),
        Step::Not(e) | Step::Expref(e) => size(e),
        Step::Or(l, r) | Step::And(l, r) | Step::Cmp(_, l, r) => size(l) + size(r),
        Step::Project(k, r, _) => {
            size(r)
                + match k {
                    Kind::Filter(p) => size(p),
                    _ => 0,
                }
        }
        _ => 0,
    }
}

pub fn kind_name(s: &Step) -> &'static str {
    match s {
        Step::Field(_) => "field",
        Step::Index(_) => "index",
        Step::Literal(_) => "literal",
        Step::MultiList(_) => "multilist",
        Step::MultiHash(_) => "multihash",
        Step::Call(..) => "call",
        Step::Not(_) => "not",
        Step::Or(..) => "or",
        Step::And(..) => "and",
        Step::Cmp(..) => "cmp",
        Step::Expref(_) => "expref",
        Step::Project(Kind::ListWild, ..) => "listwild",
        Step::Project(Kind::ObjWild, ..) => "objwild",
        Step::Project(Kind::Flatten, ..) => "flatten",
        Step::Project(Kind::Filter(_), ..) => "filter",
        Step::Project(Kind::Slice(..), ..) => "slice",
    }
}

/// Visit every step recursively.
pub fn walk<F: FnMut(&Step)>(p: &Pipeline, f: &mut F) {
    for s in p {
        f(s);
        match s {
            Step::MultiList(es) => es.iter().for_each(|e| walk(e, f)),
            Step::MultiHash(kvs) => kvs.iter().for_each(|(_, e)| walk(e, f)),
            Step::Call(_, a, _) => a.iter().for_each(|e| walk(e, f)),
            Step::Not(e) | Step::Expref(e) => walk(e, f),
            Step::Or(l, r) | Step::And(l, r) | Step::Cmp(_, l, r) => {
                walk(l, f);
                walk(r, f)
            }
            Step::Project(k, r, _) => {
                if let Kind::Filter(p) = k {
                    walk(p, f)
                }
                walk(r, f)
            }
            _ => {}
        }
    }
}
