//! Reference model of JMESPath for the /verif runtime monitors.
//! Written from the specification; shares no code with the crate under test.
pub mod eval;
pub mod gen;
pub mod json;
pub mod lex;
pub mod nf;
pub mod parse;
pub mod print;
pub mod rng;
pub mod sentence;
