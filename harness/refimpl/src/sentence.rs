//! Independent sentence generator: a generative walk of the published JMESPath
//! ABNF (not of any parser), token pools, token-level mutants and soups.

use crate::lex::{lex, Tok, Token};
use crate::print::needs_space;
use crate::rng::Rng;

const IDENTS: [&str; 8] = ["a", "b", "c", "foo", "bar", "_x", "A1", "length"];
const FUNCS: [&str; 8] = ["length", "sort_by", "max_by", "not_null", "abs", "f", "to_string", "merge"];
const QIDENTS: [&str; 12] = ["\"a\"", "\"\"", "\"a b\"", "\"\\u00e9\"", "\"\\\"q\\\\\"", "\"日本\"", "\"(\"", "\")\"", "\"[\"", "\"]}\"", "\"a|b\"", "\"`\""];
const LITS: [&str; 18] = [
    "`\"(\"`",
    "`\")\"`",
    "`[\"(\", \"]\", \"}\"]`",
    "`{\"(\": \")\"}`",
    "`18446744073709551615`",
    "`9223372036854775808`",
    "`[9223372036854775807, -9223372036854775808, 10000000000000000000]`",
    "`1e308`",
    "`1`",
    "`\"s\"`",
    "`null`",
    "`[1, 2]`",
    "`{\"a\": 1}`",
    "`true`",
    "`-0.5e1`",
    "`\"\\`\"`",
    "` [ ] `",
    "`\"\\u00e9\"`",
];
const RAWS: [&str; 18] = ["'s'", "''", "'a\\'b'", "'\\\\'", "'é\n'", "'`\"'", "'('", "')'", "'(('", "')('", "'['", "']'", "'{'", "'}'", "'|'", "','", "'[?'", "'&& ||'"];
const NUMS: [&str; 8] = ["0", "1", "2", "-1", "-2", "10", "2147483647", "-2147483647"];
const CMPS: [&str; 6] = ["==", "!=", "<", "<=", ">", ">="];

pub struct SentenceGen<'a> {
    pub rng: &'a mut Rng,
    pub budget: i32,
}

impl<'a> SentenceGen<'a> {
    pub fn new(rng: &'a mut Rng, budget: i32) -> SentenceGen<'a> {
        SentenceGen { rng, budget }
    }

    fn p<T: Copy>(&mut self, xs: &[T]) -> T {
        xs[self.rng.below(xs.len())]
    }

    fn identifier(&mut self, out: &mut Vec<String>) {
        if self.rng.chance(1, 4) {
            out.push(self.p(&QIDENTS).to_string());
        } else {
            out.push(self.p(&IDENTS).to_string());
        }
    }

    fn number(&mut self, out: &mut Vec<String>) {
        if self.rng.chance(1, 2) {
            out.push(self.p(&NUMS).to_string());
        } else {
            // every digit in every position: 1..9 digits (always inside the i32 range), or a 10-digit value below 2·10^9
            let len = 1 + self.rng.below(10);
            let mut t = String::new();
            if self.rng.chance(1, 3) {
                t.push('-');
            }
            if len == 10 {
                t.push('1');
                for _ in 0..9 {
                    t.push((b'0' + self.rng.below(10) as u8) as char);
                }
            } else {
                t.push((b'1' + self.rng.below(9) as u8) as char);
                for _ in 1..len {
                    t.push((b'0' + self.rng.below(10) as u8) as char);
                }
            }
            out.push(t);
        }
    }

    /// expression = ... (every alternative of the ABNF)
    pub fn expression(&mut self, out: &mut Vec<String>) {
        self.budget -= 1;
        if self.budget <= 0 {
            // terminal alternatives only
            match self.rng.below(5) {
                0 => out.push("@".into()),
                1 => out.push(self.p(&LITS).to_string()),
                2 => out.push(self.p(&RAWS).to_string()),
                3 => out.push("*".into()),
                _ => self.identifier(out),
            }
            return;
        }
        match self.rng.below(22) {
            0 | 1 => self.identifier(out),
            2 | 3 | 4 => {
                // sub-expression = expression "." ( identifier / multi-select-list / multi-select-hash / function-expression / "*" )
                self.expression(out);
                out.push(".".into());
                match self.rng.below(6) {
                    0 => self.multi_select_list(out),
                    1 => self.multi_select_hash(out),
                    2 => self.function(out),
                    3 => out.push("*".into()),
                    _ => self.identifier(out),
                }
            }
            5 | 6 | 7 => {
                // index-expression = expression bracket-specifier / bracket-specifier
                if self.rng.chance(3, 4) {
                    self.expression(out);
                }
                self.bracket_specifier(out);
            }
            8 => {
                self.expression(out);
                out.push(self.p(&CMPS).to_string());
                self.expression(out);
            }
            9 => {
                self.expression(out);
                out.push("||".into());
                self.expression(out);
            }
            10 => {
                self.expression(out);
                out.push("&&".into());
                self.expression(out);
            }
            11 => {
                out.push("!".into());
                self.expression(out);
            }
            12 => {
                out.push("(".into());
                self.expression(out);
                out.push(")".into());
            }
            13 => out.push("*".into()),
            14 => self.multi_select_list(out),
            15 => self.multi_select_hash(out),
            16 => out.push(self.p(&LITS).to_string()),
            17 => self.function(out),
            18 => {
                self.expression(out);
                out.push("|".into());
                self.expression(out);
            }
            19 => out.push(self.p(&RAWS).to_string()),
            20 => out.push("@".into()),
            _ => self.identifier(out),
        }
    }

    fn bracket_specifier(&mut self, out: &mut Vec<String>) {
        match self.rng.below(6) {
            0 => {
                out.push("[".into());
                self.number(out);
                out.push("]".into());
            }
            1 => {
                out.push("[".into());
                out.push("*".into());
                out.push("]".into());
            }
            2 | 3 => {
                // slice-expression = [number] ":" [number] [ ":" [number] ]
                out.push("[".into());
                if self.rng.chance(1, 2) {
                    self.number(out);
                }
                out.push(":".into());
                if self.rng.chance(1, 2) {
                    self.number(out);
                }
                if self.rng.chance(1, 2) {
                    out.push(":".into());
                    if self.rng.chance(1, 2) {
                        self.number(out);
                    }
                }
                out.push("]".into());
            }
            4 => out.push("[]".into()),
            _ => {
                out.push("[?".into());
                self.expression(out);
                out.push("]".into());
            }
        }
    }

    fn multi_select_list(&mut self, out: &mut Vec<String>) {
        out.push("[".into());
        let n = self.rng.below(3) + 1;
        for i in 0..n {
            if i > 0 {
                out.push(",".into());
            }
            self.expression(out);
        }
        out.push("]".into());
    }

    fn multi_select_hash(&mut self, out: &mut Vec<String>) {
        out.push("{".into());
        let n = self.rng.below(3) + 1;
        for i in 0..n {
            if i > 0 {
                out.push(",".into());
            }
            self.identifier(out);
            out.push(":".into());
            self.expression(out);
        }
        out.push("}".into());
    }

    fn function(&mut self, out: &mut Vec<String>) {
        out.push(self.p(&FUNCS).to_string());
        out.push("(".into());
        let n = self.rng.below(4);
        for i in 0..n {
            if i > 0 {
                out.push(",".into());
            }
            if self.rng.chance(1, 4) {
                out.push("&".into());
            }
            self.expression(out);
        }
        out.push(")".into());
    }
}

/// Join token texts with random whitespace. `[*]` written as three tokens and a
/// lone "[" followed by "]"/"?" never occur in sentences, so adjacency is safe.
pub fn join_tokens(parts: &[String], rng: &mut Rng) -> String {
    let ws = [" ", " ", "  ", "\t", "\n", "\r\n", "\r"];
    let mut s = String::new();
    for (i, p) in parts.iter().enumerate() {
        if i > 0 {
            let prev = &parts[i - 1];
            let wordish = |x: &str| x.chars().next().map_or(false, |c| c.is_ascii_alphanumeric() || c == '_' || c == '-');
            let wordish_end = |x: &str| x.chars().last().map_or(false, |c| c.is_ascii_alphanumeric() || c == '_');
            let must = wordish_end(prev) && wordish(p);
            if must || rng.chance(1, 4) {
                s.push_str(ws[rng.below(ws.len())]);
            }
        }
        s.push_str(p);
    }
    s
}

/// The token alphabet with canonical payloads (for soups and enumeration).
pub const POOL: [&str; 29] = [
    "a", "\"q\"", "1", "`1`", "'s'", ".", "*", "[]", "&&", "||", "|", "[?", "[", "]", ",", ":", "!", "!=", "==", ">", ">=",
    "<", "<=", "@", "&", "(", ")", "{", "}",
];

/// Extra payload variants used by random soups.
pub const POOL_EXTRA: [&str; 14] = [
    "b", "foo", "length", "-1", "0", "2147483647", "2147483648", "-2147483648", "01", "`\"x\"`", "`[]`", "''", "\"\"", "abs",
];

/// Render a token sequence so that it lexes back to the same sequence
/// (a space is inserted only where adjacency would merge tokens).
pub fn render_pool(seq: &[&str]) -> String {
    let mut s = String::new();
    let mut prev: Option<Tok> = None;
    for t in seq {
        let tk = match lex(t) {
            Ok(ts) if ts.len() == 2 => Some(ts[0].tok.clone()),
            _ => None,
        };
        if let (Some(a), Some(b)) = (&prev, &tk) {
            if needs_space(a, b) || (matches!(a, Tok::LBracket) && t.starts_with('?')) {
                s.push(' ');
            }
        } else if prev.is_none() && !s.is_empty() {
            s.push(' ');
        }
        s.push_str(t);
        prev = tk;
    }
    s
}

/// The i-th string of the exhaustive enumeration of all pool sequences of length 1..=maxlen.
/// Returns None when i is out of range.
pub fn enumerate_pool(i: u64, maxlen: u32) -> Option<Vec<&'static str>> {
    let k = POOL.len() as u64;
    let mut i = i;
    for len in 1..=maxlen {
        let count = k.pow(len);
        if i < count {
            let mut seq = Vec::with_capacity(len as usize);
            for _ in 0..len {
                seq.push(POOL[(i % k) as usize]);
                i /= k;
            }
            return Some(seq);
        }
        i -= count;
    }
    None
}

pub fn enumeration_size(maxlen: u32) -> u64 {
    let k = POOL.len() as u64;
    (1..=maxlen).map(|l| k.pow(l)).sum()
}

/// One-token mutants of a sentence: delete / duplicate / swap / replace / insert.
pub fn mutate_tokens(src: &str, rng: &mut Rng) -> Option<String> {
    let toks: Vec<Token> = lex(src).ok()?;
    let n = toks.len() - 1; // without Eof
    if n == 0 {
        return None;
    }
    let mut parts: Vec<String> = toks[..n].iter().map(|t| src[t.pos..t.end].to_string()).collect();
    let any = |rng: &mut Rng| -> String {
        if rng.chance(1, 4) {
            POOL_EXTRA[rng.below(POOL_EXTRA.len())].to_string()
        } else {
            POOL[rng.below(POOL.len())].to_string()
        }
    };
    let i = rng.below(n);
    match rng.below(8) {
        6 | 7 => {
            // wrap a short span of tokens in a bracket pair: stays a sentence exactly when the
            // span is an expression in a position that admits the bracketed form
            let j = (i + rng.below(3)).min(n - 1);
            let (open, close) = [("(", ")"), ("(", ")"), ("[", "]"), ("{", "}"), ("[?", "]"), ("((", "))")][rng.below(6)];
            parts.insert(j + 1, close.to_string());
            parts.insert(i, open.to_string());
        }
        0 => {
            parts.remove(i);
        }
        1 => {
            let p = parts[i].clone();
            parts.insert(i, p);
        }
        2 => {
            if n >= 2 {
                let j = if i + 1 < n { i + 1 } else { i - 1 };
                parts.swap(i, j);
            } else {
                parts.remove(i);
            }
        }
        3 => parts[i] = any(rng),
        4 => {
            let t = any(rng);
            parts.insert(i, t);
        }
        _ => {
            // split a compound token with a space: "[]" -> "[ ]", "||" -> "| |", "[?" -> "[ ?"
            let t = parts[i].clone();
            if t.len() == 2 && !t.chars().next().unwrap().is_alphanumeric() {
                parts[i] = format!("{} {}", &t[..1], &t[1..]);
            } else {
                parts.remove(i);
            }
        }
    }
    if parts.is_empty() {
        return None;
    }
    let refs: Vec<&str> = parts.iter().map(|s| s.as_str()).collect();
    Some(render_pool(&refs))
}

pub fn token_soup(rng: &mut Rng, maxlen: usize) -> String {
    let n = rng.below(maxlen) + 1;
    let mut seq: Vec<&str> = vec![];
    for _ in 0..n {
        if rng.chance(1, 5) {
            seq.push(POOL_EXTRA[rng.below(POOL_EXTRA.len())]);
        } else {
            seq.push(POOL[rng.below(POOL.len())]);
        }
    }
    render_pool(&seq)
}

pub fn char_soup(rng: &mut Rng, maxlen: usize) -> String {
    const ALPHA: [&str; 52] = [
        "a", "b", "_", "0", "1", "9", "-", ".", "*", "[", "]", "?", "|", "&", "!", "=", "<", ">", "@", "(", ")", "{", "}", ",",
        ":", "\"", "'", "`", "\\", " ", "\n", "\t", "\r", "é", "日", "\u{1F600}", "٣", "²", "\u{0}", "\u{7f}", "u", "n", "e", "+",
        "#", "~", "\u{FFFF}", "\u{10FFFF}", "x", "00", "\\u", "d8",
    ];
    let n = rng.below(maxlen) + 1;
    let mut s = String::new();
    for _ in 0..n {
        s.push_str(ALPHA[rng.below(ALPHA.len())]);
    }
    s
}

/// All truncations of `s` at char boundaries (excluding the full string).
pub fn truncations(s: &str) -> Vec<&str> {
    s.char_indices().map(|(i, _)| &s[..i]).collect()
}

/// Numeric-edge templates: indexes and slice parts at the edge of the i32 range.
pub fn numeric_edge(rng: &mut Rng) -> String {
    const EDGE: [&str; 18] = [
        "", "0", "1", "-1", "2", "-2", "2147483647", "-2147483647", "2147483646", "-2147483646", "2147483648", "-2147483648",
        "2147483649", "-2147483649", "4294967296", "99999999999", "000000000000000000001", "123456789012345678901234567890",
    ];
    let p = |rng: &mut Rng| EDGE[rng.below(EDGE.len())];
    match rng.below(4) {
        0 => format!("a[{}]", p(rng)),
        1 => format!("[{}:{}:{}]", p(rng), p(rng), p(rng)),
        2 => format!("a[{}:{}]", p(rng), p(rng)),
        _ => format!("a[{}:{}:{}].b", p(rng), p(rng), p(rng)),
    }
}

/// A sentence in which one identifier position holds a quoted token (quoted
/// identifier, raw string or backtick literal) with a hostile body: control
/// characters, lone backslashes, delimiters, escapes of every kind.
pub fn hostile_quoted_sentence(rng: &mut Rng) -> String {
    const BODY: [&str; 30] = [
        "a", "b", " ", "\t", "\n", "\r", "\u{0}", "\u{1f}", "\u{7f}", "\\", "\\\\", "\\\"", "\\'", "\\`", "\\n", "\\t", "\\u0041", "\\u00e9", "\\ud83d\\ude00", "\\ud800",
        "\\x", "é", "日", "\u{1F600}", "\"", "'", "`", "1", "[", "{",
    ];
    let n = rng.below(6);
    let body: String = (0..n).map(|_| BODY[rng.below(BODY.len())]).collect();
    let tok = match rng.below(4) {
        0 | 1 => format!("\"{}\"", body),
        2 => format!("'{}'", body),
        _ => format!("`\"{}\"`", body),
    };
    let frames = ["{}", "a.{}", "{}.b", "[{}, a]", "{{k: {}}}", "a[?{} == b]", "{} || a", "length({})", "{{{}: a}}", "a | {}"];
    let f = frames[rng.below(frames.len())];
    f.replacen("{}", &tok, 1).replace("{{", "{").replace("}}", "}")
}

/// A long delimited token — well-formed or malformed — whose multi-byte characters sit on
/// the byte positions where code that shortens or chunks text likes to cut (…64, …128, …160,
/// …256, …1024, …4096), optionally inside a frame. Malformed ones must be rejected, never
/// crash the lexer while it words its complaint.
pub fn long_token_case(rng: &mut Rng) -> String {
    let around = [16usize, 32, 64, 80, 100, 128, 160, 200, 255, 256, 512, 1024, 4096][rng.below(13)];
    // half of the cases: any length below 300 (every byte offset is met by a multi-byte character sooner or later)
    let n = if rng.chance(1, 2) { rng.below(300) } else { (around + rng.below(9)).saturating_sub(6) };
    let filler: String = (0..n).map(|i| [b'a', b'x', b'0', b' '][if rng.chance(1, 9) { 3 } else { i % 3 }] as char).collect();
    let wide: String = if rng.chance(1, 3) {
        // a run of one multi-byte character: some byte offset in the window falls inside a character whatever the cut
        ["é", "я", "日", "\u{1F600}"][rng.below(4)].repeat(2 + rng.below(40))
    } else {
        (0..1 + rng.below(4)).map(|_| ["é", "日", "\u{1F600}", "ÿ", "\u{10FFFF}"][rng.below(5)]).collect()
    };
    let tail = ["", "", "\\x", "\\", "\u{1}", ", oops]", "\\u12", "\\ud800", "\"", "'", "`", "\\'", "\n"][rng.below(13)];
    let body = format!("{}{}{}{}", filler, wide, tail, if rng.chance(1, 2) { "zz" } else { "" });
    let tok = match rng.below(8) {
        0 => format!("\"{}\"", body),
        1 => format!("'{}'", body),
        2 => format!("`\"{}\"`", body),
        3 => format!("`[\"{}\", 1]`", body),
        4 => format!("`[\"{}\", ]`", body),
        5 => format!("\"{}", body),
        6 => format!("`{{\"{}\": 1}}`", body),
        _ => format!("`{}`", body),
    };
    let frames = ["{}", "{}", "a.{}", "[{}, a]", "a[?{} == b]", "length({})", "a | {}", "{} | b"];
    frames[rng.below(frames.len())].replacen("{}", &tok, 1)
}

/// Characters that Unicode calls numeric, alphabetic or white-space but the grammar does not,
/// placed where a digit, an identifier character or a blank is expected.
pub fn lookalike_case(rng: &mut Rng) -> String {
    const DIGITS: [&str; 8] = ["\u{0663}", "\u{FF11}", "\u{00B2}", "\u{00BD}", "\u{2167}", "\u{0BE7}", "\u{3007}", "\u{1D7D9}"];
    const LETTERS: [&str; 18] = [
        "é", "\u{FF41}", "\u{03B1}", "\u{00AA}", "\u{2118}", "\u{0300}",
        // first / last code points of each UTF-8 length and their neighbours
        "\u{7F}", "\u{80}", "\u{81}", "\u{FF}", "\u{100}", "\u{7FF}", "\u{800}", "\u{D7FF}", "\u{E000}", "\u{FFFF}", "\u{10000}", "\u{10FFFF}",
    ];
    const BLANKS: [&str; 9] = ["\u{B}", "\u{C}", "\u{85}", "\u{A0}", "\u{2028}", "\u{3000}", "\u{FEFF}", "\u{200B}", "\u{1680}"];
    let d = DIGITS[rng.below(DIGITS.len())];
    let l = LETTERS[rng.below(LETTERS.len())];
    let b = BLANKS[rng.below(BLANKS.len())];
    let t = [
        "a[-{d}]", "a[{d}]", "a[-{d}1]", "a[-1{d}]", "a[1:-{d}]", "[-{d}]", "a[{d}:]", "a[::-{d}]", "a[-{d}", "-{d}", "a[- {d}]", "a[-{d}{d}]",
        "{l}", "a{l}", "{l}a", "a.{l}", "a.b{l}c", "f{l}(a)", "&{l}",
        "a{b}", "{b}a", "a{b}.b", "a .{b}b", "a{b}|{b}b", "[a,{b}b]", "a{b}", "'x'{b}", "a[{b}0]",
        // … after a legal blank, in front of a call, between a name and its parenthesis
        "`{b}true`", "`true{b}`", "`{b}1`", "` {b}null`", "`[1,{b}2]`", "a == `{b}\"s\"`",
        "a {b}.b", "a\n{b}b", "[a, {b}b]", "{b}abs(a)", "abs{b}(a)", "abs({b}a)", "abs(a{b})", " {b} abs(a)", "a |\t{b}abs(b)",
    ][rng.below(43)];
    t.replace("{d}", d).replace("{l}", l).replace("{b}", b)
}

/// One ASCII character of `text` replaced by (or followed by) a character whose code point is the same
/// modulo 256 / 65536 (U+0100·k + c, the full-width form, U+10000 + c): whatever narrows a character to a
/// byte before comparing it meets a character that then looks like an operator, a quote or a bracket.
pub fn truncation_twin(text: &str, rng: &mut Rng) -> Option<String> {
    let idx: Vec<(usize, char)> = text.char_indices().filter(|(_, c)| c.is_ascii() && !c.is_ascii_control()).collect();
    if idx.is_empty() {
        return None;
    }
    // significant characters are picked more often than letters
    let sig: Vec<(usize, char)> = idx.iter().cloned().filter(|(_, c)| !c.is_ascii_alphanumeric() && *c != ' ').collect();
    let (at, c) = if !sig.is_empty() && rng.chance(3, 4) { sig[rng.below(sig.len())] } else { idx[rng.below(idx.len())] };
    let add: u32 = match rng.below(8) {
        0 => 0x100,
        1 => 0x200,
        2 => 0x400,
        3 => 0x100 * (1 + rng.below(200) as u32),
        4 => 0xFEE0,
        5 => 0x10000,
        6 => 0x1000 * (1 + rng.below(12) as u32),
        _ => 0x100 * (1 + rng.below(15) as u32),
    };
    let twin = char::from_u32(c as u32 + add)?;
    let mut out = String::with_capacity(text.len() + 4);
    out.push_str(&text[..at]);
    match rng.below(3) {
        0 => out.push(twin),
        1 => {
            out.push(c);
            out.push(twin);
        }
        _ => {
            out.push(twin);
            out.push(c);
        }
    }
    out.push_str(&text[at + 1..]);
    Some(out)
}

/// The second half of every two-character operator replaced by each of its twins (deterministic sweep).
pub fn operator_twins() -> Vec<String> {
    let mut out = vec![];
    let forms: [(&str, char); 9] = [("a |{} b", '|'), ("a &{} b", '&'), ("a <{} b", '='), ("a >{} b", '='), ("a !{} b", '='), ("a ={} b", '='), ("a[{}]", ']'), ("a[{}b]", '?'), ("a[?b <{} c]", '=')];
    for (f, c) in forms.iter() {
        for add in [0x100u32, 0x200, 0x300, 0x400, 0x500, 0x1000, 0x2000, 0xFEE0, 0x10000, 0x20000] {
            if let Some(t) = char::from_u32(*c as u32 + add) {
                out.push(f.replace("{}", &t.to_string()));
            }
        }
    }
    for c in ['\'', '"', '`', '(', ')', '[', ']', '{', '}', '.', ',', ':', '*', '@', '&', '|', '!', '<', '>', '=', '-', '0', '9', 'a', '_', ' ', '\\'] {
        for add in [0x100u32, 0x400, 0x10000] {
            if let Some(t) = char::from_u32(c as u32 + add) {
                for f in ["a{}b", "{}a", "a{}", "a {} b", "'x{}", "\"x{}", "`1{}", "f({})", "a[{}", "a.{}"] {
                    out.push(f.replace("{}", &t.to_string()));
                }
            }
        }
    }
    out
}

/// Delimiter characters as TEXT: parenthesised groups, multi-selects, filters and calls whose operands are raw
/// strings, quoted identifiers and literals made of `(`, `)`, `[`, `]`, `{`, `}`, quotes and back-ticks — balanced or
/// not over the whole expression. Anything that looks for a matching bracket in the characters instead of the
/// tokens loses count here.
pub fn bracket_text_case(rng: &mut Rng) -> String {
    const TEXTS: [&str; 14] = ["(", ")", "((", "))", ")(", "[", "]", "[?", "{", "}", "`", "\"", "(]", "'"];
    let tok = |rng: &mut Rng| -> String {
        let t = TEXTS[rng.below(TEXTS.len())];
        match rng.below(4) {
            0 => format!("'{}'", t.replace('\'', "\\'")),
            1 => format!("\"{}\"", t.replace('"', "\\\"")),
            2 => format!("`\"{}\"`", t.replace('"', "\\\"").replace('`', "\\`")),
            _ => format!("'{}{}'", t.replace('\'', "\\'"), t.replace('\'', "\\'")),
        }
    };
    let group = |rng: &mut Rng| -> String {
        let a = tok(rng);
        match rng.below(9) {
            0 => format!("({})", a),
            1 => format!("(a == {})", a),
            2 => format!("({}.a)", if a.starts_with('"') { a } else { "b".to_string() }),
            3 => format!("[{}, {}]", a, tok(rng)),
            4 => format!("{{k: {}}}", a),
            5 => format!("a[?b == {}]", a),
            6 => format!("length({})", a),
            7 => format!("(({}) || ({}))", a, tok(rng)),
            _ => a,
        }
    };
    let n = 2 + rng.below(3);
    let mut out = group(rng);
    for _ in 1..n {
        let op = [" || ", " && ", " | ", " == ", " != "][rng.below(5)];
        out.push_str(op);
        out.push_str(&group(rng));
    }
    out
}

/// Many small expressions side by side in ONE expression: n operands of a `||` / `&&` / `|` chain, n
/// members of a multi-select, n arguments of a call, n steps of a dotted path — n up to several hundred,
/// around every power of two. Nothing nests more than three deep: whatever is counted per expression
/// (groups opened so far, tokens, literals, call sites) is large while every depth is small.
pub fn wide_case(rng: &mut Rng) -> String {
    wide_case_upto(rng, 600)
}

pub fn wide_case_upto(rng: &mut Rng, max_n: usize) -> String {
    const ITEMS: [&str; 24] = [
        "(a)", "(a.b)", "(a || b)", "((a))", "f(a)", "length(a)", "`1`", "`\"s\"`", "'s'", "\"q\"", "a[0]", "a[?b]", "a[?(b)]", "[a]", "[(a)]", "{k: a}", "{k: (a)}", "!a", "!(a)", "a[1:2]", "*", "@", "a.*", "a[]",
    ];
    let n = [2usize, 3, 10, 50, 100, 126, 127, 128, 129, 130, 200, 255, 256, 257, 300, 600][rng.below(16)].min(max_n);
    let uniform = rng.chance(1, 2);
    let one = ITEMS[rng.below(ITEMS.len())];
    let items: Vec<String> = (0..n)
        .map(|i| {
            let it = if uniform { one } else { ITEMS[rng.below(ITEMS.len())] };
            // numbered names keep the members distinguishable
            if rng.chance(1, 2) { it.replacen('a', &format!("a{}", i), 1) } else { it.to_string() }
        })
        .collect();
    match rng.below(9) {
        0 => items.join(" || "),
        1 => items.join(" && "),
        2 => items.join(" | "),
        3 => format!("[{}]", items.join(", ")),
        4 => format!("not_null({})", items.join(", ")),
        5 => format!("{{{}}}", items.iter().enumerate().map(|(i, it)| format!("k{}: {}", i, it)).collect::<Vec<_>>().join(", ")),
        6 => {
            // a dotted path of n steps (each a member, a quoted member, a one-member multi-select or a group is not a step: members only)
            (0..n).map(|i| if i % 3 == 1 { format!("\"m{}\"", i) } else { format!("m{}", i) }).collect::<Vec<_>>().join(".")
        }
        7 => items.iter().enumerate().map(|(i, it)| if i % 2 == 0 { format!("{} ||", it) } else { format!("{} &&", it) }).collect::<Vec<_>>().join(" ") + " z",
        _ => format!("a[?{}]", items.join(" || ")),
    }
}

/// Quoted identifiers, literals and raw strings made of \uXXXX escapes around the surrogate
/// range in every order (lone, reversed, high followed by a non-surrogate, doubled).
pub fn surrogate_case(rng: &mut Rng) -> String {
    const UNITS: [&str; 12] = ["\\ud800", "\\udbff", "\\udc00", "\\udfff", "\\u0041", "\\u0000", "\\uffff", "\\ud7ff", "\\ue000", "\\ud83d", "\\ude00", "\\uD83D"];
    let n = 1 + rng.below(4);
    let mut body = String::new();
    for _ in 0..n {
        body.push_str(UNITS[rng.below(UNITS.len())]);
        if rng.chance(1, 5) {
            body.push_str(["a", "é", "\\\\", "\\n", " "][rng.below(5)]);
        }
    }
    let tok = match rng.below(5) {
        0 | 1 => format!("\"{}\"", body),
        2 => format!("`\"{}\"`", body),
        3 => format!("`[\"{}\", {{\"{}\": 1}}]`", body, body),
        _ => format!("'{}'", body),
    };
    let frames = ["{}", "a.{}", "{} | b", "[{}]", "{{k: {}}}", "a[?{} == b]"];
    frames[rng.below(frames.len())].replacen("{}", &tok, 1).replace("{{", "{").replace("}}", "}")
}

/// Backtick literals that are (mostly) not JSON: escaped back-ticks, multi-byte characters, raw
/// line feeds, truncated escapes, unterminated strings / arrays, keywords padded with look-alike
/// blanks — and the same body between different delimiters side by side.
pub fn malformed_literal_case(rng: &mut Rng) -> String {
    const PIECES: [&str; 24] = [
        "\"", "[", "{", "1", ",", "\\`", "ключ", "я", "é", "\n", "\r\n", "\\u12", "\\u", "\\ud83d", "true", "nul", " ", "\u{A0}", "\u{2003}", "\u{B}", ":", "]", "\\", "abc",
    ];
    let n = 1 + rng.below(6);
    let body: String = (0..n).map(|_| PIECES[rng.below(PIECES.len())]).collect();
    match rng.below(8) {
        0 => format!("`{}`", body),
        1 => format!("a | `{}`", body),
        2 => format!("[`1`, `{}`]", body),
        // the same characters between different delimiters (each kind decodes on its own)
        3 => format!("['{}', `{}`]", body.replace('\'', ""), body),
        4 => format!("[`{}`, '{}']", body, body.replace('\'', "")),
        5 => format!("foo[?a == '{}' || b == `{}`]", body.replace('\'', ""), body),
        6 => format!("`{}{}`", ["\u{A0}", "\u{B}", "\u{C}", "\u{2003}", "\u{3000}", "\u{FEFF}"][rng.below(6)], ["true", "false", "null", "1", "\"s\"", "[]"][rng.below(6)]),
        _ => format!("`{}{}`", ["true", "false", "null", "1", "{}"][rng.below(5)], ["\u{A0}", "\u{B}", "\u{85}", "\u{2028}", "\u{3000}"][rng.below(5)]),
    }
}
