//! Reference evaluator: JMESPath semantics over the pipeline normal form,
//! the 26 built-in functions and their signature table, from the specification.

use crate::json::{num_eq, truthy, type_name, val_eq};
use crate::nf::{CmpOp, Kind, Pipeline, Step};
use serde_json::{Map, Number, Value};
use std::cmp::Ordering;

#[derive(Clone, Debug)]
pub enum Arg {
    Val(Value),
    Expref(Pipeline),
}

#[derive(Clone, Debug, PartialEq)]
pub enum ErrKind {
    UnknownFunction(String),
    /// wrong number of arguments
    Arity,
    /// argument (or expref result) of the wrong type
    Type,
    /// slice step 0
    InvalidSlice,
    /// The statement does not constrain this case (reason); the case is skipped and counted.
    Unconstrained(&'static str),
}

#[derive(Clone, Debug)]
pub struct RefErr {
    pub kind: ErrKind,
    /// for calls: byte offset of "("; for slices: (lb, rb)
    pub pos: (usize, usize),
    pub fname: String,
}

impl RefErr {
    pub fn class(&self) -> &'static str {
        match self.kind {
            ErrKind::UnknownFunction(_) => "unknown-function",
            ErrKind::Arity => "arity",
            ErrKind::Type => "type",
            ErrKind::InvalidSlice => "invalid-slice",
            ErrKind::Unconstrained(_) => "unconstrained",
        }
    }
}

pub enum Lookup {
    Builtin,
    Custom(u64),
    Unknown,
}

pub trait Registry {
    fn lookup(&self, name: &str) -> Lookup;
    fn call_custom(&self, _id: u64, _name: &str, _args: &[Arg], _pos: usize) -> Result<Value, RefErr> {
        unreachable!()
    }
}

pub struct Builtins;
impl Registry for Builtins {
    fn lookup(&self, name: &str) -> Lookup {
        if signature(name).is_some() {
            Lookup::Builtin
        } else {
            Lookup::Unknown
        }
    }
}

pub const BUILTIN_NAMES: [&str; 26] = [
    "abs", "avg", "ceil", "contains", "ends_with", "floor", "join", "keys", "length", "map", "max", "max_by", "merge",
    "min", "min_by", "not_null", "reverse", "sort", "sort_by", "starts_with", "sum", "to_array", "to_number",
    "to_string", "type", "values",
];

#[derive(Clone, Copy, Debug, PartialEq)]
pub enum T {
    Any,
    Number,
    String,
    Object,
    Array,
    Expref,
    ArrNum,
    ArrStr,
    /// string | array
    StrOrArr,
    /// array | object | string
    ArrObjStr,
    /// array[number] | array[string]
    ArrNumOrArrStr,
}

pub struct Sig {
    pub params: &'static [T],
    pub variadic: Option<T>,
}

pub fn signature(name: &str) -> Option<Sig> {
    use T::*;
    let s = |params: &'static [T], variadic: Option<T>| Some(Sig { params, variadic });
    match name {
        "abs" | "ceil" | "floor" => s(&[Number], None),
        "avg" | "sum" => s(&[ArrNum], None),
        "contains" => s(&[StrOrArr, Any], None),
        "ends_with" | "starts_with" => s(&[String, String], None),
        "join" => s(&[String, ArrStr], None),
        "keys" | "values" => s(&[Object], None),
        "length" => s(&[ArrObjStr], None),
        "map" => s(&[Expref, Array], None),
        "max" | "min" | "sort" => s(&[ArrNumOrArrStr], None),
        "max_by" | "min_by" | "sort_by" => s(&[Array, Expref], None),
        "merge" => s(&[Object], Some(Object)),
        "not_null" => s(&[Any], Some(Any)),
        "reverse" => s(&[StrOrArr], None),
        "to_array" | "to_number" | "to_string" | "type" => s(&[Any], None),
        _ => None,
    }
}

/// Some(true/false) = accepted/rejected; None = the specification's "any" meets
/// an expression reference (unconstrained).
pub fn type_ok(t: T, a: &Arg) -> Option<bool> {
    let all = |arr: &Vec<Value>, f: fn(&Value) -> bool| arr.iter().all(f);
    match (t, a) {
        (T::Any, Arg::Expref(_)) => None,
        (T::Any, _) => Some(true),
        (T::Expref, Arg::Expref(_)) => Some(true),
        (T::Expref, _) => Some(false),
        (_, Arg::Expref(_)) => Some(false),
        (t, Arg::Val(v)) => Some(match (t, v) {
            (T::Number, Value::Number(_)) => true,
            (T::String, Value::String(_)) => true,
            (T::Object, Value::Object(_)) => true,
            (T::Array, Value::Array(_)) => true,
            (T::ArrNum, Value::Array(a)) => all(a, Value::is_number),
            (T::ArrStr, Value::Array(a)) => all(a, Value::is_string),
            (T::StrOrArr, Value::String(_)) | (T::StrOrArr, Value::Array(_)) => true,
            (T::ArrObjStr, Value::String(_)) | (T::ArrObjStr, Value::Array(_)) | (T::ArrObjStr, Value::Object(_)) => {
                true
            }
            (T::ArrNumOrArrStr, Value::Array(a)) => all(a, Value::is_number) || all(a, Value::is_string),
            _ => false,
        }),
    }
}

pub struct Evaluator<'r> {
    pub reg: &'r dyn Registry,
    /// number of expref evaluations performed (evidence)
    pub expref_evals: std::cell::Cell<u64>,
    pub calls: std::cell::RefCell<std::collections::BTreeMap<String, u64>>,
}

fn null() -> Value {
    Value::Null
}

pub fn num_f64(v: &Value) -> f64 {
    v.as_f64().unwrap_or(f64::NAN)
}

pub fn num_cmp(a: &Value, b: &Value) -> Ordering {
    if let (Value::Number(x), Value::Number(y)) = (a, b) {
        if let (Some(p), Some(q)) = (x.as_i64(), y.as_i64()) {
            return p.cmp(&q);
        }
        if let (Some(p), Some(q)) = (x.as_u64(), y.as_u64()) {
            return p.cmp(&q);
        }
    }
    num_f64(a).partial_cmp(&num_f64(b)).unwrap_or(Ordering::Equal)
}

pub fn from_f64(f: f64) -> Option<Value> {
    // keep integral doubles that fit as integers so that printing is natural;
    // comparisons are by value anyway.
    Number::from_f64(f).map(Value::Number)
}

impl<'r> Evaluator<'r> {
    pub fn new(reg: &'r dyn Registry) -> Evaluator<'r> {
        Evaluator {
            reg,
            expref_evals: Default::default(),
            calls: Default::default(),
        }
    }

    pub fn eval(&self, p: &Pipeline, input: &Value) -> Result<Value, RefErr> {
        let mut cur = input.clone();
        for s in p {
            cur = self.step(s, &cur)?;
        }
        Ok(cur)
    }

    fn unconstrained(&self, why: &'static str) -> RefErr {
        RefErr {
            kind: ErrKind::Unconstrained(why),
            pos: (0, 0),
            fname: String::new(),
        }
    }

    fn project(&self, items: &[Value], rhs: &Pipeline) -> Result<Value, RefErr> {
        let mut out = vec![];
        for it in items {
            let r = self.eval(rhs, it)?;
            if !r.is_null() {
                out.push(r);
            }
        }
        Ok(Value::Array(out))
    }

    fn step(&self, s: &Step, cur: &Value) -> Result<Value, RefErr> {
        match s {
            Step::Field(name) => Ok(match cur {
                Value::Object(m) => m.get(name).cloned().unwrap_or(Value::Null),
                _ => null(),
            }),
            Step::Index(i) => Ok(match cur {
                Value::Array(a) => {
                    let len = a.len() as i64;
                    let k = if *i < 0 { len + *i } else { *i };
                    if k >= 0 && k < len {
                        a[k as usize].clone()
                    } else {
                        null()
                    }
                }
                _ => null(),
            }),
            Step::Literal(v) => Ok(v.clone()),
            Step::MultiList(es) => {
                if cur.is_null() {
                    return Ok(null());
                }
                let mut out = vec![];
                for e in es {
                    out.push(self.eval_value_only(e, cur)?);
                }
                Ok(Value::Array(out))
            }
            Step::MultiHash(kvs) => {
                if cur.is_null() {
                    return Ok(null());
                }
                let mut out = Map::new();
                for (k, e) in kvs {
                    let v = self.eval_value_only(e, cur)?;
                    out.insert(k.clone(), v);
                }
                Ok(Value::Object(out))
            }
            Step::Not(e) => Ok(Value::Bool(!truthy(&self.eval_value_only(e, cur)?))),
            Step::Or(l, r) => {
                let lv = self.eval_value_only(l, cur)?;
                if truthy(&lv) {
                    Ok(lv)
                } else {
                    self.eval_value_only(r, cur)
                }
            }
            Step::And(l, r) => {
                let lv = self.eval_value_only(l, cur)?;
                if !truthy(&lv) {
                    Ok(lv)
                } else {
                    self.eval_value_only(r, cur)
                }
            }
            Step::Cmp(op, l, r) => {
                let lv = self.eval_value_only(l, cur)?;
                let rv = self.eval_value_only(r, cur)?;
                Ok(compare(*op, &lv, &rv))
            }
            Step::Expref(_) => Err(self.unconstrained("expression reference outside a function argument")),
            Step::Project(kind, rhs, pos) => match kind {
                Kind::ListWild => match cur {
                    Value::Array(a) => self.project(a, rhs),
                    _ => Ok(null()),
                },
                Kind::ObjWild => match cur {
                    Value::Object(m) => {
                        let vals: Vec<Value> = m.values().cloned().collect();
                        self.project(&vals, rhs)
                    }
                    _ => Ok(null()),
                },
                Kind::Flatten => match cur {
                    Value::Array(a) => {
                        let mut flat = vec![];
                        for e in a {
                            match e {
                                Value::Array(inner) => flat.extend(inner.iter().cloned()),
                                other => flat.push(other.clone()),
                            }
                        }
                        self.project(&flat, rhs)
                    }
                    _ => Ok(null()),
                },
                Kind::Filter(pred) => match cur {
                    Value::Array(a) => {
                        let mut out = vec![];
                        for e in a {
                            if truthy(&self.eval_value_only(pred, e)?) {
                                let r = self.eval(rhs, e)?;
                                if !r.is_null() {
                                    out.push(r);
                                }
                            }
                        }
                        Ok(Value::Array(out))
                    }
                    _ => Ok(null()),
                },
                Kind::Slice(a, b, c) => {
                    if *c == 0 {
                        return Err(RefErr {
                            kind: ErrKind::InvalidSlice,
                            pos: *pos,
                            fname: String::new(),
                        });
                    }
                    match cur {
                        Value::Array(arr) => {
                            let idx = slice_indices(arr.len() as i128, a.map(|x| x as i128), b.map(|x| x as i128), *c as i128);
                            let items: Vec<Value> = idx.into_iter().map(|i| arr[i].clone()).collect();
                            self.project(&items, rhs)
                        }
                        _ => Ok(null()),
                    }
                }
            },
            Step::Call(name, args, pos) => {
                let mut av = vec![];
                for a in args {
                    if a.len() == 1 {
                        if let Step::Expref(e) = &a[0] {
                            av.push(Arg::Expref(e.clone()));
                            continue;
                        }
                    }
                    av.push(Arg::Val(self.eval_value_only(a, cur)?));
                }
                *self.calls.borrow_mut().entry(name.clone()).or_insert(0) += 1;
                match self.reg.lookup(name) {
                    Lookup::Unknown => Err(RefErr {
                        kind: ErrKind::UnknownFunction(name.clone()),
                        pos: (*pos, *pos),
                        fname: name.clone(),
                    }),
                    Lookup::Custom(id) => self.reg.call_custom(id, name, &av, *pos),
                    Lookup::Builtin => self.call_builtin(name, &av, *pos),
                }
            }
        }
    }

    /// Evaluate a sub-expression that must yield a JSON value.
    fn eval_value_only(&self, p: &Pipeline, cur: &Value) -> Result<Value, RefErr> {
        self.eval(p, cur)
    }

    pub fn check_signature(&self, name: &str, args: &[Arg], pos: usize) -> Result<(), RefErr> {
        let sig = signature(name).expect("builtin");
        let e = |kind: ErrKind| RefErr {
            kind,
            pos: (pos, pos),
            fname: name.to_string(),
        };
        let n = sig.params.len();
        let arity_ok = if sig.variadic.is_some() {
            args.len() >= n
        } else {
            args.len() == n
        };
        if !arity_ok {
            return Err(e(ErrKind::Arity));
        }
        let mut unconstrained = false;
        for (k, a) in args.iter().enumerate() {
            let t = if k < n { sig.params[k] } else { sig.variadic.unwrap() };
            match type_ok(t, a) {
                Some(true) => {}
                Some(false) => return Err(e(ErrKind::Type)),
                None => unconstrained = true,
            }
        }
        if unconstrained {
            return Err(e(ErrKind::Unconstrained("expression reference passed for an 'any' parameter")));
        }
        Ok(())
    }

    fn keys_of(&self, name: &str, arr: &[Value], e: &Pipeline, pos: usize) -> Result<Vec<Value>, RefErr> {
        // evaluates the expref once per element, in order; all keys must be
        // numbers or all strings.
        let mut keys = Vec::with_capacity(arr.len());
        let mut first_type: Option<&'static str> = None;
        for el in arr {
            self.expref_evals.set(self.expref_evals.get() + 1);
            let k = self.eval(e, el)?;
            let t = type_name(&k);
            let bad = match first_type {
                None => {
                    first_type = Some(t);
                    t != "number" && t != "string"
                }
                Some(ft) => ft != t,
            };
            if bad {
                return Err(RefErr {
                    kind: ErrKind::Type,
                    pos: (pos, pos),
                    fname: name.to_string(),
                });
            }
            keys.push(k);
        }
        Ok(keys)
    }

    pub fn call_builtin(&self, name: &str, args: &[Arg], pos: usize) -> Result<Value, RefErr> {
        self.check_signature(name, args, pos)?;
        let val = |k: usize| -> &Value {
            match &args[k] {
                Arg::Val(v) => v,
                Arg::Expref(_) => &Value::Null,
            }
        };
        let expref = |k: usize| -> &Pipeline {
            match &args[k] {
                Arg::Expref(e) => e,
                _ => unreachable!(),
            }
        };
        let nonfinite = || self.unconstrained("non-finite arithmetic result");
        Ok(match name {
            "abs" => match val(0) {
                Value::Number(n) if n.is_i64() && n.as_i64() != Some(i64::MIN) => Value::from(n.as_i64().unwrap().abs()),
                Value::Number(n) if n.is_u64() => Value::Number(n.clone()),
                v => from_f64(num_f64(v).abs()).ok_or_else(nonfinite)?,
            },
            "ceil" => match val(0) {
                Value::Number(n) if n.is_i64() || n.is_u64() => Value::Number(n.clone()),
                v => from_f64(num_f64(v).ceil()).ok_or_else(nonfinite)?,
            },
            "floor" => match val(0) {
                Value::Number(n) if n.is_i64() || n.is_u64() => Value::Number(n.clone()),
                v => from_f64(num_f64(v).floor()).ok_or_else(nonfinite)?,
            },
            "avg" => {
                let a = val(0).as_array().unwrap();
                if a.is_empty() {
                    Value::Null
                } else {
                    let s: f64 = a.iter().map(num_f64).sum();
                    from_f64(s / a.len() as f64).ok_or_else(nonfinite)?
                }
            }
            "sum" => {
                let a = val(0).as_array().unwrap();
                let s: f64 = a.iter().map(num_f64).sum();
                from_f64(s).ok_or_else(nonfinite)?
            }
            "contains" => match (val(0), val(1)) {
                (Value::Array(a), x) => Value::Bool(a.iter().any(|e| val_eq(e, x, 0.0))),
                (Value::String(s), Value::String(x)) => Value::Bool(s.contains(x.as_str())),
                (Value::String(_), _) => Value::Bool(false),
                _ => unreachable!(),
            },
            "ends_with" => Value::Bool(val(0).as_str().unwrap().ends_with(val(1).as_str().unwrap())),
            "starts_with" => Value::Bool(val(0).as_str().unwrap().starts_with(val(1).as_str().unwrap())),
            "join" => {
                let glue = val(0).as_str().unwrap();
                let parts: Vec<&str> = val(1).as_array().unwrap().iter().map(|v| v.as_str().unwrap()).collect();
                Value::String(parts.join(glue))
            }
            "keys" => Value::Array(val(0).as_object().unwrap().keys().map(|k| Value::String(k.clone())).collect()),
            "values" => Value::Array(val(0).as_object().unwrap().values().cloned().collect()),
            "length" => match val(0) {
                Value::String(s) => Value::from(s.chars().count() as u64),
                Value::Array(a) => Value::from(a.len() as u64),
                Value::Object(o) => Value::from(o.len() as u64),
                _ => unreachable!(),
            },
            "map" => {
                let e = expref(0);
                let mut out = vec![];
                for el in val(1).as_array().unwrap() {
                    self.expref_evals.set(self.expref_evals.get() + 1);
                    out.push(self.eval(e, el)?);
                }
                Value::Array(out)
            }
            "max" | "min" => {
                let a = val(0).as_array().unwrap();
                if a.is_empty() {
                    Value::Null
                } else {
                    let mut best = &a[0];
                    for x in &a[1..] {
                        let o = order(x, best);
                        if (name == "max" && o == Ordering::Greater) || (name == "min" && o == Ordering::Less) {
                            best = x;
                        }
                    }
                    best.clone()
                }
            }
            "max_by" | "min_by" => {
                let a = val(0).as_array().unwrap();
                if a.is_empty() {
                    Value::Null
                } else {
                    let keys = self.keys_of(name, a, expref(1), pos)?;
                    let mut bi = 0;
                    for i in 1..a.len() {
                        let o = order(&keys[i], &keys[bi]);
                        if (name == "max_by" && o == Ordering::Greater) || (name == "min_by" && o == Ordering::Less) {
                            bi = i;
                        }
                    }
                    a[bi].clone()
                }
            }
            "merge" => {
                let mut out = Map::new();
                for a in args {
                    if let Arg::Val(Value::Object(m)) = a {
                        for (k, v) in m {
                            out.insert(k.clone(), v.clone());
                        }
                    }
                }
                Value::Object(out)
            }
            "not_null" => {
                let mut r = Value::Null;
                for a in args {
                    if let Arg::Val(v) = a {
                        if !v.is_null() {
                            r = v.clone();
                            break;
                        }
                    }
                }
                r
            }
            "reverse" => match val(0) {
                Value::String(s) => Value::String(s.chars().rev().collect()),
                Value::Array(a) => Value::Array(a.iter().rev().cloned().collect()),
                _ => unreachable!(),
            },
            "sort" => {
                let mut a = val(0).as_array().unwrap().clone();
                a.sort_by(|x, y| order(x, y)); // Vec::sort_by is stable
                Value::Array(a)
            }
            "sort_by" => {
                let a = val(0).as_array().unwrap();
                if a.is_empty() {
                    Value::Array(vec![])
                } else {
                    let keys = self.keys_of(name, a, expref(1), pos)?;
                    let mut idx: Vec<usize> = (0..a.len()).collect();
                    idx.sort_by(|&i, &j| order(&keys[i], &keys[j]));
                    Value::Array(idx.into_iter().map(|i| a[i].clone()).collect())
                }
            }
            "to_array" => match val(0) {
                Value::Array(_) => val(0).clone(),
                v => Value::Array(vec![v.clone()]),
            },
            "to_string" => match val(0) {
                Value::String(_) => val(0).clone(),
                v => Value::String(serde_json::to_string(v).unwrap()),
            },
            "to_number" => match val(0) {
                Value::Number(_) => val(0).clone(),
                Value::String(s) => match classify_numeral(s) {
                    Numeral::Strict(v) => v,
                    Numeral::Unconstrained => return Err(self.unconstrained("to_number of a padded or out-of-range numeral")),
                    Numeral::No => Value::Null,
                },
                _ => Value::Null,
            },
            "type" => Value::String(type_name(val(0)).to_string()),
            _ => unreachable!(),
        })
    }
}

pub enum Numeral {
    Strict(Value),
    Unconstrained,
    No,
}

/// A string is a strict JSON numeral, a numeral only after trimming ASCII
/// whitespace / out of double range (unconstrained), or not a numeral.
pub fn classify_numeral(s: &str) -> Numeral {
    let is_numeral = |t: &str| -> Option<Result<Value, ()>> {
        match crate::json::parse_json(t, 4) {
            Ok(v @ Value::Number(_)) => Some(Ok(v)),
            Err(crate::json::JsonErr::NumberRange) => Some(Err(())),
            _ => None,
        }
    };
    let trimmed = s.trim_matches(|c| c == ' ' || c == '\t' || c == '\n' || c == '\r');
    if trimmed.len() == s.len() {
        match is_numeral(s) {
            Some(Ok(v)) => Numeral::Strict(v),
            Some(Err(())) => Numeral::Unconstrained,
            None => Numeral::No,
        }
    } else {
        match is_numeral(trimmed) {
            Some(_) => Numeral::Unconstrained,
            None => Numeral::No,
        }
    }
}

/// Order of two numbers or two strings (code-point order for strings).
pub fn order(a: &Value, b: &Value) -> Ordering {
    match (a, b) {
        (Value::String(x), Value::String(y)) => x.as_bytes().cmp(y.as_bytes()),
        (Value::Number(_), Value::Number(_)) => num_cmp(a, b),
        _ => Ordering::Equal,
    }
}

pub fn compare(op: CmpOp, l: &Value, r: &Value) -> Value {
    match op {
        CmpOp::Eq => Value::Bool(val_eq(l, r, 0.0)),
        CmpOp::Ne => Value::Bool(!val_eq(l, r, 0.0)),
        _ => match (l, r) {
            (Value::Number(x), Value::Number(y)) => {
                let o = if num_eq(x, y, 0.0) { Ordering::Equal } else { num_cmp(l, r) };
                Value::Bool(match op {
                    CmpOp::Lt => o == Ordering::Less,
                    CmpOp::Le => o != Ordering::Greater,
                    CmpOp::Gt => o == Ordering::Greater,
                    CmpOp::Ge => o != Ordering::Less,
                    _ => unreachable!(),
                })
            }
            _ => Value::Null,
        },
    }
}

/// The JMESPath / Python slice rule in wide arithmetic: indexes selected from
/// an array of length `len`. step must be non-zero.
pub fn slice_indices(len: i128, start: Option<i128>, stop: Option<i128>, step: i128) -> Vec<usize> {
    assert!(step != 0);
    let cap = |v: i128, lo: i128, hi: i128| v.max(lo).min(hi);
    let (a, b);
    if step > 0 {
        a = match start {
            None => 0,
            Some(s) => cap(if s < 0 { s + len } else { s }, 0, len),
        };
        b = match stop {
            None => len,
            Some(s) => cap(if s < 0 { s + len } else { s }, 0, len),
        };
    } else {
        a = match start {
            None => len - 1,
            Some(s) => cap(if s < 0 { s + len } else { s }, -1, len - 1),
        };
        b = match stop {
            None => -1,
            Some(s) => cap(if s < 0 { s + len } else { s }, -1, len - 1),
        };
    }
    let mut out = vec![];
    let mut i = a;
    if step > 0 {
        while i < b {
            out.push(i as usize);
            i += step;
        }
    } else {
        while i > b {
            out.push(i as usize);
            i += step;
        }
    }
    out
}
