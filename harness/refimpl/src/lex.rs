//! Reference lexer: the documented lexical rules of the JMESPath implementation
//! under test (see C03), written independently.

use crate::json::{decode_json_string_body, parse_json, JsonErr};
use serde_json::Value;

#[derive(Clone, Debug, PartialEq)]
pub enum Tok {
    Ident(String),
    QIdent(String),
    Num(i64),
    /// backtick JSON literal
    Lit(Value),
    /// raw string
    Raw(String),
    Dot,
    Star,
    Flatten,
    And,
    Or,
    Pipe,
    Filter,
    LBracket,
    RBracket,
    Comma,
    Colon,
    Not,
    Ne,
    Eq,
    Gt,
    Gte,
    Lt,
    Lte,
    At,
    Amp,
    LParen,
    RParen,
    LBrace,
    RBrace,
    Eof,
}

impl Tok {
    /// Small integer identifying the token kind (for distinctness statistics).
    pub fn kind(&self) -> u8 {
        use Tok::*;
        match self {
            Ident(_) => 0,
            QIdent(_) => 1,
            Num(_) => 2,
            Lit(_) => 3,
            Raw(_) => 4,
            Dot => 5,
            Star => 6,
            Flatten => 7,
            And => 8,
            Or => 9,
            Pipe => 10,
            Filter => 11,
            LBracket => 12,
            RBracket => 13,
            Comma => 14,
            Colon => 15,
            Not => 16,
            Ne => 17,
            Eq => 18,
            Gt => 19,
            Gte => 20,
            Lt => 21,
            Lte => 22,
            At => 23,
            Amp => 24,
            LParen => 25,
            RParen => 26,
            LBrace => 27,
            RBrace => 28,
            Eof => 29,
        }
    }
}

#[derive(Clone, Debug, PartialEq)]
pub struct Token {
    pub tok: Tok,
    /// byte offset of the first character
    pub pos: usize,
    /// byte offset one past the last character
    pub end: usize,
}

#[derive(Clone, Debug, PartialEq)]
pub struct LexErr {
    pub pos: usize,
    pub what: &'static str,
    /// set when the only reason for rejection is the numeral -2147483648 (boundary
    /// the documented rule "fits a signed 32-bit integer" does not settle)
    pub only_i32_min: bool,
}

/// Maximum nesting the JSON reader the crate builds on accepts (serde_json: 127 containers).
pub const JSON_MAX_DEPTH: usize = 127;

pub fn lex(src: &str) -> Result<Vec<Token>, LexErr> {
    let cs: Vec<(usize, char)> = src.char_indices().collect();
    let n = cs.len();
    let mut out = vec![];
    let mut i = 0;
    let bytepos = |k: usize| -> usize {
        if k < n {
            cs[k].0
        } else {
            src.len()
        }
    };
    let mut i32_min_seen = false;
    let err = |pos: usize, what: &'static str| LexErr {
        pos,
        what,
        only_i32_min: false,
    };
    while i < n {
        let (pos, c) = cs[i];
        let next = if i + 1 < n { Some(cs[i + 1].1) } else { None };
        let mut push = |tok: Tok, len: usize, i: &mut usize| {
            out.push(Token {
                tok,
                pos,
                end: bytepos(*i + len),
            });
            *i += len;
        };
        match c {
            ' ' | '\t' | '\n' | '\r' => i += 1,
            'a'..='z' | 'A'..='Z' | '_' => {
                let mut j = i + 1;
                while j < n && (cs[j].1.is_ascii_alphanumeric() || cs[j].1 == '_') {
                    j += 1;
                }
                let s: String = cs[i..j].iter().map(|x| x.1).collect();
                push(Tok::Ident(s), j - i, &mut i);
            }
            '.' => push(Tok::Dot, 1, &mut i),
            '*' => push(Tok::Star, 1, &mut i),
            '@' => push(Tok::At, 1, &mut i),
            ']' => push(Tok::RBracket, 1, &mut i),
            '{' => push(Tok::LBrace, 1, &mut i),
            '}' => push(Tok::RBrace, 1, &mut i),
            '(' => push(Tok::LParen, 1, &mut i),
            ')' => push(Tok::RParen, 1, &mut i),
            ',' => push(Tok::Comma, 1, &mut i),
            ':' => push(Tok::Colon, 1, &mut i),
            '[' => match next {
                Some(']') => push(Tok::Flatten, 2, &mut i),
                Some('?') => push(Tok::Filter, 2, &mut i),
                _ => push(Tok::LBracket, 1, &mut i),
            },
            '|' => {
                if next == Some('|') {
                    push(Tok::Or, 2, &mut i)
                } else {
                    push(Tok::Pipe, 1, &mut i)
                }
            }
            '&' => {
                if next == Some('&') {
                    push(Tok::And, 2, &mut i)
                } else {
                    push(Tok::Amp, 1, &mut i)
                }
            }
            '=' => {
                if next == Some('=') {
                    push(Tok::Eq, 2, &mut i)
                } else {
                    return Err(err(pos, "lone '='"));
                }
            }
            '>' => {
                if next == Some('=') {
                    push(Tok::Gte, 2, &mut i)
                } else {
                    push(Tok::Gt, 1, &mut i)
                }
            }
            '<' => {
                if next == Some('=') {
                    push(Tok::Lte, 2, &mut i)
                } else {
                    push(Tok::Lt, 1, &mut i)
                }
            }
            '!' => {
                if next == Some('=') {
                    push(Tok::Ne, 2, &mut i)
                } else {
                    push(Tok::Not, 1, &mut i)
                }
            }
            '0'..='9' | '-' => {
                let neg = c == '-';
                let mut j = if neg { i + 1 } else { i };
                if neg {
                    // '-' must be followed by 1-9
                    if !(j < n && ('1'..='9').contains(&cs[j].1)) {
                        return Err(err(pos, "'-' must be followed by 1-9"));
                    }
                }
                let ds = j;
                while j < n && cs[j].1.is_ascii_digit() {
                    j += 1;
                }
                // value with saturation
                let mut v: i64 = 0;
                let mut sat = false;
                for k in ds..j {
                    v = v * 10 + (cs[k].1 as i64 - '0' as i64);
                    if v > (1i64 << 40) {
                        sat = true;
                        v = 1i64 << 40;
                    }
                }
                let _ = sat;
                if neg && v == 2147483648 {
                    i32_min_seen = true;
                } else if v > 2147483647 {
                    return Err(err(pos, "number does not fit i32"));
                }
                let v = if neg { -v } else { v };
                push(Tok::Num(v), j - i, &mut i);
            }
            '"' | '\'' | '`' => {
                // scan to the closing delimiter; a backslash protects the next char
                let mut j = i + 1;
                let mut closed = false;
                while j < n {
                    let d = cs[j].1;
                    if d == c {
                        closed = true;
                        break;
                    } else if d == '\\' {
                        j += 2;
                    } else {
                        j += 1;
                    }
                }
                if !closed || j >= n {
                    return Err(err(pos, "unclosed delimiter"));
                }
                let body = &src[bytepos(i + 1)..bytepos(j)];
                let tok = match c {
                    '"' => match decode_json_string_body(body) {
                        Ok(s) => Tok::QIdent(s),
                        Err(_) => return Err(err(pos, "bad quoted identifier")),
                    },
                    '\'' => Tok::Raw(decode_raw(body)),
                    _ => {
                        let un = unescape_backticks(body);
                        match parse_json(&un, JSON_MAX_DEPTH) {
                            Ok(v) => Tok::Lit(v),
                            Err(JsonErr::Depth) => return Err(err(pos, "literal nests too deep")),
                            Err(_) => return Err(err(pos, "bad JSON literal")),
                        }
                    }
                };
                push(tok, j + 1 - i, &mut i);
            }
            _ => return Err(err(pos, "invalid character")),
        }
    }
    if i32_min_seen {
        return Err(LexErr {
            pos: 0,
            what: "-2147483648",
            only_i32_min: true,
        });
    }
    out.push(Token {
        tok: Tok::Eof,
        pos: src.len(),
        end: src.len(),
    });
    Ok(out)
}

/// Raw string body: scan in pairs; `\'` -> `'`, every other backslash literal.
pub fn decode_raw(body: &str) -> String {
    let cs: Vec<char> = body.chars().collect();
    let mut out = String::with_capacity(body.len());
    let mut i = 0;
    while i < cs.len() {
        if cs[i] == '\\' && i + 1 < cs.len() {
            if cs[i + 1] == '\'' {
                out.push('\'');
            } else {
                out.push('\\');
                out.push(cs[i + 1]);
            }
            i += 2;
        } else {
            out.push(cs[i]);
            i += 1;
        }
    }
    out
}

/// Backtick literal body: scan in pairs; `\`` -> '`', everything else untouched.
pub fn unescape_backticks(body: &str) -> String {
    let cs: Vec<char> = body.chars().collect();
    let mut out = String::with_capacity(body.len());
    let mut i = 0;
    while i < cs.len() {
        if cs[i] == '\\' && i + 1 < cs.len() {
            if cs[i + 1] == '`' {
                out.push('`');
            } else {
                out.push('\\');
                out.push(cs[i + 1]);
            }
            i += 2;
        } else {
            out.push(cs[i]);
            i += 1;
        }
    }
    out
}

/// Spell a string as a raw-string literal. Returns None when the language has
/// no raw-string spelling of `s` (a run of backslashes directly before a quote
/// or the end of the string cannot be written: every backslash written there
/// would pair with the delimiter).
pub fn spell_raw(s: &str) -> Option<String> {
    let cs: Vec<char> = s.chars().collect();
    // A backslash run that is followed by `'` or end-of-string must have even
    // length? No: pairs are formed left to right over the *spelling*. We spell
    // each `'` as `\'` and every other char as itself, then verify by decoding.
    let mut out = String::from("'");
    for c in &cs {
        if *c == '\'' {
            out.push_str("\\'");
        } else {
            out.push(*c);
        }
    }
    out.push('\'');
    // verify the spelling lexes as one raw string with the intended value
    match lex(&out) {
        Ok(ts) if ts.len() == 2 => match &ts[0].tok {
            Tok::Raw(v) if v == s => Some(out),
            _ => None,
        },
        _ => None,
    }
}

/// Spell an identifier: unquoted when it matches the identifier syntax (and
/// `force_quoted` is false), otherwise as a quoted identifier in `style`.
pub fn spell_ident(name: &str, force_quoted: bool, style: u8) -> String {
    let mut cs = name.chars();
    let plain = match cs.next() {
        Some(c) if c.is_ascii_alphabetic() || c == '_' => cs.all(|c| c.is_ascii_alphanumeric() || c == '_'),
        _ => false,
    };
    if plain && !force_quoted {
        name.to_string()
    } else {
        crate::json::spell_json_string(name, style)
    }
}

/// Spell a JSON value as a backtick literal.
pub fn spell_literal(v: &Value, style: u8) -> String {
    let j = crate::json::spell_json(v, style);
    // escape backticks; a backslash directly before a backtick would pair with
    // it, but in valid JSON text a backtick can only occur inside a string and a
    // backslash before it would have to be an escape start (`\`` is not valid
    // JSON), except after an escaped backslash `\\` which forms its own pair.
    format!("`{}`", j.replace('`', "\\`"))
}
