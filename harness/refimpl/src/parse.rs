//! Strict token-level recognizer/parser for JMESPath (DESIGN Appendix A),
//! producing the pipeline normal form directly.

use crate::lex::{lex, LexErr, Tok, Token};
use crate::nf::{CmpOp, Kind, Pipeline, Step};

#[derive(Clone, Debug)]
pub struct Opts {
    pub star_bp: u32,
    pub filter_bp: u32,
    /// R-paren-fn: `(foo)(x)`, `("foo")(x)` — but not `"foo"(x)` / `"foo" (x)`
    pub relax_paren_fn: bool,
    /// R-ms-after-proj: `a[*][b,c]`
    pub relax_ms_after_proj: bool,
    /// R-expref-anywhere: `&a`, `a.&b`
    pub relax_expref_anywhere: bool,
    /// V-dot-list-stops: after `.[multi-select list]` the right-hand side of an
    /// enclosing projection ends (what jmespath.py/js and this crate do) instead
    /// of continuing while tokens bind tighter than the projection.
    pub dot_list_stops: bool,
}

impl Opts {
    pub fn strict() -> Opts {
        Opts {
            star_bp: 20,
            filter_bp: 21,
            relax_paren_fn: false,
            relax_ms_after_proj: false,
            relax_expref_anywhere: false,
            dot_list_stops: false,
        }
    }
    pub fn with_tie(star_bp: u32, filter_bp: u32) -> Opts {
        Opts {
            star_bp,
            filter_bp,
            ..Opts::strict()
        }
    }
}

#[derive(Clone, Debug)]
pub enum ParseErr {
    Lex(LexErr),
    Syntax { pos: usize, what: &'static str },
    /// recursion guard of the reference parser itself (never a verdict)
    TooDeep,
}

pub const MAX_DEPTH: usize = 300;
const P_STOP: u32 = 10;

pub fn parse(src: &str, o: &Opts) -> Result<Pipeline, ParseErr> {
    let toks = lex(src).map_err(ParseErr::Lex)?;
    parse_tokens(&toks, o)
}

pub fn parse_tokens(toks: &[Token], o: &Opts) -> Result<Pipeline, ParseErr> {
    let mut p = P {
        t: toks,
        i: 0,
        o,
        depth: 0,
    };
    let e = p.expr(0)?;
    if p.peek() != &Tok::Eof {
        return Err(p.err("trailing tokens"));
    }
    Ok(e)
}

struct P<'a> {
    t: &'a [Token],
    i: usize,
    o: &'a Opts,
    depth: usize,
}

impl<'a> P<'a> {
    fn peek(&self) -> &Tok {
        &self.t[self.i.min(self.t.len() - 1)].tok
    }
    fn peek2(&self) -> &Tok {
        &self.t[(self.i + 1).min(self.t.len() - 1)].tok
    }
    fn pos(&self) -> usize {
        self.t[self.i.min(self.t.len() - 1)].pos
    }
    fn next(&mut self) -> Token {
        let t = self.t[self.i.min(self.t.len() - 1)].clone();
        if self.i < self.t.len() - 1 {
            self.i += 1;
        }
        t
    }
    fn err(&self, what: &'static str) -> ParseErr {
        ParseErr::Syntax { pos: self.pos(), what }
    }
    fn expect(&mut self, t: Tok, what: &'static str) -> Result<Token, ParseErr> {
        if self.peek() == &t {
            Ok(self.next())
        } else {
            Err(self.err(what))
        }
    }

    fn lbp(&self, t: &Tok) -> u32 {
        match t {
            Tok::Pipe => 1,
            Tok::Or => 2,
            Tok::And => 3,
            Tok::Eq | Tok::Ne | Tok::Gt | Tok::Gte | Tok::Lt | Tok::Lte => 5,
            Tok::Flatten => 9,
            Tok::Star => self.o.star_bp,
            Tok::Filter => self.o.filter_bp,
            Tok::Dot => 40,
            Tok::Not => 45,
            Tok::LBrace => 50,
            Tok::LBracket => 55,
            Tok::LParen => 60,
            _ => 0,
        }
    }

    fn enter(&mut self) -> Result<(), ParseErr> {
        self.depth += 1;
        if self.depth > MAX_DEPTH {
            Err(ParseErr::TooDeep)
        } else {
            Ok(())
        }
    }

    fn expr(&mut self, rbp: u32) -> Result<Pipeline, ParseErr> {
        self.enter()?;
        let left = self.nud()?;
        let r = self.led_loop(left, rbp);
        self.depth -= 1;
        r
    }

    fn led_loop(&mut self, mut left: Pipeline, rbp: u32) -> Result<Pipeline, ParseErr> {
        while rbp < self.lbp(self.peek()) {
            left = self.led(left)?;
        }
        Ok(left)
    }

    fn nud(&mut self) -> Result<Pipeline, ParseErr> {
        let t = self.next();
        match t.tok {
            Tok::At => Ok(vec![]),
            Tok::Ident(name) => {
                if self.peek() == &Tok::LParen {
                    let lp = self.next();
                    let args = self.args()?;
                    Ok(vec![Step::Call(name, args, lp.pos)])
                } else {
                    Ok(vec![Step::Field(name)])
                }
            }
            Tok::QIdent(name) => Ok(vec![Step::Field(name)]),
            Tok::Lit(v) => Ok(vec![Step::Literal(v)]),
            Tok::Raw(s) => Ok(vec![Step::Literal(serde_json::Value::String(s))]),
            Tok::Not => Ok(vec![Step::Not(self.expr(45)?)]),
            Tok::LParen => {
                let e = self.expr(0)?;
                self.expect(Tok::RParen, "expected ')'")?;
                Ok(e)
            }
            Tok::Star => {
                let rhs = self.prhs(self.o.star_bp)?;
                Ok(vec![Step::Project(Kind::ObjWild, rhs, (t.pos, t.pos))])
            }
            Tok::LBracket => self.bracket_nud(t.pos, true),
            Tok::Flatten => {
                let rhs = self.prhs(9)?;
                Ok(vec![Step::Project(Kind::Flatten, rhs, (t.pos, t.pos + 1))])
            }
            Tok::Filter => self.filter(t.pos),
            Tok::LBrace => {
                let mut kvs = vec![];
                loop {
                    let k = match self.next().tok {
                        Tok::Ident(s) | Tok::QIdent(s) => s,
                        _ => {
                            self.i = self.i.saturating_sub(1);
                            return Err(self.err("expected key"));
                        }
                    };
                    self.expect(Tok::Colon, "expected ':'")?;
                    let v = self.expr(0)?;
                    kvs.push((k, v));
                    match self.peek() {
                        Tok::Comma => {
                            self.next();
                        }
                        Tok::RBrace => {
                            self.next();
                            break;
                        }
                        _ => return Err(self.err("expected ',' or '}'")),
                    }
                }
                Ok(vec![Step::MultiHash(kvs)])
            }
            Tok::Amp if self.o.relax_expref_anywhere => Ok(vec![Step::Expref(self.expr(0)?)]),
            _ => {
                self.i = self.i.saturating_sub(1);
                Err(self.err("unexpected token at start of expression"))
            }
        }
    }

    /// After "[" in prefix position. `allow_multiselect`: a multi-select list is
    /// grammatical here.
    fn bracket_nud(&mut self, lb: usize, allow_multiselect: bool) -> Result<Pipeline, ParseErr> {
        match self.peek() {
            Tok::Num(_) | Tok::Colon => self.index_or_slice(lb),
            Tok::Star if self.peek2() == &Tok::RBracket => {
                self.next();
                let rb = self.next();
                let rhs = self.prhs(self.o.star_bp)?;
                Ok(vec![Step::Project(Kind::ListWild, rhs, (lb, rb.pos))])
            }
            _ => {
                if !allow_multiselect {
                    return Err(self.err("multi-select list not allowed here"));
                }
                self.multilist()
            }
        }
    }

    /// "[" already consumed. Non-empty, comma separated.
    fn multilist(&mut self) -> Result<Pipeline, ParseErr> {
        let mut es = vec![];
        loop {
            es.push(self.expr(0)?);
            match self.peek() {
                Tok::Comma => {
                    self.next();
                }
                Tok::RBracket => {
                    self.next();
                    break;
                }
                _ => return Err(self.err("expected ',' or ']'")),
            }
        }
        Ok(vec![Step::MultiList(es)])
    }

    /// "(" already consumed.
    fn args(&mut self) -> Result<Vec<Pipeline>, ParseErr> {
        let mut es = vec![];
        if self.peek() == &Tok::RParen {
            self.next();
            return Ok(es);
        }
        loop {
            if self.peek() == &Tok::Amp {
                self.next();
                es.push(vec![Step::Expref(self.expr(0)?)]);
            } else {
                es.push(self.expr(0)?);
            }
            match self.peek() {
                Tok::Comma => {
                    self.next();
                }
                Tok::RParen => {
                    self.next();
                    break;
                }
                _ => return Err(self.err("expected ',' or ')'")),
            }
        }
        Ok(es)
    }

    /// "[" consumed, next is Num or Colon.
    fn index_or_slice(&mut self, lb: usize) -> Result<Pipeline, ParseErr> {
        let mut parts: [Option<i64>; 3] = [None, None, None];
        let mut k = 0;
        let mut colons = 0;
        loop {
            match self.peek().clone() {
                Tok::Num(n) => {
                    if parts[k].is_some() {
                        return Err(self.err("two numbers in a row"));
                    }
                    parts[k] = Some(n);
                    self.next();
                }
                Tok::Colon => {
                    colons += 1;
                    if colons > 2 {
                        return Err(self.err("too many colons"));
                    }
                    k += 1;
                    self.next();
                }
                Tok::RBracket => break,
                _ => return Err(self.err("expected number, ':' or ']'")),
            }
        }
        let rb = self.next();
        if colons == 0 {
            match parts[0] {
                Some(n) => Ok(vec![Step::Index(n)]),
                None => Err(self.err("empty brackets")),
            }
        } else {
            let rhs = self.prhs(self.o.star_bp)?;
            Ok(vec![Step::Project(
                Kind::Slice(parts[0], parts[1], parts[2].unwrap_or(1)),
                rhs,
                (lb, rb.pos),
            )])
        }
    }

    /// "[?" consumed.
    fn filter(&mut self, lb: usize) -> Result<Pipeline, ParseErr> {
        let pred = self.expr(0)?;
        let rb = self.expect(Tok::RBracket, "expected ']' after filter")?;
        let rhs = self.prhs(self.o.filter_bp)?;
        Ok(vec![Step::Project(Kind::Filter(pred), rhs, (lb, rb.pos))])
    }

    fn led(&mut self, mut left: Pipeline) -> Result<Pipeline, ParseErr> {
        let t = self.next();
        match t.tok {
            Tok::Dot => {
                let rhs = self.dotrhs(40)?;
                left.extend(rhs);
                Ok(left)
            }
            Tok::LBracket => match self.peek() {
                Tok::Num(_) | Tok::Colon => {
                    let r = self.index_or_slice(t.pos)?;
                    left.extend(r);
                    Ok(left)
                }
                Tok::Star => {
                    self.next();
                    let rb = self.expect(Tok::RBracket, "expected ']' after '[*'")?;
                    let rhs = self.prhs(self.o.star_bp)?;
                    left.push(Step::Project(Kind::ListWild, rhs, (t.pos, rb.pos)));
                    Ok(left)
                }
                _ => Err(self.err("expected number, ':' or '*' after '['")),
            },
            Tok::Flatten => {
                let rhs = self.prhs(9)?;
                left.push(Step::Project(Kind::Flatten, rhs, (t.pos, t.pos + 1)));
                Ok(left)
            }
            Tok::Filter => {
                let r = self.filter(t.pos)?;
                left.extend(r);
                Ok(left)
            }
            Tok::Or => Ok(vec![Step::Or(left, self.expr(2)?)]),
            Tok::And => Ok(vec![Step::And(left, self.expr(3)?)]),
            Tok::Pipe => {
                let r = self.expr(1)?;
                left.extend(r);
                Ok(left)
            }
            Tok::Eq => Ok(vec![Step::Cmp(CmpOp::Eq, left, self.expr(5)?)]),
            Tok::Ne => Ok(vec![Step::Cmp(CmpOp::Ne, left, self.expr(5)?)]),
            Tok::Lt => Ok(vec![Step::Cmp(CmpOp::Lt, left, self.expr(5)?)]),
            Tok::Lte => Ok(vec![Step::Cmp(CmpOp::Le, left, self.expr(5)?)]),
            Tok::Gt => Ok(vec![Step::Cmp(CmpOp::Gt, left, self.expr(5)?)]),
            Tok::Gte => Ok(vec![Step::Cmp(CmpOp::Ge, left, self.expr(5)?)]),
            Tok::LParen if self.o.relax_paren_fn => {
                // the crate refuses a quoted identifier DIRECTLY followed by `(` ("Quoted strings can't be
                // a function name"); only a name reached through a group, `("foo")(x)`, gets through
                let directly_after_quoted = self.i >= 2 && matches!(self.t[self.i - 2].tok, Tok::QIdent(_));
                if left.len() == 1 && !directly_after_quoted {
                    if let Step::Field(name) = &left[0] {
                        let name = name.clone();
                        let args = self.args()?;
                        return Ok(vec![Step::Call(name, args, t.pos)]);
                    }
                }
                self.i = self.i.saturating_sub(1);
                Err(self.err("invalid function name"))
            }
            _ => {
                self.i = self.i.saturating_sub(1);
                Err(self.err("unexpected token after expression"))
            }
        }
    }

    /// After ".": identifier / "*" / multi-select hash / multi-select list /
    /// function call, then continue while the next token binds tighter than r.
    fn dotrhs(&mut self, r: u32) -> Result<Pipeline, ParseErr> {
        self.enter()?;
        let res = match self.peek() {
            Tok::Ident(_) | Tok::QIdent(_) | Tok::Star | Tok::LBrace => {
                let left = self.nud()?;
                self.led_loop(left, r)
            }
            Tok::Amp if self.o.relax_expref_anywhere => {
                let left = self.nud()?;
                self.led_loop(left, r)
            }
            Tok::LBracket => {
                self.next();
                let left = self.multilist()?;
                if self.o.dot_list_stops {
                    Ok(left)
                } else {
                    self.led_loop(left, r)
                }
            }
            _ => Err(self.err("expected identifier, '*', '{', '[' or function after '.'")),
        };
        self.depth -= 1;
        res
    }

    /// Right-hand side of a projection.
    fn prhs(&mut self, r: u32) -> Result<Pipeline, ParseErr> {
        self.enter()?;
        let res = match self.peek() {
            Tok::Dot => {
                self.next();
                self.dotrhs(r)
            }
            Tok::LBracket => {
                let t = self.next();
                let left = self.bracket_nud(t.pos, self.o.relax_ms_after_proj)?;
                self.led_loop(left, r)
            }
            Tok::Filter => {
                let t = self.next();
                let left = self.filter(t.pos)?;
                self.led_loop(left, r)
            }
            t if self.lbp(t) < P_STOP => Ok(vec![]),
            _ => Err(self.err("expected '.', '[' or '[?' after projection")),
        };
        self.depth -= 1;
        res
    }
}

/// Depth metric used for the C05 known-finding signature: maximum bracket
/// nesting + longest run of chained operators, computed from tokens only.
pub fn depth_metric(toks: &[Token]) -> usize {
    let mut nest = 0usize;
    let mut max_nest = 0usize;
    let mut ops = 0usize;
    for t in toks {
        match t.tok {
            Tok::LParen | Tok::LBracket | Tok::LBrace | Tok::Filter => {
                nest += 1;
                max_nest = max_nest.max(nest);
                ops += 1;
            }
            Tok::RParen | Tok::RBracket | Tok::RBrace => {
                nest = nest.saturating_sub(1);
            }
            Tok::Dot
            | Tok::Pipe
            | Tok::Or
            | Tok::And
            | Tok::Not
            | Tok::Flatten
            | Tok::Star
            | Tok::Amp
            | Tok::Eq
            | Tok::Ne
            | Tok::Lt
            | Tok::Lte
            | Tok::Gt
            | Tok::Gte => ops += 1,
            _ => {}
        }
    }
    max_nest.max(ops)
}
