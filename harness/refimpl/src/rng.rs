//! Deterministic PRNG (splitmix64). No external crates.

#[derive(Clone, Debug)]
pub struct Rng {
    s: u64,
}

impl Rng {
    pub fn new(seed: u64) -> Rng {
        Rng {
            s: seed.wrapping_mul(0x9E3779B97F4A7C15) ^ 0xD1B54A32D192ED03,
        }
    }

    /// Derive an independent stream for (seed, shard, purpose).
    pub fn derive(seed: u64, a: u64, b: u64) -> Rng {
        let mut r = Rng::new(seed ^ a.rotate_left(21) ^ b.rotate_left(43));
        r.next_u64();
        r.next_u64();
        r
    }

    pub fn state(&self) -> u64 {
        self.s
    }

    pub fn next_u64(&mut self) -> u64 {
        self.s = self.s.wrapping_add(0x9E3779B97F4A7C15);
        let mut z = self.s;
        z = (z ^ (z >> 30)).wrapping_mul(0xBF58476D1CE4E5B9);
        z = (z ^ (z >> 27)).wrapping_mul(0x94D049BB133111EB);
        z ^ (z >> 31)
    }

    /// Uniform in 0..n (n > 0).
    pub fn below(&mut self, n: usize) -> usize {
        debug_assert!(n > 0);
        (self.next_u64() % (n as u64)) as usize
    }

    /// Inclusive range.
    pub fn range(&mut self, lo: i64, hi: i64) -> i64 {
        debug_assert!(lo <= hi);
        let span = (hi - lo) as u64 + 1;
        lo + (self.next_u64() % span) as i64
    }

    pub fn chance(&mut self, num: u32, den: u32) -> bool {
        (self.next_u64() % den as u64) < num as u64
    }

    pub fn pick<'a, T>(&mut self, xs: &'a [T]) -> &'a T {
        &xs[self.below(xs.len())]
    }

    pub fn f64_unit(&mut self) -> f64 {
        (self.next_u64() >> 11) as f64 / (1u64 << 53) as f64
    }

    pub fn shuffle<T>(&mut self, xs: &mut [T]) {
        for i in (1..xs.len()).rev() {
            let j = self.below(i + 1);
            xs.swap(i, j);
        }
    }
}

/// FNV-1a 64-bit, for cheap distinctness hashing of cases.
pub fn fnv(s: &[u8]) -> u64 {
    let mut h: u64 = 0xcbf29ce484222325;
    for b in s {
        h ^= *b as u64;
        h = h.wrapping_mul(0x100000001b3);
    }
    h
}
