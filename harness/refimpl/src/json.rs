//! Independent strict JSON reader (RFC 8259) producing serde_json::Value,
//! JSON-string-body decoder, and value comparison helpers.
//! serde_json is used here only as the *container type*, never as the parser.

use serde_json::{Map, Number, Value};

#[derive(Debug, Clone, PartialEq)]
pub enum JsonErr {
    Syntax(usize),
    Depth,
    LoneSurrogate,
    NumberRange,
}

pub struct JsonParser<'a> {
    s: &'a [u8],
    i: usize,
    max_depth: usize,
}

/// Parse a complete JSON text. `max_depth`: number of nested containers allowed.
pub fn parse_json(text: &str, max_depth: usize) -> Result<Value, JsonErr> {
    let mut p = JsonParser {
        s: text.as_bytes(),
        i: 0,
        max_depth,
    };
    p.ws();
    let v = p.value(0)?;
    p.ws();
    if p.i != p.s.len() {
        return Err(JsonErr::Syntax(p.i));
    }
    Ok(v)
}

impl<'a> JsonParser<'a> {
    fn ws(&mut self) {
        while self.i < self.s.len() && matches!(self.s[self.i], b' ' | b'\t' | b'\n' | b'\r') {
            self.i += 1;
        }
    }

    fn value(&mut self, depth: usize) -> Result<Value, JsonErr> {
        if self.i >= self.s.len() {
            return Err(JsonErr::Syntax(self.i));
        }
        match self.s[self.i] {
            b'n' => self.lit("null", Value::Null),
            b't' => self.lit("true", Value::Bool(true)),
            b'f' => self.lit("false", Value::Bool(false)),
            b'"' => {
                self.i += 1;
                Ok(Value::String(self.string()?))
            }
            b'[' => {
                if depth + 1 > self.max_depth {
                    return Err(JsonErr::Depth);
                }
                self.i += 1;
                let mut out = vec![];
                self.ws();
                if self.peek() == Some(b']') {
                    self.i += 1;
                    return Ok(Value::Array(out));
                }
                loop {
                    self.ws();
                    out.push(self.value(depth + 1)?);
                    self.ws();
                    match self.peek() {
                        Some(b',') => self.i += 1,
                        Some(b']') => {
                            self.i += 1;
                            return Ok(Value::Array(out));
                        }
                        _ => return Err(JsonErr::Syntax(self.i)),
                    }
                }
            }
            b'{' => {
                if depth + 1 > self.max_depth {
                    return Err(JsonErr::Depth);
                }
                self.i += 1;
                let mut out = Map::new();
                self.ws();
                if self.peek() == Some(b'}') {
                    self.i += 1;
                    return Ok(Value::Object(out));
                }
                loop {
                    self.ws();
                    if self.peek() != Some(b'"') {
                        return Err(JsonErr::Syntax(self.i));
                    }
                    self.i += 1;
                    let k = self.string()?;
                    self.ws();
                    if self.peek() != Some(b':') {
                        return Err(JsonErr::Syntax(self.i));
                    }
                    self.i += 1;
                    self.ws();
                    let v = self.value(depth + 1)?;
                    out.insert(k, v); // last duplicate wins
                    self.ws();
                    match self.peek() {
                        Some(b',') => self.i += 1,
                        Some(b'}') => {
                            self.i += 1;
                            return Ok(Value::Object(out));
                        }
                        _ => return Err(JsonErr::Syntax(self.i)),
                    }
                }
            }
            b'-' | b'0'..=b'9' => self.number(),
            _ => Err(JsonErr::Syntax(self.i)),
        }
    }

    fn peek(&self) -> Option<u8> {
        self.s.get(self.i).copied()
    }

    fn lit(&mut self, word: &str, v: Value) -> Result<Value, JsonErr> {
        if self.s[self.i..].starts_with(word.as_bytes()) {
            self.i += word.len();
            Ok(v)
        } else {
            Err(JsonErr::Syntax(self.i))
        }
    }

    fn number(&mut self) -> Result<Value, JsonErr> {
        let start = self.i;
        let mut is_int = true;
        if self.peek() == Some(b'-') {
            self.i += 1;
        }
        match self.peek() {
            Some(b'0') => self.i += 1,
            Some(b'1'..=b'9') => {
                while matches!(self.peek(), Some(b'0'..=b'9')) {
                    self.i += 1;
                }
            }
            _ => return Err(JsonErr::Syntax(self.i)),
        }
        if self.peek() == Some(b'.') {
            is_int = false;
            self.i += 1;
            if !matches!(self.peek(), Some(b'0'..=b'9')) {
                return Err(JsonErr::Syntax(self.i));
            }
            while matches!(self.peek(), Some(b'0'..=b'9')) {
                self.i += 1;
            }
        }
        if matches!(self.peek(), Some(b'e') | Some(b'E')) {
            is_int = false;
            self.i += 1;
            if matches!(self.peek(), Some(b'+') | Some(b'-')) {
                self.i += 1;
            }
            if !matches!(self.peek(), Some(b'0'..=b'9')) {
                return Err(JsonErr::Syntax(self.i));
            }
            while matches!(self.peek(), Some(b'0'..=b'9')) {
                self.i += 1;
            }
        }
        let text = std::str::from_utf8(&self.s[start..self.i]).unwrap();
        numeral_to_number(text, is_int).map(Value::Number)
    }

    /// Called with i just after the opening quote.
    fn string(&mut self) -> Result<String, JsonErr> {
        let start = self.i;
        // find the end while honouring backslash pairs
        loop {
            match self.peek() {
                None => return Err(JsonErr::Syntax(self.i)),
                Some(b'"') => break,
                Some(b'\\') => {
                    self.i += 2;
                    if self.i > self.s.len() {
                        return Err(JsonErr::Syntax(self.s.len()));
                    }
                }
                Some(_) => self.i += 1,
            }
        }
        let body = std::str::from_utf8(&self.s[start..self.i]).map_err(|_| JsonErr::Syntax(start))?;
        self.i += 1;
        decode_json_string_body(body).map_err(|e| match e {
            JsonErr::Syntax(p) => JsonErr::Syntax(start + p),
            o => o,
        })
    }
}

/// Convert a syntactically valid JSON numeral to a Number the way a faithful
/// reader does: integers in the i64/u64 range stay integers, everything else is
/// the nearest double. `-0` keeps its sign as a float.
pub fn numeral_to_number(text: &str, is_int: bool) -> Result<Number, JsonErr> {
    if is_int {
        if text.starts_with('-') {
            if let Ok(v) = text.parse::<i64>() {
                if v == 0 {
                    return Number::from_f64(-0.0).ok_or(JsonErr::NumberRange);
                }
                return Ok(Number::from(v));
            }
        } else if let Ok(v) = text.parse::<u64>() {
            return Ok(Number::from(v));
        }
    }
    let f: f64 = text.parse().map_err(|_| JsonErr::Syntax(0))?;
    if !f.is_finite() {
        return Err(JsonErr::NumberRange);
    }
    Number::from_f64(f).ok_or(JsonErr::NumberRange)
}

/// Decode the body of a JSON string (text between the quotes).
pub fn decode_json_string_body(body: &str) -> Result<String, JsonErr> {
    let mut out = String::with_capacity(body.len());
    let cs: Vec<char> = body.chars().collect();
    let mut i = 0;
    let mut bytepos = 0usize;
    let hex4 = |cs: &[char], at: usize| -> Option<u32> {
        if at + 4 > cs.len() {
            return None;
        }
        let mut v = 0u32;
        for k in 0..4 {
            v = v * 16 + cs[at + k].to_digit(16)?;
        }
        Some(v)
    };
    while i < cs.len() {
        let c = cs[i];
        if (c as u32) < 0x20 {
            return Err(JsonErr::Syntax(bytepos));
        }
        if c == '"' {
            return Err(JsonErr::Syntax(bytepos));
        }
        if c != '\\' {
            out.push(c);
            i += 1;
            bytepos += c.len_utf8();
            continue;
        }
        if i + 1 >= cs.len() {
            return Err(JsonErr::Syntax(bytepos));
        }
        let e = cs[i + 1];
        match e {
            '"' => out.push('"'),
            '\\' => out.push('\\'),
            '/' => out.push('/'),
            'b' => out.push('\u{8}'),
            'f' => out.push('\u{c}'),
            'n' => out.push('\n'),
            'r' => out.push('\r'),
            't' => out.push('\t'),
            'u' => {
                let hi = hex4(&cs, i + 2).ok_or(JsonErr::Syntax(bytepos))?;
                if (0xD800..0xDC00).contains(&hi) {
                    // must be followed by \uDC00..DFFF
                    if i + 7 < cs.len() && cs[i + 6] == '\\' && cs[i + 7] == 'u' {
                        let lo = hex4(&cs, i + 8).ok_or(JsonErr::Syntax(bytepos))?;
                        if (0xDC00..0xE000).contains(&lo) {
                            let cp = 0x10000 + ((hi - 0xD800) << 10) + (lo - 0xDC00);
                            out.push(std::char::from_u32(cp).ok_or(JsonErr::LoneSurrogate)?);
                            i += 12;
                            bytepos += 12;
                            continue;
                        }
                    }
                    return Err(JsonErr::LoneSurrogate);
                } else if (0xDC00..0xE000).contains(&hi) {
                    return Err(JsonErr::LoneSurrogate);
                } else {
                    out.push(std::char::from_u32(hi).ok_or(JsonErr::Syntax(bytepos))?);
                }
                i += 6;
                bytepos += 6;
                continue;
            }
            _ => return Err(JsonErr::Syntax(bytepos)),
        }
        i += 2;
        bytepos += 1 + e.len_utf8();
    }
    Ok(out)
}

/// Spell a string as a JSON string literal (with quotes). `style`:
/// 0 = minimal escapes, 1 = every char as \uXXXX (surrogate pairs for astral),
/// 2 = mixed (non-ASCII escaped, ASCII short escapes).
pub fn spell_json_string(s: &str, style: u8) -> String {
    let mut out = String::from("\"");
    for c in s.chars() {
        let cp = c as u32;
        let esc_u = |out: &mut String, cp: u32| {
            if cp >= 0x10000 {
                let v = cp - 0x10000;
                out.push_str(&format!("\\u{:04x}\\u{:04x}", 0xD800 + (v >> 10), 0xDC00 + (v & 0x3FF)));
            } else {
                out.push_str(&format!("\\u{:04X}", cp));
            }
        };
        match style {
            1 => esc_u(&mut out, cp),
            _ => match c {
                '"' => out.push_str("\\\""),
                '\\' => out.push_str("\\\\"),
                '\n' => out.push_str("\\n"),
                '\r' => out.push_str("\\r"),
                '\t' => out.push_str("\\t"),
                '\u{8}' => out.push_str("\\b"),
                '\u{c}' => out.push_str("\\f"),
                '/' if style == 2 => out.push_str("\\/"),
                c if cp < 0x20 => {
                    let _ = c;
                    esc_u(&mut out, cp)
                }
                c if style == 2 && cp >= 0x7f => {
                    let _ = c;
                    esc_u(&mut out, cp)
                }
                c => out.push(c),
            },
        }
    }
    out.push('"');
    out
}

/// Spell a JSON value as text. style 0 compact / minimal escapes; 1 all-\u
/// strings; 2 spaced ("pretty-ish") with mixed escapes.
pub fn spell_json(v: &Value, style: u8) -> String {
    let mut out = String::new();
    spell_into(v, style, &mut out);
    out
}

fn spell_into(v: &Value, style: u8, out: &mut String) {
    match v {
        Value::Null => out.push_str("null"),
        Value::Bool(b) => out.push_str(if *b { "true" } else { "false" }),
        Value::Number(n) => out.push_str(&n.to_string()),
        Value::String(s) => out.push_str(&spell_json_string(s, style)),
        Value::Array(a) => {
            out.push('[');
            for (i, e) in a.iter().enumerate() {
                if i > 0 {
                    out.push(',');
                    if style == 2 {
                        out.push(' ');
                    }
                }
                spell_into(e, style, out);
            }
            out.push(']');
        }
        Value::Object(m) => {
            out.push('{');
            for (i, (k, e)) in m.iter().enumerate() {
                if i > 0 {
                    out.push(',');
                    if style == 2 {
                        out.push('\n');
                    }
                }
                out.push_str(&spell_json_string(k, style));
                out.push(':');
                if style == 2 {
                    out.push(' ');
                }
                spell_into(e, style, out);
            }
            out.push('}');
        }
    }
}

// ---------------------------------------------------------------------------
// comparisons

pub fn is_integer_number(n: &Number) -> bool {
    n.is_i64() || n.is_u64()
}

/// Numbers equal by value: exact when both are integers, else as doubles with
/// relative tolerance `tol` (0.0 for exact).
pub fn num_eq(a: &Number, b: &Number, tol: f64) -> bool {
    if is_integer_number(a) && is_integer_number(b) {
        return match (a.as_i64(), b.as_i64(), a.as_u64(), b.as_u64()) {
            (Some(x), Some(y), _, _) => x == y,
            (_, _, Some(x), Some(y)) => x == y,
            _ => false,
        };
    }
    let (x, y) = (a.as_f64().unwrap_or(f64::NAN), b.as_f64().unwrap_or(f64::NAN));
    if x == y {
        return true;
    }
    if tol == 0.0 {
        return false;
    }
    let d = (x - y).abs();
    let m = x.abs().max(y.abs());
    d <= tol * m
}

/// JSON equality, numbers by value with tolerance.
pub fn val_eq(a: &Value, b: &Value, tol: f64) -> bool {
    match (a, b) {
        (Value::Null, Value::Null) => true,
        (Value::Bool(x), Value::Bool(y)) => x == y,
        (Value::String(x), Value::String(y)) => x == y,
        (Value::Number(x), Value::Number(y)) => num_eq(x, y, tol),
        (Value::Array(x), Value::Array(y)) => x.len() == y.len() && x.iter().zip(y).all(|(p, q)| val_eq(p, q, tol)),
        (Value::Object(x), Value::Object(y)) => {
            x.len() == y.len() && x.iter().all(|(k, p)| y.get(k).map_or(false, |q| val_eq(p, q, tol)))
        }
        _ => false,
    }
}

/// Exact structural identity: numbers must have the same kind (int/float) and bits.
pub fn val_identical(a: &Value, b: &Value) -> bool {
    match (a, b) {
        (Value::Number(x), Value::Number(y)) => {
            if is_integer_number(x) != is_integer_number(y) {
                return false;
            }
            if is_integer_number(x) {
                x.to_string() == y.to_string()
            } else {
                x.as_f64().map(f64::to_bits) == y.as_f64().map(f64::to_bits)
            }
        }
        (Value::Array(x), Value::Array(y)) => x.len() == y.len() && x.iter().zip(y).all(|(p, q)| val_identical(p, q)),
        (Value::Object(x), Value::Object(y)) => {
            x.len() == y.len() && x.iter().zip(y.iter()).all(|((k1, p), (k2, q))| k1 == k2 && val_identical(p, q))
        }
        (Value::Null, Value::Null) => true,
        (Value::Bool(x), Value::Bool(y)) => x == y,
        (Value::String(x), Value::String(y)) => x == y,
        _ => false,
    }
}

pub fn type_name(v: &Value) -> &'static str {
    match v {
        Value::Null => "null",
        Value::Bool(_) => "boolean",
        Value::Number(_) => "number",
        Value::String(_) => "string",
        Value::Array(_) => "array",
        Value::Object(_) => "object",
    }
}

pub fn truthy(v: &Value) -> bool {
    match v {
        Value::Null => false,
        Value::Bool(b) => *b,
        Value::String(s) => !s.is_empty(),
        Value::Array(a) => !a.is_empty(),
        Value::Object(o) => !o.is_empty(),
        Value::Number(_) => true,
    }
}

pub fn depth_of(v: &Value) -> usize {
    match v {
        Value::Array(a) => 1 + a.iter().map(depth_of).max().unwrap_or(0),
        Value::Object(o) => 1 + o.values().map(depth_of).max().unwrap_or(0),
        _ => 0,
    }
}

/// Structural equality where integers must be identical and floats may differ
/// by at most `ulps` units in the last place (the documented accuracy of the
/// JSON reader the crate builds on).
pub fn val_close(a: &Value, b: &Value, ulps: u64) -> bool {
    match (a, b) {
        (Value::Number(x), Value::Number(y)) => {
            if is_integer_number(x) && is_integer_number(y) {
                return x.to_string() == y.to_string();
            }
            match (x.as_f64(), y.as_f64()) {
                (Some(p), Some(q)) => {
                    if p == q {
                        return true;
                    }
                    if p.is_sign_negative() != q.is_sign_negative() {
                        return false;
                    }
                    let (i, j) = (p.abs().to_bits() as i128, q.abs().to_bits() as i128);
                    (i - j).unsigned_abs() <= ulps as u128
                }
                _ => false,
            }
        }
        (Value::Array(x), Value::Array(y)) => x.len() == y.len() && x.iter().zip(y).all(|(p, q)| val_close(p, q, ulps)),
        (Value::Object(x), Value::Object(y)) => {
            x.len() == y.len() && x.iter().zip(y.iter()).all(|((k1, p), (k2, q))| k1 == k2 && val_close(p, q, ulps))
        }
        (Value::Null, Value::Null) => true,
        (Value::Bool(x), Value::Bool(y)) => x == y,
        (Value::String(x), Value::String(y)) => x == y,
        _ => false,
    }
}
