//! Workload generators: JSON documents, value-guided expression trees.

use crate::eval::{Builtins, Evaluator};
use crate::nf::{CmpOp, Kind, Pipeline, Step};
use crate::rng::Rng;
use serde_json::{Map, Number, Value};

pub const KEYS: [&str; 10] = ["a", "b", "c", "d", "e", "foo", "bar", "id", "k", "n"];
pub const ODD_KEYS: [&str; 10] = [
    "", " ", "a b", "with\"quote", "é", "日本", "\u{1F600}", "0", "a.b", "back\\slash",
];

pub fn gen_key(rng: &mut Rng) -> String {
    if rng.chance(1, 12) {
        rng.pick(&ODD_KEYS).to_string()
    } else {
        rng.pick(&KEYS).to_string()
    }
}

/// Numbers that are pairwise identical or well separated (no near-equal floats).
pub fn gen_number(rng: &mut Rng) -> Value {
    match rng.below(12) {
        0 => Value::from(0),
        1 => Value::Number(Number::from_f64(0.0).unwrap()),
        2 => Value::from(rng.range(-3, 12)),
        3 => Value::Number(Number::from_f64(rng.range(-6, 24) as f64 / 2.0).unwrap()),
        4 => Value::from(rng.range(-1000, 1000)),
        5 => Value::Number(Number::from_f64(rng.range(-40, 40) as f64 / 4.0).unwrap()),
        6 => Value::from(1u64 << rng.range(20, 52)),
        7 => Value::Number(Number::from_f64(1.0).unwrap()),
        8 => Value::from(-1),
        _ => Value::from(rng.range(0, 5)),
    }
}

pub fn gen_string(rng: &mut Rng) -> String {
    const POOL: [&str; 16] = [
        "", "a", "b", "ab", "abc", "foo", "bar", "A", "Z", "é", "日本語", "\u{1F600}x", "a b", "0", "10", "e\u{301}",
    ];
    rng.pick(&POOL).to_string()
}

pub fn gen_scalar(rng: &mut Rng) -> Value {
    match rng.below(10) {
        0 => Value::Null,
        1 => Value::Bool(true),
        2 => Value::Bool(false),
        3 | 4 | 5 => gen_number(rng),
        _ => Value::String(gen_string(rng)),
    }
}

pub fn gen_doc(rng: &mut Rng, depth: usize) -> Value {
    if depth == 0 || rng.chance(1, 4) {
        return gen_scalar(rng);
    }
    match rng.below(11) {
        10 => {
            let falsy = [Value::Bool(false), Value::String(String::new()), Value::Array(vec![]), Value::Object(Map::new())];
            Value::Array((0..rng.below(3) + 1).map(|_| falsy[rng.below(4)].clone()).collect())
        }
        0 => Value::Array(vec![]),
        1 => Value::Object(Map::new()),
        2 | 3 | 4 => {
            // array, often homogeneous records so projections hit
            let n = rng.below(5) + 1;
            if rng.chance(1, 2) {
                let proto: Vec<String> = (0..rng.below(3) + 1).map(|_| gen_key(rng)).collect();
                Value::Array(
                    (0..n)
                        .map(|_| {
                            let mut m = Map::new();
                            for k in &proto {
                                if !rng.chance(1, 6) {
                                    m.insert(k.clone(), gen_doc(rng, depth - 1));
                                }
                            }
                            Value::Object(m)
                        })
                        .collect(),
                )
            } else {
                Value::Array((0..n).map(|_| gen_doc(rng, depth - 1)).collect())
            }
        }
        _ => {
            let n = rng.below(5) + 1;
            let mut m = Map::new();
            for _ in 0..n {
                m.insert(gen_key(rng), gen_doc(rng, depth - 1));
            }
            Value::Object(m)
        }
    }
}

/// Perturb a document: drop keys, change types, empty containers.
pub fn mutate_doc(rng: &mut Rng, v: &Value) -> Value {
    if rng.chance(1, 8) {
        return gen_doc(rng, 2);
    }
    match v {
        Value::Array(a) => {
            let mut out: Vec<Value> = a.iter().map(|e| mutate_doc(rng, e)).collect();
            if !out.is_empty() && rng.chance(1, 5) {
                let i = rng.below(out.len());
                out.remove(i);
            }
            if rng.chance(1, 6) {
                out.push(gen_doc(rng, 2));
            }
            Value::Array(out)
        }
        Value::Object(m) => {
            let mut out = Map::new();
            for (k, e) in m {
                if rng.chance(1, 7) {
                    continue;
                }
                out.insert(k.clone(), mutate_doc(rng, e));
            }
            if rng.chance(1, 8) {
                out.insert(gen_key(rng), gen_doc(rng, 2));
            }
            Value::Object(out)
        }
        other => {
            if rng.chance(1, 6) {
                gen_scalar(rng)
            } else {
                other.clone()
            }
        }
    }
}

#[derive(Clone)]
pub struct GenCfg {
    /// allow function calls (C02/C11/C13) — false for C01
    pub calls: bool,
    /// maximum recursion depth for sub-expressions
    pub depth: usize,
}

pub struct TreeGen<'a> {
    pub rng: &'a mut Rng,
    pub cfg: GenCfg,
}

impl<'a> TreeGen<'a> {
    fn eval(&self, p: &Pipeline, v: &Value) -> Value {
        let ev = Evaluator::new(&Builtins);
        ev.eval(p, v).unwrap_or(Value::Null)
    }

    /// Generate a pipeline guided by a sample value so that most steps "hit".
    pub fn pipeline(&mut self, cur: &Value, depth: usize, max_steps: usize) -> Pipeline {
        let mut p: Pipeline = vec![];
        let mut v = cur.clone();
        let n = self.rng.below(max_steps) + 1;
        for _ in 0..n {
            let s = self.step(&v, depth, false);
            let is_proj = matches!(s, Step::Project(..));
            v = self.eval(&vec![s.clone()], &v);
            p.push(s);
            if is_proj && self.rng.chance(1, 2) {
                break;
            }
        }
        if self.rng.chance(1, 25) {
            return vec![];
        }
        p
    }

    /// A pipeline usable as the right-hand side of a projection: postfix steps
    /// only, a nested projection only as the last step, never a flatten.
    pub fn rhs(&mut self, elem: &Value, depth: usize, in_filter: bool) -> Pipeline {
        let mut p: Pipeline = vec![];
        if self.rng.chance(1, 4) {
            return p;
        }
        let mut v = elem.clone();
        let n = self.rng.below(3) + 1;
        for _ in 0..n {
            let s = self.step(&v, depth, true);
            let is_proj = matches!(s, Step::Project(..));
            if in_filter && matches!(s, Step::Project(Kind::Filter(_), ..)) {
                break;
            }
            v = self.eval(&vec![s.clone()], &v);
            p.push(s);
            if is_proj {
                break;
            }
        }
        p
    }

    fn existing_key(&mut self, v: &Value) -> String {
        if let Value::Object(m) = v {
            if !m.is_empty() && !self.rng.chance(1, 8) {
                let i = self.rng.below(m.len());
                return m.keys().nth(i).unwrap().clone();
            }
        }
        gen_key(self.rng)
    }

    fn small_literal(&mut self) -> Value {
        match self.rng.below(8) {
            0 => gen_doc(self.rng, 2),
            1 => Value::Array(vec![gen_scalar(self.rng), gen_scalar(self.rng)]),
            _ => gen_scalar(self.rng),
        }
    }

    fn first_elem(v: &Value, kind: &Kind) -> Value {
        match (v, kind) {
            (Value::Array(a), Kind::Flatten) => {
                for e in a {
                    match e {
                        Value::Array(inner) => {
                            if let Some(x) = inner.first() {
                                return x.clone();
                            }
                        }
                        o => return o.clone(),
                    }
                }
                Value::Null
            }
            (Value::Array(a), _) => a.iter().find(|e| !e.is_null()).cloned().unwrap_or(Value::Null),
            (Value::Object(m), Kind::ObjWild) => m.values().find(|e| !e.is_null()).cloned().unwrap_or(Value::Null),
            _ => Value::Null,
        }
    }

    fn slice_kind(&mut self, len: usize) -> Kind {
        let l = len as i64;
        let part = |rng: &mut Rng| -> Option<i64> {
            match rng.below(5) {
                0 => None,
                1 => Some(rng.range(-l - 2, l + 2)),
                _ => Some(rng.range(-3, 4)),
            }
        };
        let a = part(self.rng);
        let b = part(self.rng);
        let c = match self.rng.below(24) {
            0 | 1 | 2 | 3 => -1,
            4 | 5 | 6 | 7 => 2,
            8 | 9 | 10 | 11 => -2,
            12 => 0,
            13 => 3,
            _ => 1,
        };
        Kind::Slice(a, b, c)
    }

    /// A sub-expression evaluated against `cur` (operand, element, predicate...).
    pub fn subexpr(&mut self, cur: &Value, depth: usize) -> Pipeline {
        if depth == 0 {
            return match self.rng.below(4) {
                0 => vec![],
                1 => vec![Step::Literal(gen_scalar(self.rng))],
                _ => vec![Step::Field(self.existing_key(cur))],
            };
        }
        self.pipeline(cur, depth - 1, 3)
    }

    fn predicate(&mut self, elem: &Value, depth: usize) -> Pipeline {
        // comparisons against values that occur in the element make filters selective
        let d = depth.saturating_sub(1);
        match self.rng.below(7) {
            0 => self.subexpr(elem, d),
            1 => vec![Step::Not(self.subexpr(elem, d))],
            6 => {
                // a bare projection as predicate: truthy iff the projected array is non-empty
                let mut p = vec![Step::Field(self.existing_key(elem))];
                let kind = match self.rng.below(3) {
                    0 => Kind::ListWild,
                    1 => Kind::Flatten,
                    _ => Kind::Slice(None, Some(self.rng.range(0, 3)), 1),
                };
                p.push(Step::Project(kind, vec![], (0, 0)));
                p
            }
            _ => {
                let l = self.subexpr(elem, d);
                let lv = self.eval(&l, elem);
                let r = if self.rng.chance(1, 2) && !lv.is_null() {
                    // containers too: the same value, or a proper prefix of an array
                    match &lv {
                        Value::Array(a) if !a.is_empty() && self.rng.chance(1, 2) => {
                            let k = self.rng.below(a.len());
                            vec![Step::Literal(Value::Array(a[..k].to_vec()))]
                        }
                        _ => vec![Step::Literal(lv)],
                    }
                } else if self.rng.chance(1, 2) {
                    vec![Step::Literal(gen_scalar(self.rng))]
                } else {
                    self.subexpr(elem, d)
                };
                let op = *self.rng.pick(&CmpOp::ALL);
                vec![Step::Cmp(op, l, r)]
            }
        }
    }

    fn step(&mut self, cur: &Value, depth: usize, postfix_only: bool) -> Step {
        let d = depth;
        // candidate kinds weighted by the shape of the current value
        let roll = self.rng.below(100);
        let is_arr = cur.is_array();
        let is_obj = cur.is_object();
        // structural steps that fit the value
        if is_obj && roll < 45 {
            return Step::Field(self.existing_key(cur));
        }
        if is_arr && roll < 50 {
            let len = cur.as_array().unwrap().len();
            let kind = match self.rng.below(if postfix_only { 8 } else { 10 }) {
                0 | 1 => {
                    let l = len as i64;
                    return Step::Index(self.rng.range(-l - 1, l + 1));
                }
                2 | 3 => Kind::ListWild,
                4 | 5 => {
                    let el = Self::first_elem(cur, &Kind::ListWild);
                    Kind::Filter(self.predicate(&el, d))
                }
                6 | 7 => self.slice_kind(len),
                _ => Kind::Flatten,
            };
            let el = Self::first_elem(cur, &kind);
            let rhs = if d == 0 { vec![] } else { self.rhs(&el, d - 1, matches!(kind, Kind::Filter(_))) };
            return Step::Project(kind, rhs, (0, 0));
        }
        if is_obj && roll < 60 {
            let el = Self::first_elem(cur, &Kind::ObjWild);
            let rhs = if d == 0 { vec![] } else { self.rhs(&el, d - 1, false) };
            return Step::Project(Kind::ObjWild, rhs, (0, 0));
        }
        // anything-goes steps (also exercise wrong-type subjects)
        let k = self.rng.below(if postfix_only { 6 } else { 14 });
        match k {
            0 => Step::Field(self.existing_key(cur)),
            1 => Step::Index(self.rng.range(-3, 3)),
            2 => {
                let n = self.rng.below(3) + 1;
                Step::MultiList((0..n).map(|_| self.subexpr(cur, d.saturating_sub(1))).collect())
            }
            3 => {
                let n = self.rng.below(3) + 1;
                Step::MultiHash(
                    (0..n)
                        .map(|_| (gen_key(self.rng), self.subexpr(cur, d.saturating_sub(1))))
                        .collect(),
                )
            }
            4 => {
                let kind = match self.rng.below(5) {
                    0 => Kind::ListWild,
                    1 => Kind::ObjWild,
                    2 if !postfix_only => Kind::Flatten,
                    3 => self.slice_kind(3),
                    _ => Kind::Filter(self.predicate(cur, d)),
                };
                { let inf = matches!(kind, Kind::Filter(_)); Step::Project(kind, if d == 0 { vec![] } else { self.rhs(cur, d - 1, inf) }, (0, 0)) }
            }
            5 => {
                if self.cfg.calls && d > 0 {
                    self.call(cur, d - 1)
                } else {
                    Step::Field(self.existing_key(cur))
                }
            }
            6 => Step::Literal(self.small_literal()),
            7 => Step::Not(self.subexpr(cur, d.saturating_sub(1))),
            8 => Step::Or(self.subexpr(cur, d.saturating_sub(1)), self.subexpr(cur, d.saturating_sub(1))),
            9 => Step::And(self.subexpr(cur, d.saturating_sub(1)), self.subexpr(cur, d.saturating_sub(1))),
            10 | 11 => {
                let p = self.predicate(cur, d);
                p.into_iter().next().unwrap_or(Step::Literal(Value::Null))
            }
            12 => Step::Project(Kind::Flatten, if d == 0 { vec![] } else { self.rhs(cur, d - 1, false) }, (0, 0)),
            _ => Step::Field(self.existing_key(cur)),
        }
    }

    /// A function call whose arguments are likely (not certain) to fit.
    pub fn call(&mut self, cur: &Value, depth: usize) -> Step {
        let name = *self.rng.pick(&crate::eval::BUILTIN_NAMES);
        let sig = crate::eval::signature(name).unwrap();
        let mut args = vec![];
        let extra = if sig.variadic.is_some() { self.rng.below(3) } else { 0 };
        for k in 0..sig.params.len() + extra {
            let t = if k < sig.params.len() { sig.params[k] } else { sig.variadic.unwrap() };
            if t == crate::eval::T::Expref {
                // element sample: first element of the array argument if we can see it
                let el = match cur {
                    Value::Array(a) => a.first().cloned().unwrap_or(Value::Null),
                    _ => Value::Null,
                };
                args.push(vec![Step::Expref(self.subexpr(&el, depth))]);
            } else if self.rng.chance(1, 2) {
                args.push(vec![]);
            } else {
                args.push(self.subexpr(cur, depth));
            }
        }
        Step::Call(name.to_string(), args, 0)
    }
}

/// Hash of a JSON value for distinctness statistics.
pub fn value_hash(v: &Value) -> u64 {
    crate::rng::fnv(serde_json::to_string(v).unwrap_or_default().as_bytes())
}
